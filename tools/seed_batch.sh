#!/bin/bash
# usage: seed_batch.sh <pid>...   (expects /tmp/wt_<pid>/out or /tmp/seeds/<pid>)
cd /verif
for p in "$@"; do
  if [ -d /tmp/wt_$p/out ]; then mkdir -p /tmp/seeds; rm -rf /tmp/seeds/$p; cp -r /tmp/wt_$p/out /tmp/seeds/$p; git -C /repo worktree remove --force /tmp/wt_$p 2>/dev/null; rm -rf /tmp/wt_$p; fi
  for x in A B; do
    if [ -f /tmp/seeds/$p/$x.diff ]; then
      python3 tools/seed_eval.py $p-$x $p /tmp/seeds/$p/$x.diff /tmp/seeds/$p/${x}_demo_test.go /tmp/seeds/$p/$x.md > /tmp/seedlog_$p-$x.txt 2>&1
      tail -1 /tmp/seedlog_$p-$x.txt
    fi
  done
done
