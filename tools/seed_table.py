#!/usr/bin/env python3
"""Builds seeded/README.md from the meta.json files."""
import json, os
V = os.path.dirname(os.path.dirname(os.path.abspath(__file__)))
rows = []
for name in sorted(os.listdir(os.path.join(V, 'seeded'))):
    mp = os.path.join(V, 'seeded', name, 'meta.json')
    if not os.path.exists(mp):
        continue
    m = json.load(open(mp))
    first = m.get('what_it_needs_to_manifest', '').strip().splitlines()
    text = ' '.join(l.strip() for l in first if l.strip())[:260]
    tgt = m['property']
    caught = m.get('caught_by', [])
    verdict = 'caught by its own check' if tgt in caught else ('caught by another check only' if caught else 'NOT caught (inconclusive in %s)' % ', '.join(m.get('inconclusive_in', [])) if m.get('inconclusive_in') else 'NOT caught')
    rows.append((name, tgt, verdict, ', '.join(caught) or '-', ', '.join(c for c in m.get('inconclusive_in', []) if c not in caught) or '-', text))
out = ['# Seeded changes', '',
       'Each directory holds one change produced by an independent sub-agent that saw only the property text and a scratch worktree:',
       '`patch.diff`, the agent\'s demonstration (`demo_test.go.txt`), and `meta.json` (what it breaks, what it needs to manifest, what was run,',
       'and the result of every check).  Every change was confirmed here: it compiles, the unedited suite passes, the demonstration fails with it and passes without it.',
       'Checks were run with `VERIF_REPO=<scratch worktree carrying the patch> ./check <id> quick` (equivalent to `git -C /repo apply`; /repo itself is never modified).',
       'The rows of rounds 1-2 (A-D) come from a run of all 19 checks with the machinery as it was after round 2, those of rounds 3-4 (E-H) from a run with the machinery after round 4;',
       'the TARGET check of every change was then re-run with the final machinery and merged in (`rerun_at_verif_commit` in meta.json).  Runs under heavy machine load',
       'occasionally end in exit 2 where an unloaded run finds the witness (solver time limits of the quick tier).', '',
       '| change | target | verdict | VIOLATION reported by | exit 2 (inconclusive) in | what it does / needs |', '|---|---|---|---|---|---|']
for r in rows:
    out.append('| %s | %s | %s | %s | %s | %s |' % tuple(x.replace('|', '/') for x in r))
n = len(rows)
own = sum(1 for r in rows if r[2] == 'caught by its own check')
anyc = sum(1 for r in rows if r[3] != '-')
out += ['', '%d changes; %d reported by the target property\'s own check, %d by at least one check.' % (n, own, anyc), '']
open(os.path.join(V, 'seeded', 'README.md'), 'w').write('\n'.join(out))
print('\n'.join(out[-3:]))
