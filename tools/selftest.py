#!/usr/bin/env python3
"""Runs every replay battery (the concrete side of the checks) against the current /repo tree: on a tree where the
properties hold, every battery must compile and pass - a failing battery here would be a false alarm waiting to happen."""
import json, os, sys
V = os.path.dirname(os.path.dirname(os.path.abspath(__file__)))
sys.path.insert(0, V)
from vf import core
from props import fallback
bad = 0
for i in range(1, 20):
    pid = 'C%02d' % i
    if pid == 'C17':
        continue
    cases = fallback.cases_for(pid, 0)
    if pid in ('C08', 'C09'):
        cases = fallback.first_oversize(pid, 0) + cases
    cases = [{'kind': 'prelude-then-sanity', 'op': 'all'}, {'kind': 'hostile-prelude'}, {'kind': 'sanity'}] * (pid not in ('C12',)) + cases
    p = os.path.join(V, 'work', 'selftest_%s.json' % pid)
    os.makedirs(os.path.dirname(p), exist_ok=True)
    json.dump({'property': pid, 'pkg': 'field' if pid == 'C12' else 'root', 'cases': cases}, open(p, 'w'))
    extra = inst = None
    if pid == 'C19':
        from vf import instr
        inst, extra, _ = instr.instrument_field()
    try:
        ok, out = core.go_test(p, pkg='field' if pid == 'C12' else 'root', race=(pid == 'C16'), extra_overlay=extra, timeout=900)
    finally:
        if inst:
            instr.cleanup(inst)
    print(pid, len(cases), 'cases', 'ok' if ok else 'FAIL ' + out[-400:])
    bad += (not ok)
sys.exit(1 if bad else 0)
