#!/usr/bin/env python3
"""Regenerates MANIFEST.json from the table below (kept in one place so it is always valid)."""
import json, os
V = os.path.dirname(os.path.dirname(os.path.abspath(__file__)))
props = [json.loads(l) for l in open(os.path.join(V, 'properties.jsonl'))]
CHECKS = json.load(open(os.path.join(V, 'tools', 'checks.json')))
man = {
    'version': 1,
    'setup_cmd': 'cd /verif/engine && GOFLAGS=-mod=mod GOPROXY=off GOSUMDB=off GOTOOLCHAIN=local go build -o /verif/bin/symx ./cmd/symx',
    'hooks': {'guard': 'verif', 'enable': 'none needed: harness and accessor files are injected with go/packages Overlay and `go test -overlay` (DESIGN.md 3.1); nothing is committed to /repo',
              'baseline_off_cmd': 'cd /repo && GOFLAGS=-mod=mod GOPROXY=off go test -vet=off -count=1 ./...', 'source_commits': [], 'add_only': True},
    'engines': [{'name': 'symx+vf', 'path': '/verif/engine/cmd/symx, /verif/vf', 'serves_properties': sorted(CHECKS),
                 'kind_free_text': 'own go/ssa symbolic executor emitting a term DAG; Python driver lowers it to SMT-LIB (BV / linear-integer / polynomial) and races z3 4.8.12, z3 5.1.0, cvc5 1.0.3; sat models replayed with go test -overlay'}],
    'checks': [], 'not_applicable': [],
    'notes': 'Solver-based checking of the real code; see DESIGN.md. fix: commits in /repo are listed in known_findings.jsonl.',
}
for p in props:
    pid = p['id']
    c = CHECKS.get(pid)
    if not c or c.get('na'):
        man['not_applicable'].append({'property_id': pid, 'reason': (c or {}).get('na', 'check not built yet in this commit (work in progress, see DESIGN.md section 9)')})
        continue
    man['checks'].append({
        'property_id': pid, 'quick_cmd': './check %s quick' % pid, 'thorough_cmd': './check %s thorough' % pid,
        'evidence_file': '/verif/evidence/%s.json' % pid, 'replay_cmd_template': './check %s --replay {path}' % pid,
        'engine': 'symx+vf', 'level_claimed': {'category': c['level'], 'text': c['text'], 'design_ref': c.get('ref', 'DESIGN.md section 4 ' + pid)},
        'level_note': c['note'], 'technique': c['technique']})
json.dump(man, open(os.path.join(V, 'MANIFEST.json'), 'w'), indent=1)
print('checks:', [c['property_id'] for c in man['checks']], 'n/a:', len(man['not_applicable']))
