#!/usr/bin/env python3
"""Runs all checks against a BEHAVIOUR-PRESERVING change: every check should exit 0; exit 2 shows sensitivity to the shape of the code,
exit 1 would be a false alarm.  usage: benign_eval.py <name> <patch.diff> <notes.md> [checks...]"""
import json, os, shutil, subprocess, sys, tempfile, time
V = os.path.dirname(os.path.dirname(os.path.abspath(__file__)))
ENV = dict(os.environ, GOFLAGS='-mod=mod', GOPROXY='off', GOSUMDB='off', GOTOOLCHAIN='local')
ALL = ['C%02d' % i for i in range(1, 20)]


def sh(cmd, cwd=None, env=None, timeout=2400):
    p = subprocess.run(cmd, cwd=cwd, env=env or ENV, capture_output=True, text=True, timeout=timeout, shell=isinstance(cmd, str))
    return p.returncode, p.stdout + p.stderr


def main():
    name, patch, notes = sys.argv[1:4]
    checks = sys.argv[4:] or ALL
    wt = tempfile.mkdtemp(prefix='benwt_', dir='/tmp')
    os.rmdir(wt)
    meta = {'name': name, 'kind': 'behaviour-preserving refactoring', 'what': open(notes).read().strip()}
    try:
        rc, out = sh(['git', '-C', '/repo', 'worktree', 'add', '-q', '--detach', wt, 'HEAD'])
        assert rc == 0, out
        rc, out = sh(['git', 'apply', os.path.abspath(patch)], cwd=wt)
        if rc != 0:
            print(name, 'PATCH DOES NOT APPLY', out[-200:])
            return 1
        rcb, _ = sh('go build ./...', cwd=wt)
        rcs, outs = sh(['go', 'test', '-vet=off', '-count=1', './...'], cwd=wt)
        meta.update({'compiles': rcb == 0, 'suite_passes_with_change': rcs == 0})
        evd = tempfile.mkdtemp(prefix='benev_', dir='/tmp')
        env = dict(ENV, VERIF_REPO=wt, VERIF_EVIDENCE_DIR=evd)
        res = {}
        for c in checks:
            t0 = time.time()
            try:
                rc, out = sh([os.path.join(V, 'check'), c, 'quick'], cwd=V, env=env, timeout=2400)
            except subprocess.TimeoutExpired:
                rc, out = 124, 'timeout'
            res[c] = {'exit': rc, 'violation': any(l.startswith('VIOLATION') for l in out.splitlines()), 'secs': round(time.time() - t0, 1),
                      'why': [l[:300] for l in out.splitlines() if l.startswith(('INCONCLUSIVE', 'UNDISCHARGED', 'ENGINE-ERROR', 'VIOLATION', '  '))][:3]}
        shutil.rmtree(evd, ignore_errors=True)
        meta['checks'] = res
        meta['exit0'] = [c for c, r in res.items() if r['exit'] == 0]
        meta['exit2'] = [c for c, r in res.items() if r['exit'] == 2]
        meta['false_alarms'] = [c for c, r in res.items() if r['exit'] == 1 or r['violation']]
        d = os.path.join(V, 'seeded', 'benign', name)
        os.makedirs(d, exist_ok=True)
        shutil.copy(patch, os.path.join(d, 'patch.diff'))
        json.dump(meta, open(os.path.join(d, 'meta.json'), 'w'), indent=1)
        print(name, 'suite', rcs == 0, 'exit0', len(meta['exit0']), 'exit2', meta['exit2'], 'FALSE-ALARMS', meta['false_alarms'])
        return 0
    finally:
        sh(['git', '-C', '/repo', 'worktree', 'remove', '--force', wt])
        shutil.rmtree(wt, ignore_errors=True)


if __name__ == '__main__':
    sys.exit(main())
