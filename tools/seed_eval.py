#!/usr/bin/env python3
"""Evaluates one seeded change: confirms it (compiles, suite passes, demo fails with / passes without), runs the
checks against a scratch worktree carrying the change, and files it under /verif/seeded/<name>/.
usage: seed_eval.py <name> <property> <patch.diff> <demo_test.go> <notes.md> [checks...]"""
import json, os, shutil, subprocess, sys, tempfile, time
V = os.path.dirname(os.path.dirname(os.path.abspath(__file__)))
ENV = dict(os.environ, GOFLAGS='-mod=mod', GOPROXY='off', GOSUMDB='off', GOTOOLCHAIN='local')
ALL = ['C%02d' % i for i in range(1, 20)]


def sh(cmd, cwd=None, env=None, timeout=1800):
    p = subprocess.run(cmd, cwd=cwd, env=env or ENV, capture_output=True, text=True, timeout=timeout, shell=isinstance(cmd, str))
    return p.returncode, p.stdout + p.stderr


def main():
    name, pid, patch, demo, notes = sys.argv[1:6]
    checks = sys.argv[6:] or ALL
    wt = tempfile.mkdtemp(prefix='seedwt_', dir='/tmp')
    os.rmdir(wt)
    meta = {'name': name, 'property': pid, 'evaluated_at_repo_head': sh('git -C /repo rev-parse --short HEAD')[1].strip(), 'ran': []}
    try:
        rc, out = sh(['git', '-C', '/repo', 'worktree', 'add', '-q', '--detach', wt, 'HEAD'])
        assert rc == 0, out
        demo_name = 'zz_seed_demo_test.go'
        run_name = None
        for line in open(demo):
            if line.startswith('func TestDemo'):
                run_name = line.split('(')[0].split()[1]
        # demo passes without the change
        shutil.copy(demo, os.path.join(wt, demo_name))
        rc0, out0 = sh(['go', 'test', '-vet=off', '-count=1', '-run', run_name, '.'], cwd=wt)
        os.remove(os.path.join(wt, demo_name))
        rc, out = sh(['git', 'apply', os.path.abspath(patch)], cwd=wt)
        if rc != 0:
            print('PATCH DOES NOT APPLY', out); meta['confirmed'] = False; return finish(meta, name, patch, demo, notes)
        rcb, outb = sh('go build ./... ', cwd=wt)
        rcs, outs = sh(['go', 'test', '-vet=off', '-count=1', './...'], cwd=wt)
        shutil.copy(demo, os.path.join(wt, demo_name))
        rc1, out1 = sh(['go', 'test', '-vet=off', '-count=1', '-run', run_name, '.'], cwd=wt)
        os.remove(os.path.join(wt, demo_name))
        meta.update({'compiles': rcb == 0, 'suite_passes_with_change': rcs == 0, 'demo_passes_without_change': rc0 == 0, 'demo_fails_with_change': rc1 != 0,
                     'demo_failure_excerpt': [l for l in out1.splitlines() if 'FAIL' in l or 'Error' in l or 'demo' in l.lower()][:4]})
        meta['confirmed'] = bool(rcb == 0 and rcs == 0 and rc0 == 0 and rc1 != 0)
        print(name, 'confirmed' if meta['confirmed'] else 'NOT CONFIRMED', {k: meta[k] for k in ('compiles', 'suite_passes_with_change', 'demo_passes_without_change', 'demo_fails_with_change')})
        if not meta['confirmed']:
            print(outs[-600:], out0[-400:], out1[-400:])
            return finish(meta, name, patch, demo, notes)
        evd = tempfile.mkdtemp(prefix='seedev_', dir='/tmp')
        env = dict(ENV, VERIF_REPO=wt, VERIF_EVIDENCE_DIR=evd)
        res = {}
        for c in checks:
            t0 = time.time()
            rc, out = sh([os.path.join(V, 'check'), c, 'quick'], cwd=V, env=env, timeout=2400)
            vio = [l for l in out.splitlines() if l.startswith('VIOLATION')]
            detail = [l.strip() for l in out.splitlines() if l.startswith('  ')][:1]
            res[c] = {'exit': rc, 'violation': bool(vio), 'detail': (detail[0][:300] if detail else ''), 'secs': round(time.time() - t0, 1),
                      'other': [l for l in out.splitlines() if l.startswith(('INCONCLUSIVE', 'UNDISCHARGED', 'ENGINE-ERROR'))][:2]}
            print('  ', c, 'exit', rc, 'VIOLATION' if vio else '', (res[c]['other'][:1] if rc == 2 else ''))
        shutil.rmtree(evd, ignore_errors=True)
        meta['checks'] = res
        meta['caught_by'] = [c for c, r in res.items() if r['violation']]
        meta['inconclusive_in'] = [c for c, r in res.items() if r['exit'] == 2]
        meta['ran'] = ['git worktree add <scratch> HEAD; git apply patch.diff; go build ./...; go test -vet=off -count=1 ./...; demo with/without the change',
                       'VERIF_REPO=<scratch> ./check <id> quick for ' + ' '.join(checks)]
        return finish(meta, name, patch, demo, notes)
    finally:
        sh(['git', '-C', '/repo', 'worktree', 'remove', '--force', wt])
        shutil.rmtree(wt, ignore_errors=True)


def finish(meta, name, patch, demo, notes):
    if not meta.get('confirmed'):
        return 1
    d = os.path.join(V, 'seeded', name)
    os.makedirs(d, exist_ok=True)
    if os.path.abspath(patch) != os.path.join(d, 'patch.diff'):
        shutil.copy(patch, os.path.join(d, 'patch.diff'))
    if os.path.abspath(demo) != os.path.join(d, 'demo_test.go.txt') and not os.environ.get('SEED_EVAL_MERGE'):
        shutil.copy(demo, os.path.join(d, 'demo_test.go.txt'))
    meta['what_it_needs_to_manifest'] = open(notes).read().strip()
    old_p = os.path.join(d, 'meta.json')
    if os.environ.get('SEED_EVAL_MERGE') and os.path.exists(old_p):
        # a later re-run of some checks with newer machinery: merged into the existing matrix row
        old = json.load(open(old_p))
        merged = dict(old.get('checks', {}))
        for c, r in meta.get('checks', {}).items():
            r['rerun_at_verif_commit'] = sh('git -C %s rev-parse --short HEAD' % V)[1].strip()
            merged[c] = r
        meta['checks'] = dict(sorted(merged.items()))
        meta['caught_by'] = [c for c, r in meta['checks'].items() if r['violation']]
        meta['inconclusive_in'] = [c for c, r in meta['checks'].items() if r['exit'] == 2]
        meta['ran'] = old.get('ran', meta.get('ran'))
    json.dump(meta, open(old_p, 'w'), indent=1)
    print(name, 'caught by', meta.get('caught_by'), 'inconclusive in', meta.get('inconclusive_in'))
    return 0


if __name__ == '__main__':
    sys.exit(main())
