"""Constants of secp256k1 transcribed from SEC 2 / RFC 9380 (independent of /repo) and summary tables."""
P = 2**256 - 2**32 - 977
N = 0xfffffffffffffffffffffffffffffffebaaedce6af48a03bbfd25e8cd0364141
R = 2**256
GX = 0x79be667ef9dcbbac55a06295ce870b07029bfcdb2dce28d959f2815b16f81798
GY = 0x483ada7726a3c4655da4fbfc0e1108a8fd17b448a68554199c47d08ffb10d4b8
MOD = 'github.com/bytemare/secp256k1'
F = MOD + '/internal/field.'
S = MOD + '/internal/scalar.'
FE = '(*' + MOD + '/internal/field.Element).'


def limbs(v):
    return [(v >> (64 * i)) & (2**64 - 1) for i in range(4)]


def unlimbs(l):
    return sum(x << (64 * i) for i, x in enumerate(l))


def kernel_summaries(pkg, prefix):
    """Fiat kernels of one internal package as uninterpreted applications (contracts proved in C12/C06)."""
    base = F if pkg == 'field' else S
    return [
        {'fn': base + 'Mul', 'op': prefix + 'mul', 'params': ['out', 'in', 'in'], 'results': []},
        {'fn': base + 'Square', 'op': prefix + 'sq', 'params': ['out', 'in'], 'results': []},
        {'fn': base + 'Add', 'op': prefix + 'add', 'params': ['out', 'in', 'in'], 'results': []},
        {'fn': base + 'Sub', 'op': prefix + 'sub', 'params': ['out', 'in', 'in'], 'results': []},
        {'fn': base + 'Opp', 'op': prefix + 'neg', 'params': ['out', 'in'], 'results': []},
        {'fn': base + 'FromMontgomery', 'op': prefix + 'from', 'params': ['out', 'in'], 'results': []},
        {'fn': base + 'ToMontgomery', 'op': prefix + 'to', 'params': ['out', 'in'], 'results': []},
    ]


def bvconst256(v):
    return '(_ bv%d 256)' % v
