"""Algebraic witness search for predicate obligations over curve points.

When a zero-test predicate of the code (e.g. Equal = [T1 = 0] and [T2 = 0]) is shown by the solver to differ from
its specification as a polynomial statement, a concrete witness needs two *curve points* on which the
polynomials vanish - a measure-zero set that no battery contains.  Here the code's polynomials are
specialised to P = a fixed curve point and Q = (t, s) unknown, reduced with s^2 = t^3 + 7 to A(t) + s B(t),
eliminated to one univariate polynomial, whose roots in F_p are found by gcd with x^p - x.  The result is only
a candidate: it is replayed against the real build like every other counterexample."""
import random
from .params import *


# ---------- univariate polynomials over F_p: lists of coefficients, lowest degree first ----------

def utrim(a):
    while a and a[-1] == 0:
        a.pop()
    return a


def uadd(a, b):
    n = max(len(a), len(b))
    return utrim([((a[i] if i < len(a) else 0) + (b[i] if i < len(b) else 0)) % P for i in range(n)])


def usub(a, b):
    n = max(len(a), len(b))
    return utrim([((a[i] if i < len(a) else 0) - (b[i] if i < len(b) else 0)) % P for i in range(n)])


def umul(a, b):
    if not a or not b:
        return []
    r = [0] * (len(a) + len(b) - 1)
    for i, x in enumerate(a):
        if x:
            for j, y in enumerate(b):
                r[i + j] = (r[i + j] + x * y) % P
    return utrim(r)


def udivmod(a, b):
    a = list(a)
    q = [0] * max(len(a) - len(b) + 1, 0)
    inv = pow(b[-1], -1, P)
    while len(a) >= len(b) and a:
        c = a[-1] * inv % P
        d = len(a) - len(b)
        q[d] = c
        for i, y in enumerate(b):
            a[d + i] = (a[d + i] - c * y) % P
        utrim(a)
    return utrim(q), a


def ugcd(a, b):
    a, b = list(a), list(b)
    while b:
        a, b = b, udivmod(a, b)[1]
    if a:
        inv = pow(a[-1], -1, P)
        a = [x * inv % P for x in a]
    return a


def upowmod(base, e, mod):
    r = [1]
    base = udivmod(base, mod)[1]
    while e:
        if e & 1:
            r = udivmod(umul(r, base), mod)[1]
        base = udivmod(umul(base, base), mod)[1]
        e >>= 1
    return r


def ueval(a, x):
    r = 0
    for c in reversed(a):
        r = (r * x + c) % P
    return r


def roots(f, rng=None):
    """all roots of f in F_p"""
    rng = rng or random.Random(1)
    f = utrim(list(f))
    if len(f) <= 1:
        return []
    xp = upowmod([0, 1], P, f)
    g = ugcd(usub(xp, [0, 1]), f)       # product of the distinct linear factors
    out = []

    def split(h):
        if len(h) <= 1:
            return
        if len(h) == 2:
            out.append((-h[0]) * pow(h[1], -1, P) % P)
            return
        for _ in range(40):
            a = rng.randrange(P)
            w = usub(upowmod([a, 1], (P - 1) // 2, h), [1])
            d = ugcd(w, h)
            if 1 < len(d) < len(h):
                split(d)
                split(udivmod(h, d)[0])
                return
    split(g)
    return sorted(set(out))


# ---------- polynomials A(t) + s B(t) modulo s^2 = t^3 + 7 ----------

CURVE = [7, 0, 0, 1]


class SPoly:
    def __init__(self, a=None, b=None):
        self.a, self.b = utrim(list(a or [])), utrim(list(b or []))

    def __add__(self, o):
        return SPoly(uadd(self.a, o.a), uadd(self.b, o.b))

    def __sub__(self, o):
        return SPoly(usub(self.a, o.a), usub(self.b, o.b))

    def __neg__(self):
        return SPoly([(-x) % P for x in self.a], [(-x) % P for x in self.b])

    def __mul__(self, o):
        a = uadd(umul(self.a, o.a), umul(umul(self.b, o.b), CURVE))
        b = uadd(umul(self.a, o.b), umul(self.b, o.a))
        return SPoly(a, b)


def const(v):
    return SPoly([v % P])


def spoly_of(run, nid, env):
    """evaluates an abstract field-valued node over SPoly; env maps input prefixes ('px', ...) to SPoly"""
    memo = {}

    def go(i):
        if i in memo:
            return memo[i]
        n = run.nodes[i]
        op = n['op']
        if op == 'pack':
            kids = [run.nodes[x] for x in n['a']]
            if all(k['op'] == 'const' for k in kids):
                r = const(unlimbs([int(k['v']) for k in kids]) * pow(R, -1, P))
            elif all(k['op'] == 'var' for k in kids):
                r = env[kids[0]['n'][:-1]]
            else:
                raise ValueError('mixed pack')
        elif op == 'app':
            A = [go(x) for x in n['a'] if run.nodes[x]['w'] == -1]
            nm = n['n']
            if nm == 'fadd':
                r = A[0] + A[1]
            elif nm == 'fsub':
                r = A[0] - A[1]
            elif nm == 'fmul':
                r = A[0] * A[1]
            elif nm == 'fsq':
                r = A[0] * A[0]
            elif nm == 'fneg':
                r = -A[0]
            elif nm == 'fone':
                r = const(1)
            else:
                raise ValueError('op %s not polynomial' % nm)
        else:
            raise ValueError('node %s not polynomial' % op)
        memo[i] = r
        return r
    return go(nid)


def solve_on_curve(polys, rng=None, limit=6):
    """points (t, s) of y^2 = x^3 + 7 on which every SPoly in `polys` vanishes"""
    rng = rng or random.Random(7)
    if not polys:
        return []
    f = polys[0]
    cands = []
    if f.b:
        # s = -A/B  =>  A^2 = (t^3+7) B^2
        U = usub(umul(f.a, f.a), umul(umul(f.b, f.b), CURVE))
        for t in roots(U, rng):
            bt = ueval(f.b, t)
            if bt:
                cands.append((t, (-ueval(f.a, t)) * pow(bt, -1, P) % P))
            else:
                rhs = (pow(t, 3, P) + 7) % P
                if pow(rhs, (P - 1) // 2, P) in (0, 1):
                    s = pow(rhs, (P + 1) // 4, P)
                    cands += [(t, s), (t, (-s) % P)]
    else:
        for t in roots(f.a, rng):
            rhs = (pow(t, 3, P) + 7) % P
            if pow(rhs, (P - 1) // 2, P) in (0, 1):
                s = pow(rhs, (P + 1) // 4, P)
                cands += [(t, s), (t, (-s) % P)]
    out = []
    for t, s in cands:
        if (s * s - t * t * t - 7) % P:
            continue
        if all((ueval(g.a, t) + s * ueval(g.b, t)) % P == 0 for g in polys):
            out.append((t, s))
        if len(out) >= limit:
            break
    return out
