"""ALG interpretation: a field element is one abstract value.  The methods of
internal/field.Element are replaced by contracts (proved in C12) and the code above them
is executed over a commutative ring: values are SMT Ints, ring operations are integer
operations, inversion / exponentiation / zero test / parity are uninterpreted functions.
An identity proved over Z[K_1..K_m] holds in every commutative ring, in particular F_p
(the K_i are the code's large constants, kept symbolic; small constants are literals)."""
from .dag import BVLower, bv
from .params import *

FIELD_SUMM = [
    {'fn': FE + 'One', 'op': 'fone', 'params': ['out'], 'results': ['p0']},
    {'fn': FE + 'Add', 'op': 'fadd', 'params': ['out', 'in', 'in'], 'results': ['p0']},
    {'fn': FE + 'Subtract', 'op': 'fsub', 'params': ['out', 'in', 'in'], 'results': ['p0']},
    {'fn': FE + 'Multiply', 'op': 'fmul', 'params': ['out', 'in', 'in'], 'results': ['p0']},
    {'fn': FE + 'Negate', 'op': 'fneg', 'params': ['out', 'in'], 'results': ['p0']},
    {'fn': FE + 'Square', 'op': 'fsq', 'params': ['out', 'in'], 'results': ['p0']},
    {'fn': FE + 'Sgn0', 'op': 'fsgn0', 'params': ['in'], 'results': ['w64']},
    {'fn': FE + 'CMove', 'op': 'fcmov', 'params': ['out', 'word', 'in', 'in'], 'results': ['p0']},
    {'fn': FE + 'IsZero', 'op': 'fisz', 'params': ['in'], 'results': ['w64']},
    {'fn': FE + 'Equals', 'op': 'feq', 'params': ['in', 'in'], 'results': ['w64']},
    {'fn': FE + 'Bytes', 'op': 'fbytes', 'params': ['in'], 'results': ['bytes32']},
    {'fn': FE + 'FromBytesWithReduce', 'op': 'ffrombytes', 'params': ['out', 'val'], 'results': ['p0', 'w64']},
    {'fn': FE + 'HashToFieldElement', 'op': 'fh2f', 'params': ['out', 'val'], 'results': ['p0']},
    {'fn': FE + 'Invert', 'op': 'finv', 'params': ['out', 'val'], 'results': ['p0']},
    {'fn': FE + 'expPMin3Div4', 'op': 'fexp', 'params': ['out', 'in'], 'results': ['p0']},
]
SQRT_SUMM = {'fn': FE + 'SqrtRatio', 'op': 'fsqrt', 'params': ['out', 'in', 'in'], 'results': ['p0', 'w64']}


def field_const_name(v):
    """canonical value v in [0,p) -> SMT Int term (small literal, negative small literal, or symbolic K)"""
    if v < 2**40:
        return str(v)
    if P - v < 2**40:
        return '(- %d)' % (P - v)
    return 'K_%x' % v


class PolyLower(BVLower):
    def __init__(self, run, prefix='n', modulus=P, cuts=()):
        super().__init__(run, prefix, cuts)
        self.m = modulus
        self.consts = {}      # name -> value
        self.invars = {}      # fe name -> limb var ids
        self.cmov_conds = []  # condition word nodes of conditional moves (side obligation: in {0,1})

    def sort_of(self, i):
        n = self.run.nodes[i]
        if n['w'] == -1:
            if n['op'] == 'app' and n['n'] == 'fbytes':
                return '(_ BitVec 256)'
            if n['op'] == 'pack' and all(self.run.nodes[x]['w'] == 8 for x in n['a']):
                return '(_ BitVec %d)' % (8 * len(n['a']))
            return 'Int'
        return super().sort_of(i)

    def width(self, i):
        n = self.run.nodes[i]
        if n['w'] == -1 and n['op'] == 'app' and n['n'] == 'fbytes':
            return 256
        return super().width(i)

    def body(self, i, n):
        op, a, w = n['op'], n['a'], n['w']
        A = [self.name(x) for x in a]
        pre = []
        if op == 'pack':
            kids = [self.run.nodes[x] for x in a]
            if kids and all(k['w'] == 8 for k in kids):
                return pre, A[0] if len(A) == 1 else '(concat %s)' % ' '.join(reversed(A))
            if len(kids) == 4 and all(k['op'] == 'const' for k in kids):
                mont = unlimbs([int(k['v']) for k in kids])
                if mont >= self.m:
                    raise ValueError('non-canonical field constant in code: %x' % mont)
                v = mont * pow(R, -1, self.m) % self.m
                nm = field_const_name(v)
                if nm.startswith('K_') and nm not in self.consts:
                    self.consts[nm] = v
                    pre.append('(declare-const %s Int)' % nm)
                return pre, nm
            if len(kids) == 4 and all(k['op'] == 'var' for k in kids):
                names = [k['n'] for k in kids]
                pfx = names[0][:-1]
                if names == [pfx + str(j) for j in range(4)]:
                    fe = 'fe_' + pfx
                    if fe not in self.invars:
                        self.invars[fe] = a
                        pre.append('(declare-const %s Int)' % fe)
                    return pre, fe
            raise ValueError('PolyLower: pack of mixed limbs (node %d): field element assembled from parts' % i)
        if op == 'limb' and self.run.nodes[a[0]]['w'] == -1 and n['w'] == 64:
            return pre, None   # Montgomery limb of an abstract value: only meaningful when re-packed
        if op == 'limb' and n['w'] == 8:
            idx = n.get('i', 0)
            return pre, '((_ extract %d %d) %s)' % (8 * idx + 7, 8 * idx, A[0])
        if op == 'app':
            nm = n['n']
            if w == -1:
                if nm == 'fone':
                    return pre, '1'
                if nm == 'fadd':
                    return pre, '(+ %s %s)' % (A[0], A[1])
                if nm == 'fsub':
                    return pre, '(- %s %s)' % (A[0], A[1])
                if nm == 'fmul':
                    return pre, '(* %s %s)' % (A[0], A[1])
                if nm == 'fsq':
                    return pre, '(* %s %s)' % (A[0], A[0])
                if nm == 'fneg':
                    return pre, '(- %s)' % A[0]
                if nm == 'fcmov':
                    self.cmov_conds.append(a[0])
                    return pre, '(ite (= %s (_ bv0 64)) %s %s)' % (A[0], A[1], A[2])
                if nm == 'fbytes':
                    f, d = self.uf('fbytes', ['Int'], '(_ BitVec 256)')
                    return pre + d, '(%s %s)' % (f, A[0])
                if nm == 'ffrombytes':
                    f, d = self.uf('ffrombytes', [self.sort_of(a[0])], 'Int')
                    return pre + d, '(%s %s)' % (f, A[0])
                if nm == 'fh2f':
                    f, d = self.uf('fh2f', [self.sort_of(a[0])], 'Int')
                    return pre + d, '(%s %s)' % (f, A[0])
                if nm in ('finv', 'fexp'):
                    f, d = self.uf(nm, ['Int'], 'Int')
                    return pre + d, '(%s %s)' % (f, A[0])
                if nm == 'fsqrt':
                    f, d = self.uf('fsqrt', ['Int', 'Int'], 'Int')
                    return pre + d, '(%s %s %s)' % (f, A[0], A[1])
                # unknown abstract op: uninterpreted over Ints
                f, d = self.uf(nm, [self.sort_of(x) for x in a], 'Int')
                return pre + d, '(%s %s)' % (f, ' '.join(A)) if a else f
            if nm == 'fisz':
                f, d = self.uf('isz', ['Int'], 'Bool')
                return pre + d, '(ite (%s %s) (_ bv1 64) (_ bv0 64))' % (f, A[0])
            if nm == 'feq':
                f, d = self.uf('isz', ['Int'], 'Bool')
                return pre + d, '(ite (%s (- %s %s)) (_ bv1 64) (_ bv0 64))' % (f, A[0], A[1])
            if nm == 'fsgn0':
                f, d = self.uf('sgn', ['Int'], 'Bool')
                return pre + d, '(ite (%s %s) (_ bv1 64) (_ bv0 64))' % (f, A[0])
            if nm == 'ffrombytes.1':
                f, d = self.uf('ffrombytes_ok', [self.sort_of(a[0])], 'Bool')
                return pre + d, '(ite (%s %s) (_ bv1 64) (_ bv0 64))' % (f, A[0])
            if nm == 'fsqrt.1':
                f, d = self.uf('fsqrt_ok', ['Int', 'Int'], 'Bool')
                return pre + d, '(ite (%s %s %s) (_ bv1 64) (_ bv0 64))' % (f, A[0], A[1])
            f, d = self.uf(nm, [self.sort_of(x) for x in a], self.sort_of(i))
            return pre + d, ('(%s %s)' % (f, ' '.join(A))) if a else f
        return super().body(i, n)

    def uf(self, name, argsorts, ressort):
        fname = 'uf_' + name.replace('.', '_')
        sig = (tuple(argsorts), ressort)
        if fname in self.ufs:
            if self.ufs[fname] != sig:
                raise ValueError('UF %s with two signatures' % fname)
            return fname, []
        self.ufs[fname] = sig
        if argsorts:
            return fname, ['(declare-fun %s (%s) %s)' % (fname, ' '.join(argsorts), ressort)]
        return fname, ['(declare-const %s %s)' % (fname, ressort)]

    def uf_decl(self, name, argsorts, ressort):
        """declare a UF for use by reference terms; appends to the emitted lines"""
        f, d = self.uf(name, argsorts, ressort)
        self.lines.extend(d)
        return f

    def const(self, v):
        """reference-side constant: same naming as code constants"""
        nm = field_const_name(v % self.m)
        if nm.startswith('K_') and nm not in self.consts:
            self.consts[nm] = v % self.m
            self.lines.append('(declare-const %s Int)' % nm)
        return nm

    def fe(self, pfx):
        fe = 'fe_' + pfx
        if fe not in self.invars:
            self.invars[fe] = None
            self.lines.append('(declare-const %s Int)' % fe)
        return fe


def val_term(low, ids):
    """SMT Int term of the field value whose four Montgomery limbs are the nodes `ids`"""
    r = low.run
    ns = [r.nodes[i] for i in ids]
    if all(n['op'] == 'limb' and n.get('i', 0) == j and n.get('k') == len(ids) for j, n in enumerate(ns)) and len({n['a'][0] for n in ns}) == 1:
        b = ns[0]['a'][0]
        low.emit([b])
        return low.name(b)
    if all(n['op'] == 'var' for n in ns):
        names = [n['n'] for n in ns]
        pfx = names[0][:-1]
        if names == [pfx + str(j) for j in range(len(ids))]:
            return low.fe(pfx)
    if all(n['op'] == 'const' for n in ns):
        mont = unlimbs([int(n['v']) for n in ns])
        return low.const(mont * pow(R, -1, low.m) % low.m)
    raise ValueError('limbs %s do not form one abstract field value' % ids)
