"""Independent transcription of RFC 9380 section 5.3.1 expand_message_xmd(SHA-256) as SMT-LIB terms over
the same uninterpreted SHA-256 symbols the executor uses (one function per input length)."""


def sha(low, byte_terms):
    L = len(byte_terms)
    fname = 'sha256_%d' % L
    if fname not in low.ufs:
        low.ufs[fname] = L
        low.lines.append('(declare-fun %s ((_ BitVec %d)) (_ BitVec 256))' % (fname, 8 * L) if L else '(declare-const %s (_ BitVec 256))' % fname)
    if L == 0:
        return fname
    arg = byte_terms[0] if L == 1 else '(concat %s)' % ' '.join(byte_terms)
    return '(%s %s)' % (fname, arg)


def digest_bytes(low, name, term):
    low.lines.append('(define-fun %s () (_ BitVec 256) %s)' % (name, term))
    return ['((_ extract %d %d) %s)' % (8 * (31 - i) + 7, 8 * (31 - i), name) for i in range(32)]


def b8(v):
    return '#x%02x' % v


def expand_message_xmd(low, msg, dst, n, pfx='x'):
    """msg, dst: lists of SMT byte terms; returns n byte terms"""
    if len(dst) > 255:
        dst = digest_bytes(low, pfx + '_dsth', sha(low, [b8(c) for c in b'H2C-OVERSIZE-DST-'] + dst))
    dst_prime = dst + [b8(len(dst))]
    ell = (n + 31) // 32
    assert ell <= 255 and n <= 65535
    b0 = digest_bytes(low, pfx + '_b0', sha(low, [b8(0)] * 64 + msg + [b8(n >> 8), b8(n & 255)] + [b8(0)] + dst_prime))
    bi = digest_bytes(low, pfx + '_b1', sha(low, b0 + [b8(1)] + dst_prime))
    out = list(bi)
    for i in range(2, ell + 1):
        x = ['(bvxor %s %s)' % (a, b) for a, b in zip(b0, bi)]
        bi = digest_bytes(low, pfx + '_b%d' % i, sha(low, x + [b8(i)] + dst_prime))
        out += bi
    return out[:n]
