"""Term DAG produced by symx, and its interpretations: SMT-LIB bit-vector text
(exact Go semantics), and concrete evaluation (translator validation, witnesses)."""
import json

M64 = (1 << 64) - 1


class Run:
    def __init__(self, d):
        self.d = d
        self.id = d.get('id')
        self.error = d.get('error')
        self.nodes = d.get('nodes') or []
        self.paths = d.get('paths') or []
        self.functions = d.get('functions') or []
        self.stubs = d.get('stubs') or []
        self.loops = d.get('loops') or {}
        self.zero_globals = d.get('zero_globals') or []
        self.summaries = d.get('summaries_used') or []
        for n in self.nodes:
            n.setdefault('a', [])
        # abstract widths: total width of app/pack values from their limb consumers
        self.awidth = {}
        for n in self.nodes:
            if n['op'] == 'limb':
                self.awidth[n['a'][0]] = n['k'] * n['w']

    def node(self, i):
        return self.nodes[i]

    def cone(self, roots):
        seen, stack = set(), list(roots)
        while stack:
            i = stack.pop()
            if i in seen:
                continue
            seen.add(i)
            stack.extend(self.nodes[i]['a'])
        return sorted(seen)

    def vars(self, roots):
        return [self.nodes[i] for i in self.cone(roots) if self.nodes[i]['op'] == 'var']


def bv(v, w):
    return '(_ bv%d %d)' % (v % (1 << w), w)


def sanitize(name):
    return '|' + name.replace('|', '_') + '|'


class BVLower:
    """Lowers DAG nodes to SMT-LIB over bit-vectors; abstract values are wide
    bit-vectors (pack = concat, limb = extract), apps are uninterpreted functions."""

    def __init__(self, run, prefix='n', cuts=()):
        self.run = run
        self.prefix = prefix
        self.cuts = set(cuts)   # nodes replaced by fresh symbols (sound generalisation: anything proved holds for their real values)
        self.done = set()
        self.lines = []
        self.ufs = {}
        self.sorts = {}

    def sort_of(self, i):
        n = self.run.nodes[i]
        w = n['w']
        if w == 0:
            return 'Bool'
        if w > 0:
            return '(_ BitVec %d)' % w
        if w == -2:
            return 'Int'
        # abstract
        if n['op'] == 'pack':
            return '(_ BitVec %d)' % sum(self.width(a) for a in n['a'])
        aw = self.run.awidth.get(i)
        if aw is None:
            raise ValueError('abstract node %d (%s %s) has no known width' % (i, n['op'], n.get('n')))
        return '(_ BitVec %d)' % aw

    def width(self, i):
        n = self.run.nodes[i]
        if n['w'] > 0:
            return n['w']
        if n['w'] == 0:
            raise ValueError('width of Bool')
        if n['op'] == 'pack':
            return sum(self.width(a) for a in n['a'])
        return self.run.awidth[i]

    def name(self, i):
        return '%s%d' % (self.prefix, i)

    def cone(self, roots):
        seen, stack = set(), list(roots)
        while stack:
            i = stack.pop()
            if i in seen:
                continue
            seen.add(i)
            if i not in self.cuts:
                stack.extend(self.run.nodes[i]['a'])
        return sorted(seen)

    def all(self):
        """everything emitted so far, in dependency order"""
        return '\n'.join(self.lines)

    def declare_uf(self, opname, argsorts, ressort):
        """declares (once) the UF used for app nodes named opname; returns (smt name, declaration text or '')"""
        fname = 'uf_' + opname.replace('.', '_')
        sig = (tuple(argsorts), ressort)
        if fname in self.ufs:
            if self.ufs[fname] != sig:
                raise ValueError('UF %s declared with two signatures' % fname)
            return fname, ''
        self.ufs[fname] = sig
        if argsorts:
            d = '(declare-fun %s (%s) %s)' % (fname, ' '.join(argsorts), ressort)
        else:
            d = '(declare-const %s %s)' % (fname, ressort)
        self.lines.append(d)
        return fname, d

    def emit(self, roots):
        """returns SMT-LIB text defining all nodes in the cone of roots not emitted before"""
        out = []
        for i in self.cone(roots):
            if i in self.done:
                continue
            self.done.add(i)
            n = self.run.nodes[i]
            srt = self.sort_of(i)
            if n['op'] == 'var' or i in self.cuts:
                out.append('(declare-const %s %s)' % (self.name(i), srt))
                continue
            pre, body = self.body(i, n)
            out.extend(pre)
            if body is None:
                continue   # helper node that has no meaning in this interpretation; any use is a solver error
            out.append('(define-fun %s () %s %s)' % (self.name(i), srt, body))
        self.lines.extend(out)
        return '\n'.join(out)

    def body(self, i, n):
        op, a, w = n['op'], n['a'], n['w']
        A = [self.name(x) for x in a]
        pre = []
        if op == 'const':
            if w == 0:
                return pre, 'true' if n['v'] != '0' else 'false'
            return pre, bv(int(n['v']), w)
        simple = {'add': 'bvadd', 'sub': 'bvsub', 'mul': 'bvmul', 'and': 'bvand', 'or': 'bvor', 'xor': 'bvxor',
                  'shl': 'bvshl', 'lshr': 'bvlshr', 'ashr': 'bvashr', 'udiv': 'bvudiv', 'urem': 'bvurem',
                  'sdiv': 'bvsdiv', 'srem': 'bvsrem', 'not': 'bvnot', 'neg': 'bvneg', 'ult': 'bvult', 'ule': 'bvule',
                  'slt': 'bvslt', 'sle': 'bvsle', 'eq': '=', 'band': 'and', 'bor': 'or', 'bnot': 'not', 'ite': 'ite'}
        if op in simple:
            return pre, '(%s %s)' % (simple[op], ' '.join(A))
        if op == 'zext':
            return pre, '((_ zero_extend %d) %s)' % (w - self.width(a[0]), A[0])
        if op == 'sext':
            return pre, '((_ sign_extend %d) %s)' % (w - self.width(a[0]), A[0])
        if op == 'trunc':
            return pre, '((_ extract %d 0) %s)' % (w - 1, A[0])
        if op == 'extract':
            lo = n.get('i', 0)
            return pre, '((_ extract %d %d) %s)' % (lo + w - 1, lo, A[0])
        if op == 'addc_s':
            return pre, '(bvadd (bvadd %s %s) %s)' % tuple(A)
        if op == 'addc_c':
            s = '(bvadd (bvadd %s %s) %s)' % tuple(A)
            return pre, '(bvlshr (bvor (bvand {x} {y}) (bvand (bvor {x} {y}) (bvnot {s}))) (_ bv63 64))'.format(x=A[0], y=A[1], s=s)
        if op == 'subb_d':
            return pre, '(bvsub (bvsub %s %s) %s)' % tuple(A)
        if op == 'subb_b':
            dd = '(bvsub (bvsub %s %s) %s)' % tuple(A)
            return pre, '(bvlshr (bvor (bvand (bvnot {x}) {y}) (bvand (bvnot (bvxor {x} {y})) {d})) (_ bv63 64))'.format(x=A[0], y=A[1], d=dd)
        if op in ('mulhi', 'mullo'):
            p = '(bvmul ((_ zero_extend 64) %s) ((_ zero_extend 64) %s))' % (A[0], A[1])
            return pre, ('((_ extract 127 64) %s)' if op == 'mulhi' else '((_ extract 63 0) %s)') % p
        if op == 'pack':
            if len(A) == 1:
                return pre, A[0]
            return pre, '(concat %s)' % ' '.join(reversed(A))
        if op == 'limb':
            lw = n['w']
            idx = n.get('i', 0)
            return pre, '((_ extract %d %d) %s)' % (lw * (idx + 1) - 1, lw * idx, A[0])
        if op == 'app':
            fname = 'uf_' + n['n'].replace('.', '_')
            sig = (tuple(self.sort_of(x) for x in a), self.sort_of(i))
            if fname in self.ufs:
                if self.ufs[fname] != sig:
                    fname = fname + '_%d' % (abs(hash(sig)) % 10000)
            if fname not in self.ufs:
                self.ufs[fname] = sig
                if a:
                    pre.append('(declare-fun %s (%s) %s)' % (fname, ' '.join(sig[0]), sig[1]))
                else:
                    pre.append('(declare-const %s %s)' % (fname, sig[1]))
            return pre, ('(%s %s)' % (fname, ' '.join(A))) if a else fname
        if op in ('sha256', 'sha256alt'):
            L = len(a)
            fname = '%s_%d' % (op, L)
            if fname not in self.ufs:
                self.ufs[fname] = L
                if L:
                    pre.append('(declare-fun %s ((_ BitVec %d)) (_ BitVec 256))' % (fname, 8 * L))
                else:
                    pre.append('(declare-const %s (_ BitVec 256))' % fname)
            if L == 0:
                return pre, fname
            arg = A[0] if L == 1 else '(concat %s)' % ' '.join(A)
            return pre, '(%s %s)' % (fname, arg)
        if op == 'os2ip':
            if not A:
                return pre, '0'
            arg = A[0] if len(A) == 1 else '(concat %s)' % ' '.join(A)
            return pre, '(bv2nat %s)' % arg
        if op == 'catbe':
            if not A:
                return pre, bv(0, w)
            arg = A[0] if len(A) == 1 else '(concat %s)' % ' '.join(A)
            return pre, arg if 8 * len(A) == w else '((_ zero_extend %d) %s)' % (w - 8 * len(A), arg)
        if op == 'intconst':
            v = int(n['v'])
            return pre, str(v) if v >= 0 else '(- %d)' % -v
        if op == 'inteq':
            return pre, '(= %s %s)' % tuple(A)
        raise ValueError('BVLower: unsupported op %s' % op)


# ---------------- concrete evaluation ----------------

def _sgn(v, w):
    return v - (1 << w) if v >> (w - 1) else v


class Eval:
    """Evaluates nodes on concrete inputs. env: var name -> int. apps: name -> python function over ints
    (packed values are ints, limb 0 least significant)."""

    def __init__(self, run, env, apps=None, sha=None):
        self.run, self.env, self.apps, self.sha = run, env, apps or {}, sha
        self.memo = {}

    def width(self, i):
        n = self.run.nodes[i]
        if n['w'] > 0:
            return n['w']
        if n['op'] == 'pack':
            return sum(self.width(a) for a in n['a'])
        return self.run.awidth[i]

    def ev(self, i):
        if i in self.memo:
            return self.memo[i]
        for j in self.run.cone([i]):
            if j not in self.memo:
                self.memo[j] = self._ev(j)
        return self.memo[i]

    def _ev(self, i):
        n = self.run.nodes[i]
        op, a, w = n['op'], n['a'], n['w']
        V = [self.memo[x] for x in a]
        m = (1 << w) - 1 if w > 0 else 1
        if op == 'const':
            return int(n['v'])
        if op == 'var':
            return self.env[n['n']]
        if op == 'add': return (V[0] + V[1]) & m
        if op == 'sub': return (V[0] - V[1]) & m
        if op == 'mul': return (V[0] * V[1]) & m
        if op == 'and': return V[0] & V[1]
        if op == 'or': return V[0] | V[1]
        if op == 'xor': return V[0] ^ V[1]
        if op == 'not': return V[0] ^ m
        if op == 'neg': return (-V[0]) & m
        if op == 'shl': return (V[0] << V[1]) & m if V[1] < w else 0
        if op == 'lshr': return V[0] >> V[1] if V[1] < w else 0
        if op == 'ashr': return (_sgn(V[0], w) >> min(V[1], w)) & m
        if op == 'udiv': return V[0] // V[1]
        if op == 'urem': return V[0] % V[1]
        if op == 'eq': return int(V[0] == V[1])
        if op == 'ult': return int(V[0] < V[1])
        if op == 'ule': return int(V[0] <= V[1])
        if op == 'slt':
            ww = self.width(a[0]); return int(_sgn(V[0], ww) < _sgn(V[1], ww))
        if op == 'sle':
            ww = self.width(a[0]); return int(_sgn(V[0], ww) <= _sgn(V[1], ww))
        if op == 'band': return V[0] & V[1]
        if op == 'bor': return V[0] | V[1]
        if op == 'bnot': return 1 - V[0]
        if op == 'ite': return V[1] if V[0] else V[2]
        if op == 'zext': return V[0]
        if op == 'sext': return _sgn(V[0], self.width(a[0])) & m
        if op == 'trunc': return V[0] & m
        if op == 'extract': return (V[0] >> n.get('i', 0)) & m
        if op == 'addc_s': return (V[0] + V[1] + V[2]) & M64
        if op == 'addc_c':
            s = (V[0] + V[1] + V[2]) & M64
            return ((V[0] & V[1]) | ((V[0] | V[1]) & ~s & M64)) >> 63
        if op == 'subb_d': return (V[0] - V[1] - V[2]) & M64
        if op == 'subb_b':
            dd = (V[0] - V[1] - V[2]) & M64
            return (((~V[0] & M64) & V[1]) | ((~(V[0] ^ V[1]) & M64) & dd)) >> 63
        if op == 'mulhi': return (V[0] * V[1]) >> 64
        if op == 'mullo': return (V[0] * V[1]) & M64
        if op == 'pack':
            r, sh = 0, 0
            for x, v in zip(a, V):
                r |= v << sh
                sh += self.width(x)
            return r
        if op == 'limb':
            return (V[0] >> (n['w'] * n.get('i', 0))) & ((1 << n['w']) - 1)
        if op == 'app':
            return self.apps[n['n']](*V)
        if op == 'sha256':
            import hashlib
            return int.from_bytes(hashlib.sha256(bytes(V)).digest(), 'big')
        if op in ('os2ip', 'catbe'):
            return int.from_bytes(bytes(V), 'big')
        if op == 'intconst':
            return int(n['v'])
        if op == 'inteq':
            return int(V[0] == V[1])
        raise ValueError('Eval: unsupported op %s' % op)


def varid(run, name):
    idx = getattr(run, '_varidx', None)
    if idx is None:
        idx = {n['n']: n['id'] for n in run.nodes if n['op'] == 'var'}
        run._varidx = idx
    return idx.get(name)


def ensure_vars(run, low, names, w=64):
    """returns SMT names for input variables; variables the code never read are declared here"""
    out, decl = [], []
    for nm in names:
        i = varid(run, nm)
        if i is None:
            sn = 'free_' + nm
            if sn not in low.ufs:
                low.ufs[sn] = 'var'
                decl.append('(declare-const %s (_ BitVec %d))' % (sn, w))
                low.lines.append(decl[-1])
            out.append(sn)
        else:
            d = low.emit([i])
            if d:
                decl.append(d)
            out.append(low.name(i))
    return out, '\n'.join(decl)


def limb_witnesses(run, pc, prefixes, k=4, timeout=20):
    """Word-level witnesses of a path: the conjuncts of the path condition that are pure bit-vector terms over
    input limbs (no summarised application underneath) are solved alone; up to k distinct assignments of the limb
    vectors named by `prefixes` (e.g. 'P0.z') are returned as {prefix: [l0..l3]}.  Used only to steer replays."""
    from . import smt
    pure = []
    for c in pc:
        cone = run.cone([c])
        if all(run.nodes[i]['op'] not in ('app', 'pack', 'limb', 'sha256', 'uf') for i in cone):
            pure.append(c)
    if not pure:
        return []
    low = BVLower(run)
    try:
        pre = low.emit(pure)
    except ValueError:
        return []
    names = {}
    for n in run.nodes:
        if n['op'] == 'var':
            for pf in prefixes:
                if n['n'].startswith(pf) and n['n'][len(pf):].isdigit():
                    names.setdefault(pf, {})[int(n['n'][len(pf):])] = low.name(n['id']) if hasattr(low, 'name') else None
    script = pre + '\n' + '\n'.join('(assert n%d)' % c for c in pure)
    out = []
    for _ in range(k):
        want = [v for pf in names for v in names[pf].values() if v]
        declared = [v for v in want if ('declare-fun %s ' % v) in script or ('declare-const %s ' % v) in script]
        if not declared:
            break
        m, _s = smt.get_model(script, declared, timeout=timeout)
        if not m:
            break
        # limbs the word-level constraints do not mention are free: vary them
        for fill in (0, 1, 1 << 63, 0x9e3779b97f4a7c15, (1 << 64) - 1):
            w = {pf: [m.get(names[pf].get(i), fill) if names[pf].get(i) in declared else fill for i in range(4)] for pf in names}
            if w not in out:
                out.append(w)
        script += '\n(assert (not (and %s)))' % ' '.join('(= %s #x%016x)' % (v, m[v]) for v in declared)
    return out
