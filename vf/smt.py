"""Solver portfolio: every query (or batch of queries) is raced across z3 4.8.12,
z3 5.1.0 and cvc5 1.0.3; the first solver that answers everything definitively wins.
`unknown`, timeouts and any `(error` line are never success."""
import os, subprocess, threading, time, re, tempfile, shutil

SOLVERS = {
    'z3':    lambda to: ['z3', '-in', '-smt2', '-t:%d' % int(to * 1000)],
    'z3new': lambda to: ['z3-new', '-in', '-smt2', '-t:%d' % int(to * 1000)],
    'cvc5':  lambda to: ['cvc5', '--incremental', '--lang=smt2', '--produce-models', '--tlimit-per=%d' % int(to * 1000)],
}
DEFAULT = ['z3', 'z3new', 'cvc5']
STATS = {'queries': 0, 'solver_s': 0.0, 'by_solver': {}, 'scripts': 0, 'confirmed_by_second_solver': 0}
CONFIRM_WAIT = 0.0   # thorough tier: seconds to keep the other solvers running after the first definite answer
_lock = threading.Lock()


class Result:
    def __init__(self, status, solver, secs, model=None, raw='', others=None):
        self.status, self.solver, self.secs, self.model, self.raw = status, solver, secs, model, raw
        self.others = others or {}

    def __repr__(self):
        return 'Result(%s,%s,%.2fs)' % (self.status, self.solver, self.secs)


def _run(name, script, per_query_to, wall_to, box, stop):
    t0 = time.time()
    try:
        p = subprocess.Popen(SOLVERS[name](per_query_to), stdin=subprocess.PIPE, stdout=subprocess.PIPE,
                             stderr=subprocess.STDOUT, text=True)
    except FileNotFoundError:
        box[name] = (None, 'missing', 0.0)
        return
    box['_proc_' + name] = p
    try:
        out, _ = p.communicate(script, timeout=wall_to)
    except subprocess.TimeoutExpired:
        p.kill()
        out = (p.communicate()[0] or '') + '\ntimeout\n'
    box[name] = (out, 'done', time.time() - t0)
    stop.set() if box.get('_check')(name) else None


def parse_answers(out):
    """returns list of tokens sat/unsat/unknown in order, and whether an error line occurred"""
    toks, err = [], False
    for line in (out or '').splitlines():
        s = line.strip()
        if s in ('sat', 'unsat', 'unknown', 'timeout'):
            toks.append('unknown' if s == 'timeout' else s)
        elif s.startswith('(error') or s.startswith('Error') or 'error' in s.lower() and s.startswith('('):
            err = True
    return toks, err


def race(script, n_expected=1, timeout=60.0, solvers=None, need_all=False):
    """Runs `script` (containing n_expected check-sat commands) on the portfolio.
    Returns (answers list, solver name, secs, per-solver dict).  answers[i] in sat/unsat/unknown."""
    solvers = solvers or DEFAULT
    if '(set-logic' not in script:
        script = '(set-logic ALL)\n' + script
    box = {}
    stop = threading.Event()
    wall = timeout * max(1, n_expected) + 5 if n_expected <= 4 else timeout * 4 + 10 + 0.05 * n_expected

    def definite(name):
        out = box[name][0]
        toks, err = parse_answers(out)
        return (not err) and len(toks) == n_expected and all(t in ('sat', 'unsat') for t in toks)
    box['_check'] = definite
    threads = []
    t0 = time.time()
    for s in solvers:
        th = threading.Thread(target=_run, args=(s, script, timeout, wall, box, stop), daemon=True)
        th.start()
        threads.append(th)
    if need_all:
        for th in threads:
            th.join()
    else:
        while any(th.is_alive() for th in threads) and not stop.is_set():
            stop.wait(0.02)
        if CONFIRM_WAIT > 0:
            t_end = time.time() + CONFIRM_WAIT
            while time.time() < t_end and sum(1 for s_ in solvers if s_ in box and box[s_][0] is not None and definite(s_)) < 2 and any(th.is_alive() for th in threads):
                time.sleep(0.02)
        for s in solvers:
            p = box.get('_proc_' + s)
            if p is not None and p.poll() is None:
                try:
                    p.kill()
                except Exception:
                    pass
        for th in threads:
            th.join(timeout=2)
    per = {}
    best = None
    for s in solvers:
        if s not in box:
            continue
        out, st, secs = box[s]
        toks, err = parse_answers(out)
        ok = (not err) and len(toks) == n_expected and all(t in ('sat', 'unsat') for t in toks)
        per[s] = {'answers': toks, 'error': err, 'secs': round(secs, 3), 'definite': ok, 'raw': (out or '')[-2000:]}
        if ok and (best is None or secs < per[best]['secs']):
            best = s
    with _lock:
        if sum(1 for d_ in per.values() if d_['definite']) >= 2:
            STATS['confirmed_by_second_solver'] += n_expected
        STATS['queries'] += n_expected
        STATS['scripts'] += 1
        STATS['solver_s'] += time.time() - t0
        if best:
            STATS['by_solver'][best] = STATS['by_solver'].get(best, 0) + n_expected
    if best is None:
        # merge: per-query take any definite answer, provided no solver disagrees and no error
        merged = []
        for i in range(n_expected):
            vals = set()
            for s, d in per.items():
                if not d['error'] and i < len(d['answers']) and d['answers'][i] in ('sat', 'unsat'):
                    vals.add(d['answers'][i])
            merged.append(vals.pop() if len(vals) == 1 else 'unknown')
        return merged, None, time.time() - t0, per
    # cross-check: definite answers of other finished solvers must agree
    ans = per[best]['answers']
    for s, d in per.items():
        if s != best and d['definite'] and d['answers'] != ans:
            return ['unknown'] * n_expected, None, time.time() - t0, dict(per, disagreement=True)
    return ans, best, per[best]['secs'], per


def check(script, timeout=60.0, solvers=None, need_all=False):
    ans, solver, secs, per = race(script + '\n(check-sat)\n', 1, timeout, solvers, need_all)
    return Result(ans[0], solver, secs, others=per)


def _parse_values(out):
    m = {}
    for nm, val in re.findall(r'\(\s*([^\s()]+)\s+((?:#x[0-9a-fA-F]+)|(?:#b[01]+)|(?:\(_ bv\d+ \d+\))|(?:\(- \d+\))|(?:-?\d+)|true|false)\s*\)', out):
        if val.startswith('#x'):
            m[nm] = int(val[2:], 16)
        elif val.startswith('#b'):
            m[nm] = int(val[2:], 2)
        elif val.startswith('(_ bv'):
            m[nm] = int(val.split()[1][2:])
        elif val.startswith('(-'):
            m[nm] = -int(val[2:-1])
        elif val in ('true', 'false'):
            m[nm] = 1 if val == 'true' else 0
        else:
            m[nm] = int(val)
    return m


def get_model(script, names, timeout=60.0, solvers=None):
    """script without check-sat; all solvers are raced; returns (dict name -> int, solver) or (None, None)"""
    if '(set-logic' not in script:
        script = '(set-logic ALL)\n' + script
    q = script + '\n(check-sat)\n(get-value (' + ' '.join(names) + '))\n'
    solvers = solvers or DEFAULT
    procs = {}
    for s in solvers:
        try:
            procs[s] = subprocess.Popen(SOLVERS[s](timeout), stdin=subprocess.PIPE, stdout=subprocess.PIPE, stderr=subprocess.STDOUT, text=True)
        except FileNotFoundError:
            continue
    box = {}

    def feed(s, p):
        try:
            out, _ = p.communicate(q, timeout=timeout + 5)
        except subprocess.TimeoutExpired:
            p.kill()
            out = ''
        box[s] = out or ''
    ths = [threading.Thread(target=feed, args=(s, p), daemon=True) for s, p in procs.items()]
    for t in ths:
        t.start()
    t_end = time.time() + timeout + 6
    res = (None, None)
    while time.time() < t_end:
        for s in list(box):
            out = box[s]
            if out.lstrip().startswith('sat'):
                m = _parse_values(out)
                if m:
                    res = (m, s)
                    break
        if res[0] is not None or len(box) == len(procs):
            break
        time.sleep(0.02)
    for p in procs.values():
        if p.poll() is None:
            try:
                p.kill()
            except Exception:
                pass
    return res
