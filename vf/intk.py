"""Linear-integer encoding of the Fiat kernels and the modular certificate.

Every 64-bit word is an Int in [0, 2^64); bits.Add64/Sub64 become linear equalities with
0/1 carry variables; a product of two symbolic words is one shared fresh variable P_xy, so
the whole kernel is a linear system.  The modular goal `out*R = T (mod m)` is handed to the
solver as an exact linear identity `out*R - T = m*J` whose J is found here by Gaussian
elimination over GF(m); the hint is untrusted - only the solver's `unsat` is believed."""
from .dag import Eval

B = 1 << 64


class NotEncodable(Exception):
    pass


def lin_add(a, b, k=1):
    r = dict(a)
    for v, c in b.items():
        r[v] = r.get(v, 0) + k * c
        if r[v] == 0:
            del r[v]
    return r


def lin_scale(a, k):
    return {v: c * k for v, c in a.items() if c * k != 0}


def lin_const(a):
    return a.get(1, 0) if set(a) <= {1} else None


def smt_int(v):
    return str(v) if v >= 0 else '(- %d)' % (-v)


def lin_smt(a):
    terms = []
    for v, c in a.items():
        if v == 1:
            terms.append(smt_int(c))
        elif c == 1:
            terms.append(v)
        else:
            terms.append('(* %s %s)' % (smt_int(c), v))
    if not terms:
        return '0'
    if len(terms) == 1:
        return terms[0]
    return '(+ %s)' % ' '.join(terms)


class IntEnc:
    def __init__(self, run, case=None):
        self.run = run
        self.case = case or {}        # cond node id -> 0/1
        self.rng = {}                 # var -> (lo, hi)
        self.eqs = []                 # dict(coefs=lin, name=.., defines=[vars], kind=..)
        self.defeq = {}               # var -> index of defining equation
        self.memo = {}
        self.pairs = {}
        self.P = {}                   # (varx, vary) -> P name
        self.carry = set()
        self.conds = set()            # cmov condition nodes met
        self.discard = []             # (sum var, key) of addc whose sum is not otherwise used: filled by caller
        self.nodevar = {}             # var name -> node id (for concrete validation)
        self.pinfo = {}               # P name -> (node x, node y)

    def var(self, name, lo, hi, node=None):
        self.rng[name] = (lo, hi)
        if node is not None:
            self.nodevar[name] = node
        return name

    def bounds(self, e):
        lo = hi = 0
        for v, c in e.items():
            if v == 1:
                lo += c
                hi += c
            else:
                a, b = self.rng[v]
                lo += min(c * a, c * b)
                hi += max(c * a, c * b)
        return lo, hi

    def addeq(self, coefs, name, defines, kind):
        self.eqs.append({'coefs': coefs, 'name': name, 'defines': defines, 'kind': kind})
        for v in defines:
            self.defeq[v] = len(self.eqs) - 1

    def expr(self, i):
        if i in self.memo:
            return self.memo[i]
        r = self._expr(i)
        self.memo[i] = r
        return r

    def _expr(self, i):
        n = self.run.nodes[i]
        op, a = n['op'], n['a']
        if op == 'const':
            return {1: int(n['v'])} if int(n['v']) else {}
        if op == 'var':
            return {self.var('v_' + n['n'], 0, B - 1, i): 1}
        if op == 'limb' and self.run.nodes[a[0]]['op'] == 'app' and self.run.nodes[a[0]]['n'] == 'cmovznz':
            c, x, y = self.run.nodes[a[0]]['a']
            ce = self.expr(c)
            cc = lin_const(ce)
            if cc is None:
                self.conds.add(c)
                if c not in self.case:
                    raise NotEncodable('cmov condition %d without case' % c)
                cc = self.case[c]
            return self.expr(x) if cc == 0 else self.expr(y)
        if op == 'and':
            x, y = self.expr(a[0]), self.expr(a[1])
            cx, cy = lin_const(x), lin_const(y)
            if cx is not None and cy is not None:
                return {1: cx & cy} if cx & cy else {}
            if cx == B - 1:
                return y
            if cy == B - 1:
                return x
            raise NotEncodable('and of non-constants')
        if op in ('addc_s', 'addc_c', 'subb_d', 'subb_b'):
            key = (op[:4],) + tuple(a)
            if key not in self.pairs:
                ex, ey, ec = (self.expr(t) for t in a)
                lo, hi = self.bounds(ec)
                if lo < 0 or hi > 1:
                    raise NotEncodable('carry-in of %s not provably in {0,1}' % op)
                k = len(self.pairs)
                # find the sibling node ids for validation
                sid = cid = None
                for m in self.run.nodes:
                    if m['a'] == a and m['op'] == key[0] + ('_s' if key[0] == 'addc' else '_d'):
                        sid = m['id']
                    if m['a'] == a and m['op'] == key[0] + ('_c' if key[0] == 'addc' else '_b'):
                        cid = m['id']
                s = self.var('%s%d_w' % (key[0], k), 0, B - 1, sid)
                c = self.var('%s%d_c' % (key[0], k), 0, 1, cid)
                self.carry.add(c)
                if key[0] == 'addc':   # s + B c = x + y + cin
                    co = lin_add(lin_add(lin_add({s: 1, c: B}, ex, -1), ey, -1), ec, -1)
                else:                   # d - B b = x - y - bin
                    co = lin_add(lin_add(lin_add({s: 1, c: -B}, ex, -1), ey, 1), ec, 1)
                self.addeq(co, '%s%d' % (key[0], k), [s, c], key[0])
                self.pairs[key] = (s, c, sid, cid)
            s, c, _, _ = self.pairs[key]
            return {s: 1} if op in ('addc_s', 'subb_d') else {c: 1}
        if op in ('mulhi', 'mullo'):
            key = ('mul',) + tuple(a)
            if key not in self.pairs:
                ex, ey = self.expr(a[0]), self.expr(a[1])
                cx, cy = lin_const(ex), lin_const(ey)
                k = len(self.pairs)
                hid = lid = None
                for m in self.run.nodes:
                    if m['a'] == a and m['op'] == 'mulhi':
                        hid = m['id']
                    if m['a'] == a and m['op'] == 'mullo':
                        lid = m['id']
                if cx is not None and cy is not None:
                    raise NotEncodable('constant product should have been folded')
                if cx is not None or cy is not None:
                    cst, other = (cx, ey) if cx is not None else (cy, ex)
                    omax = self.bounds(other)[1]
                    himax = (cst * omax) >> 64
                    h = self.var('mul%d_h' % k, 0, himax, hid)
                    l = self.var('mul%d_l' % k, 0, B - 1, lid)
                    co = lin_add({h: B, l: 1}, lin_scale(other, cst), -1)
                    self.addeq(co, 'mulc%d' % k, [h, l], 'mulc')
                else:
                    if len(ex) != 1 or len(ey) != 1 or 1 in ex or 1 in ey or list(ex.values()) != [1] or list(ey.values()) != [1]:
                        raise NotEncodable('product of non-atomic operands')
                    vx, vy = sorted([next(iter(ex)), next(iter(ey))])
                    pk = (vx, vy)
                    if pk not in self.P:
                        pn = self.var('P_%s_%s' % (vx, vy), 0, (B - 1) ** 2)
                        self.P[pk] = pn
                        self.pinfo[pn] = (a[0], a[1])
                    h = self.var('mul%d_h' % k, 0, B - 2, hid)
                    l = self.var('mul%d_l' % k, 0, B - 1, lid)
                    self.addeq({h: B, l: 1, self.P[pk]: -1}, 'mul%d' % k, [h, l], 'mul')
                self.pairs[key] = (h, l)
            h, l = self.pairs[key]
            return {h: 1} if op == 'mulhi' else {l: 1}
        if op == 'add':
            x, y = self.expr(a[0]), self.expr(a[1])
            s = lin_add(x, y)
            if self.bounds(s)[1] >= B:
                # a plain 64-bit addition that may wrap: w + B k = x + y with k in {0,1} (exact; the lost carry is a carry variable)
                key = ('wadd',) + tuple(a)
                if key not in self.pairs:
                    k = len(self.pairs)
                    if self.bounds(s)[1] >= 2 * B or self.bounds(s)[0] < 0:
                        raise NotEncodable('plain addition out of range')
                    w = self.var('wadd%d_w' % k, 0, B - 1, i)
                    c = self.var('wadd%d_c' % k, 0, 1)
                    self.carry.add(c)
                    self.addeq(lin_add({w: 1, c: B}, s, -1), 'wadd%d' % k, [w, c], 'wadd')
                    self.pairs[key] = (w, c)
                return {self.pairs[key][0]: 1}
            return s
        raise NotEncodable('op %s' % op)

    # ---- text ----
    def decls(self, vars_=None):
        out = []
        for v in (vars_ if vars_ is not None else self.rng):
            lo, hi = self.rng[v]
            out.append('(declare-const %s Int)(assert (<= %d %s %d))' % (v, lo, v, hi))
        return '\n'.join(out)

    def eq_smt(self, idxs=None):
        idxs = range(len(self.eqs)) if idxs is None else idxs
        return '\n'.join('(assert (= %s 0))' % lin_smt(self.eqs[i]['coefs']) for i in idxs)

    def slice_for(self, vars_, depth=2):
        """defining equations of vars_, recursively to the given depth"""
        idx, frontier, seenv = set(), set(vars_), set()
        for _ in range(depth + 1):
            nxt = set()
            for v in frontier:
                if v in seenv:
                    continue
                seenv.add(v)
                if v in self.defeq:
                    e = self.defeq[v]
                    if e not in idx:
                        idx.add(e)
                        nxt.update(x for x in self.eqs[e]['coefs'] if x != 1)
            frontier = nxt
        vs = set(vars_)
        for e in idx:
            vs.update(x for x in self.eqs[e]['coefs'] if x != 1)
        return sorted(idx), sorted(vs)

    # ---- concrete validation of the encoding ----
    def check_concrete(self, env):
        """evaluates the DAG on env (var name -> int) with exact word semantics and checks every
        equation and range of the integer encoding; returns assignment or raises"""
        ev = Eval(self.run, env, apps={'cmovznz': lambda c, x, y: x if c == 0 else y})
        asg = {}
        for v, nid in self.nodevar.items():
            if nid is not None:
                asg[v] = ev.ev(nid)
        for pn, (x, y) in self.pinfo.items():
            asg[pn] = ev.ev(x) * ev.ev(y)
        for c, val in self.case.items():
            if ev.ev(c) != val:
                return None  # other case
        # lost carries of plain additions have no node of their own: derived from their defining equation
        for e in self.eqs:
            if e['kind'] == 'wadd':
                w, c = e['defines']
                rest = sum(cf * (asg[v] if v != 1 else 1) for v, cf in e['coefs'].items() if v not in (w, c))
                asg[c] = (-rest - asg[w]) // B if (-rest - asg[w]) % B == 0 else -1
        for v, (lo, hi) in self.rng.items():
            if v not in asg:
                raise AssertionError('encoding variable %s has no concrete counterpart' % v)
            if not lo <= asg[v] <= hi:
                raise AssertionError('range of %s violated: %d not in [%d,%d]' % (v, asg[v], lo, hi))
        for e in self.eqs:
            s = sum(c * (asg[v] if v != 1 else 1) for v, c in e['coefs'].items())
            if s != 0:
                raise AssertionError('equation %s violated by concrete run' % e['name'])
        return asg


# ---------- Gaussian elimination over GF(m) ----------

def certificate(enc, target, m, extra_eqs=()):
    """Finds mu with target - sum(mu_e E_e) = residue (mod m); residue supported on free columns.
    Returns (mu dict eqindex->int, residue lin) ; equations = enc.eqs + extra_eqs (lin dicts)."""
    eqs = [e['coefs'] for e in enc.eqs] + list(extra_eqs)
    inputs = {v for v in enc.rng if v.startswith('v_') or v.startswith('P_')}

    def prio(v):
        if v in inputs:
            return 3
        if v in enc.carry or (enc.rng[v][1] - enc.rng[v][0]) <= 2:
            return 2
        return 0
    pivots = {}   # var -> (row, mult)

    def reduce(row, mult):
        for v in [x for x in row if x in pivots]:
            c = row.get(v, 0)
            if c == 0:
                continue
            prow, pmult = pivots[v]
            for u, pc in prow.items():
                nv = (row.get(u, 0) - c * pc) % m
                if nv:
                    row[u] = nv
                else:
                    row.pop(u, None)
            for u, pc in pmult.items():
                nv = (mult.get(u, 0) - c * pc) % m
                if nv:
                    mult[u] = nv
                else:
                    mult.pop(u, None)
        return row, mult
    for idx, e in enumerate(eqs):
        row = {v: c % m for v, c in e.items() if c % m}
        mult = {idx: 1}
        row, mult = reduce(row, mult)
        cand = [v for v in row if v != 1 and prio(v) < 3]
        if not cand:
            continue
        pv = min(cand, key=lambda v: (prio(v), v))
        inv = pow(row[pv], -1, m)
        row = {v: c * inv % m for v, c in row.items()}
        mult = {v: c * inv % m for v, c in mult.items()}
        # Gauss-Jordan: remove pv from existing pivot rows
        for u, (prow, pmult) in list(pivots.items()):
            c = prow.get(pv, 0)
            if c:
                for w, rc in row.items():
                    nv = (prow.get(w, 0) - c * rc) % m
                    if nv:
                        prow[w] = nv
                    else:
                        prow.pop(w, None)
                for w, rc in mult.items():
                    nv = (pmult.get(w, 0) - c * rc) % m
                    if nv:
                        pmult[w] = nv
                    else:
                        pmult.pop(w, None)
        pivots[pv] = (row, mult)
    t = {v: c % m for v, c in target.items() if c % m}
    t, negmu = reduce(t, {})
    mu = {k: (-c) % m for k, c in negmu.items()}
    return mu, t, eqs


def exact_quotient(target, mu, eqs, residue_fix, m):
    """D = target - sum mu_e E_e - residue_fix ; returns D/m if all coefficients divisible, else None"""
    D = dict(target)
    for e, c in mu.items():
        D = lin_add(D, eqs[e], -c)
    D = lin_add(D, residue_fix, -1)
    J = {}
    for v, c in D.items():
        if c % m:
            return None
        if c // m:
            J[v] = c // m
    return J
