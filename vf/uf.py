"""Contracts of the Montgomery conversion kernels as instantiated axioms over uninterpreted
functions (the universally quantified statements are proved on the real kernels in C06/C12)."""
from .params import *

BV256 = '(_ BitVec 256)'


class MontUF:
    """prefix 's' (scalar field, modulus n) or 'f' (base field, modulus p)"""

    def __init__(self, low, prefix):
        self.low, self.prefix = low, prefix
        self.m = N if prefix == 's' else P
        self.decl = []
        for op in ('from', 'to'):
            _, d = low.declare_uf(prefix + op, [BV256], BV256)
            if d:
                self.decl.append(d)
        self.frm = 'uf_%sfrom' % prefix
        self.to = 'uf_%sto' % prefix

    def M(self):
        return bvconst256(self.m)

    def inst_from(self, x):
        """contract of FromMontgomery instantiated at term x"""
        return '(assert (=> (bvult {x} {m}) (and (bvult ({f} {x}) {m}) (= ({t} ({f} {x})) {x}))))'.format(x=x, m=self.M(), f=self.frm, t=self.to)

    def inst_to(self, y):
        return '(assert (=> (bvult {y} {m}) (and (bvult ({t} {y}) {m}) (= ({f} ({t} {y})) {y}))))'.format(y=y, m=self.M(), f=self.frm, t=self.to)

    def ground(self):
        one = R % self.m
        return '\n'.join([
            '(assert (= (%s (_ bv0 256)) (_ bv0 256)))' % self.frm,
            '(assert (= (%s (_ bv0 256)) (_ bv0 256)))' % self.to,
            '(assert (= (%s %s) (_ bv1 256)))' % (self.frm, bvconst256(one)),
            '(assert (= (%s (_ bv1 256)) %s))' % (self.to, bvconst256(one)),
        ])

    def axioms_for(self, run, roots, extra_terms=()):
        """instantiates the contracts at every application in the cone of roots and at extra terms"""
        out = [self.ground()]   # declarations are part of low.all()
        for i in run.cone(roots):
            n = run.nodes[i]
            if n['op'] == 'app' and n['n'] == self.prefix + 'from':
                out.append(self.inst_from(self.low.name(n['a'][0])))
                out.append(self.inst_to('n%d' % i))
            if n['op'] == 'app' and n['n'] == self.prefix + 'to':
                out.append(self.inst_to(self.low.name(n['a'][0])))
                out.append(self.inst_from('n%d' % i))
        for t in extra_terms:
            out.append(self.inst_from(t))
            out.append(self.inst_to('(%s %s)' % (self.frm, t)))
        return '\n'.join(out)


def concat_limbs(names):
    """256-bit value of four limb terms (limb 0 least significant)"""
    return '(concat %s)' % ' '.join(reversed(names))


def concat_bytes_be(names):
    return names[0] if len(names) == 1 else '(concat %s)' % ' '.join(names)
