"""Shared machinery of the checks: running symx on /repo's current tree, discharging
obligations on the solver portfolio, replaying counterexamples, writing evidence."""
import json, os, subprocess, sys, time, hashlib, threading
from concurrent.futures import ThreadPoolExecutor
from . import smt
from .dag import Run, BVLower

VERIF = os.path.dirname(os.path.dirname(os.path.abspath(__file__)))
REPO = os.environ.get('VERIF_REPO', '/repo')
MOD = 'github.com/bytemare/secp256k1'
SYMX = os.path.join(VERIF, 'bin', 'symx')
GOENV = dict(os.environ, GOFLAGS='-mod=mod', GOPROXY='off', GOSUMDB='off', GOTOOLCHAIN='local')
PKGDIR = {'root': '', 'field': 'internal/field', 'scalar': 'internal/scalar'}


class EngineError(Exception):
    pass


def ensure_symx():
    src = os.path.join(VERIF, 'engine')
    newest = max(os.path.getmtime(os.path.join(dp, f)) for dp, _, fs in os.walk(src) for f in fs)
    if not os.path.exists(SYMX) or os.path.getmtime(SYMX) < newest:
        os.makedirs(os.path.dirname(SYMX), exist_ok=True)
        p = subprocess.run(['go', 'build', '-o', SYMX, './cmd/symx'], cwd=src, env=GOENV, capture_output=True, text=True)
        if p.returncode != 0:
            raise EngineError('cannot build symx: ' + p.stderr)


def overlay_map(files):
    """files: harness file names under /verif/harness, named <pkg>_<name>.go (pkg in root|field|scalar)"""
    ov = {}
    for f in files:
        pkg = f.split('_', 1)[0]
        virt = os.path.join(REPO, PKGDIR[pkg], 'zz_verif_' + f)
        ov[virt] = os.path.join(VERIF, 'harness', f)
    return ov


def symx(harness_files, runs, pkg='root', timeout=1800, env=None):
    ensure_symx()
    job = {'env': env or [], 'dir': REPO, 'pkg': MOD + ('/' + PKGDIR[pkg] if PKGDIR[pkg] else ''), 'module': MOD,
           'overlay': overlay_map(harness_files), 'runs': runs}
    t0 = time.time()
    p = subprocess.run([SYMX], input=json.dumps(job), capture_output=True, text=True, env=GOENV, timeout=timeout)
    if p.returncode != 0:
        raise EngineError('symx failed: ' + p.stderr[-3000:])
    out = json.loads(p.stdout)
    rs = [Run(r) for r in out['runs']]
    for r in rs:
        r.secs = time.time() - t0
    return rs


def symx_parallel(harness_files, runs, pkg='root', chunks=8):
    """splits runs over several symx processes"""
    if len(runs) <= 2:
        return symx(harness_files, runs, pkg)
    k = min(chunks, len(runs))
    parts = [runs[i::k] for i in range(k)]
    with ThreadPoolExecutor(max_workers=k) as ex:
        res = list(ex.map(lambda part: symx(harness_files, part, pkg), parts))
    byid = {}
    for part in res:
        for r in part:
            byid[r.id] = r
    return [byid[rc['id']] for rc in runs]


def load_known():
    path = os.path.join(VERIF, 'known_findings.jsonl')
    out = []
    if os.path.exists(path):
        for line in open(path):
            line = line.strip()
            if line:
                out.append(json.loads(line))
    return out


class Check:
    def __init__(self, pid, tier='quick', seed=0, level='proof'):
        self.pid, self.tier, self.seed, self.level = pid, tier, seed, level
        self.t0 = time.time()
        self.obls = []          # every obligation with its outcome
        self.violations = []    # (key, text, replay path)
        self.inconclusive = []
        self.pkgwrites = []
        self.depfails = []      # failed lower-layer contracts (with concrete lower-layer witnesses): need a property-level reproduction
        self.usage = {}         # summarised function -> receiver patterns its callers use (alias / zero / dirty)
        self.greads = set()     # labels of the package-level objects read by the runs of this check
        self.notes = []
        self.functions = set()
        self.stubs = set()
        self.zero_globals = set()
        self.summaries = set()
        self.loops = {}
        self.bounds = {}
        self.assumptions = []
        self.trusted = []
        self.outside = []
        self.samples = []
        self.extra = {}
        self.lock = threading.Lock()
        self.symx_s = 0.0

    # ---- bookkeeping of what was encoded ----
    OWNERS = {'field': ('C12',), 'scalar': ('C06',)}

    # lower-layer kernels whose operands are arbitrary canonical values under the property's own quantifier (any scalar / any coordinate /
    # any projective scaling / any field element u): a kernel that returns a WRONG VALUE (not merely an unreduced representative) on such
    # operands makes the property fail on the inputs that feed it those operands, even when no battery input happens to do so
    EXPOSED = {'C07': {'scalar.from', 'scalar.to'}, 'C13': {'scalar.from'}, 'C14': {'scalar.from'}, 'C18': {'scalar.to'}, 'C01': {'scalar.from', 'field.mul', 'field.square', 'field.add', 'field.sub'},
               'C02': {'field.mul', 'field.square', 'field.add', 'field.sub'}, 'C05': {'field.mul'}, 'C04': {'field.mul', 'field.from'}, 'C03': {'field.to'},
               'C11': {'field.mul', 'field.square', 'field.add', 'field.sub'}, 'C09': set(), 'C08': set()}

    def dep_violation(self, layer, key, text, path, witnesses=(), exposed_as=None):
        """a concrete violation of a lower-layer contract (internal/field, internal/scalar).  For the check that owns the layer it is a
        violation of the property; for a check that merely relies on the contract it is recorded, and the property's own replay
        (with inputs derived from the lower-layer witness) decides whether the property itself is affected"""
        if self.pid in self.OWNERS.get(layer, ()) or self.pid == 'C10':
            return self.violation(key, text, path)
        self.depfails.append({'layer': layer, 'key': key, 'text': text, 'path': path, 'witnesses': [int(w) for w in witnesses], 'exposed_as': exposed_as})

    def resolve_deps(self):
        if not self.depfails or self.violations or getattr(self, '_deps_done', False):
            return
        self._deps_done = True
        from props import fallback
        d0 = self.depfails[0]
        wit = [w for d in self.depfails for w in d['witnesses']]
        cases = fallback.witness_cases(self.pid, d0['layer'], wit, self.seed) + fallback.cases_for(self.pid, self.seed)
        if self.pid == 'C17':
            self.inconclusive.append('a lower-layer contract this proof relies on fails (%s); the plain programs are the replay of this property' % d0['text'][:200])
            return
        path = self.save_replay({'property': self.pid, 'cases': cases, 'reason': 'lower-layer contract violated: %s' % d0['text'][:300], 'lower_layer_replay': d0['path']})
        extra = None
        inst = None
        if self.pid == 'C19':
            from . import instr
            inst, extra, _ = instr.instrument_field()
        try:
            ok, out = go_test(path, race=(self.pid == 'C16'), extra_overlay=extra, timeout=900)
        finally:
            if inst:
                from . import instr
                instr.cleanup(inst)
        if not ok and 'MISMATCH' in out:
            self.violation('dep:' + d0['key'], 'a lower-layer defect (%s) reaches this property: %s' % (d0['text'][:160], [l.strip() for l in out.splitlines() if 'MISMATCH' in l][:1]), path)
        else:
            ex = [d for d in self.depfails if d.get('exposed_as') and d['exposed_as'] in self.EXPOSED.get(self.pid, ())]
            if ex:
                self.violation('dep:' + ex[0]['key'], '%s - a wrong VALUE on operands that reach this kernel directly under the property\'s quantifier (replay at kernel level; the property battery itself does not contain such an input)'
                               % ex[0]['text'][:260], ex[0]['path'])
                return
            self.inconclusive.append('a lower-layer contract this proof relies on is violated (%s; replay %s), but the property-level replay (witness-derived inputs + the property battery) passes'
                                     % (d0['text'][:200], d0['path']))

    def pkgstate(self):
        """Every verdict about a single call from the initial package state extends to call histories only if no call changes
        package-level state: recorded for every encoded path (the per-property handling of such a finding comes first)."""
        if getattr(self, '_pkgstate_done', False) or not self.obls:
            return
        self._pkgstate_done = True
        own_done = any(o['id'].endswith('.pkgstate') for o in self.obls)
        api = None
        if self.pid not in ('C10', 'C15', 'C16', 'C12'):   # C10/C15/C16 run the full call table themselves; C12 is the layer below the API
            try:
                from props import pkgstate as _ps
                api = _ps.analysis()
            except (EngineError, ValueError, KeyError, OSError) as e:
                self.notes.append('package-state analysis of the API not available: %s' % str(e)[:200])
        if api is not None:
            self.extra['package_state_analysis'] = {k: api[k] for k in ('key', 'calls', 'paths', 'secs', 'at', 'reused', 'errors')}
            # only state that the functions of THIS check read can change what they do
            rel = [f_ for f_ in api['findings'] if len(f_) < 3 or f_[2] in self.greads]
            self.extra['package_state_analysis']['findings_about_state_not_read_here'] = [list(f_[:2]) for f_ in api['findings'] if f_ not in rel][:10]
            self.extra['package_state_analysis']['package_level_objects_read_here'] = sorted(self.greads)[:40]
            for f_ in rel:
                self.pkgwrites.append(('api', 0, '%s: %s' % tuple(f_[:2]), ''))
            self.ground(self.pid + '.pkgstate.api', 'no exported function (%d call configurations, %d paths; %s) writes, or hands to its caller, package-level state read by the functions of this check (%d objects read)'
                        % (api['calls'], api['paths'], 'result of the identical tree reused' if api['reused'] else 'computed in this run', len(self.greads)), not rel, str([list(f_[:2]) for f_ in rel[:3]]))
        ok = not self.pkgwrites
        if not own_done:
            self.ground(self.pid + '.pkgstate', 'no encoded path of any function executed for this check writes package-level state (%d runs)' % len(self.extra.get('_runs', [])), ok, str(self.pkgwrites[:3]))
        if ok or self.violations or self.inconclusive:
            return
        from props import fallback
        if self.pid == 'C17':
            from props import C17
            okm, outm = C17.plain_main()
            path = self.save_replay({'property': 'C17', 'kind': 'plain-main', 'program': C17.MAIN, 'reason': 'package-level state is written: %s' % (self.pkgwrites[:3],)})
            if not okm:
                self.violation('pkgstate', 'a hashing call changes package-level state (%s) and a later call fails: %s' % (self.pkgwrites[0][2:], outm.strip().splitlines()[-1:]), path)
            else:
                self.inconclusive.append('package-level state is written (%s) but the plain main programs run' % (self.pkgwrites[0][2:],))
            return
        if self.pid == 'C12':
            path = self.save_replay({'property': 'C12', 'pkg': 'field', 'cases': fallback.cases_for('C12', self.seed), 'reason': 'package-level state is written: %s' % (self.pkgwrites[:3],)})
            ok2, out = go_test(path, pkg='field', timeout=900)
            if not ok2 and 'MISMATCH' in out:
                self.violation('pkgstate', 'a field-layer call changes or hands out package-level state (%s): %s' % (self.pkgwrites[0][2:], [l.strip() for l in out.splitlines() if 'MISMATCH' in l][:1]), path)
            else:
                self.inconclusive.append('package-level state is written (%s) but the field battery passes' % (self.pkgwrites[0][2:],))
            return
        cases = [{'kind': 'hostile-prelude'}] + fallback.cases_for(self.pid, self.seed)   # only the property's own cases can report a mismatch
        path = self.save_replay({'property': self.pid, 'cases': cases, 'reason': 'package-level state is written: %s' % (self.pkgwrites[:3],)})
        ok2, out = go_test(path, race=(self.pid == 'C16'), timeout=900)
        if not ok2 and 'MISMATCH' in out:
            self.violation('pkgstate', 'a call changes package-level state (%s) and later calls go wrong: %s' % (self.pkgwrites[0][2:], [l.strip() for l in out.splitlines() if 'MISMATCH' in l][:1]), path)
        else:
            self.inconclusive.append('package-level state is written (%s) but the hostile-caller battery passes' % (self.pkgwrites[0][2:],))

    def absorb(self, runs):
        for r in runs:
            if r.error:
                raise EngineError('symx run %s: %s' % (r.id, r.error))
            self.functions.update(r.functions)
            self.stubs.update(r.stubs)
            self.zero_globals.update(r.zero_globals)
            self.summaries.update(r.summaries)
            for u_ in (r.d.get('summary_usage') or []):
                fn_, pat_ = u_.rsplit('|', 1)
                self.usage.setdefault(fn_, set()).add(pat_)
            for k, v in r.loops.items():
                self.loops[k] = max(self.loops.get(k, 0), v)
            self.symx_s = max(self.symx_s, getattr(r, 'secs', 0.0)) if len(runs) > 1 else self.symx_s + getattr(r, 'secs', 0.0)
            for p in r.paths:
                if p['end'] == 'error':
                    raise EngineError('symx run %s path %d: %s' % (r.id, p['id'], p.get('err')))
                for w in p.get('writes', []):
                    if w.get('tag') == 'Global':
                        self.pkgwrites.append((r.id, p['id'], w.get('label'), w.get('at')))
                self.greads.update(p.get('greads') or [])
        return runs

    # ---- obligations ----
    def record(self, oid, desc, status, solver=None, secs=0.0, expect='unsat', sample=None, kind='solver'):
        ok = (status == expect)
        with self.lock:
            self.obls.append({'id': oid, 'desc': desc, 'expect': expect, 'status': status, 'solver': solver,
                              'secs': round(secs, 3), 'ok': ok, 'kind': kind})
            if sample is not None:
                own = oid.startswith(self.pid + '.')
                n_own = sum(1 for s in self.samples if s['obligation'].startswith(self.pid + '.'))
                if (own and n_own < 5) or (not own and len(self.samples) - n_own < 3):
                    self.samples.append({'obligation': oid, 'desc': desc, 'smt': sample[:1500]})
        return ok

    def prove(self, oid, desc, script, expect='unsat', timeout=60.0, solvers=None, need_all=False):
        """script: SMT-LIB without check-sat; asserts the negated goal.  Returns smt.Result"""
        r = smt.check(script, timeout=timeout, solvers=solvers, need_all=need_all)
        self.record(oid, desc, r.status, r.solver, r.secs, expect, sample=script[-1500:])
        if r.status == 'unknown':
            self.inconclusive.append('%s: %s (no definite answer in %.0fs)' % (oid, desc, timeout))
        return r

    def prove_batch(self, prelude, goals, timeout=30.0, solvers=None, expect='unsat'):
        """goals: list of (oid, desc, assertion-text).  One solver process per portfolio member, push/pop."""
        if not goals:
            return []
        parts = [prelude]
        for oid, desc, g in goals:
            parts.append('(push 1)\n%s\n(check-sat)\n(pop 1)' % g)
        script = '\n'.join(parts)
        ans, solver, secs, per = smt.race(script, len(goals), timeout, solvers)
        out = []
        for (oid, desc, g), a in zip(goals, ans):
            self.record(oid, desc, a, solver, secs / len(goals), expect, sample=g)
            if a == 'unknown':
                self.inconclusive.append('%s: %s (no definite answer)' % (oid, desc))
            out.append(a)
        return out

    def prove_batch_par(self, prelude, goals, timeout=30.0, chunks=4, solvers=None):
        """like prove_batch, goals split over several portfolio races running concurrently"""
        if len(goals) <= 2 or chunks <= 1:
            return self.prove_batch(prelude, goals, timeout, solvers)
        k = min(chunks, len(goals))
        parts = [goals[i::k] for i in range(k)]
        with ThreadPoolExecutor(max_workers=k) as ex:
            res = list(ex.map(lambda part: self.prove_batch(prelude, part, timeout, solvers), parts))
        out = [None] * len(goals)
        for pi, part in enumerate(res):
            for j, a in enumerate(part):
                out[pi + j * k] = a
        return out

    def ground(self, oid, desc, ok, detail=''):
        """a fully concrete obligation decided by direct evaluation of the encoding (no free variable)"""
        self.record(oid, desc + (' ' + detail if detail else ''), 'unsat' if ok else 'sat', 'ground', 0.0, 'unsat', kind='ground')
        return ok

    # ---- violations ----
    def violation(self, key, text, replay):
        if key not in [v[0] for v in self.violations]:
            self.violations.append((key, text, replay))

    def save_replay(self, data):
        d = os.path.join(VERIF, 'replays', self.pid)
        os.makedirs(d, exist_ok=True)
        blob = json.dumps(data, sort_keys=True, indent=1)
        h = hashlib.sha256(blob.encode()).hexdigest()[:12]
        path = os.path.join(d, h + '.json')
        with open(path, 'w') as f:
            f.write(blob)
        return path

    # ---- finish ----
    def finish(self):
        self.resolve_deps()
        self.pkgstate()
        known = load_known()
        known_keys = {(k['property'], k['key']): k for k in known if k.get('kind') == 'known'}
        unlisted = []
        for key, text, replay in self.violations:
            if (self.pid, key) in known_keys:
                print('KNOWN-FINDING: property=%s %s' % (self.pid, known_keys[(self.pid, key)].get('text', text)))
            else:
                unlisted.append((key, text, replay))
        n = len(self.obls)
        disc = sum(1 for o in self.obls if o['ok'])
        wall = time.time() - self.t0
        nontriv = len({o['id'] for o in self.obls if o['kind'] == 'solver'})
        cov = {
            'obligations': n, 'discharged': disc,
            'checker_cmd': 'z3 -in -smt2 | z3-new -in -smt2 | cvc5 --incremental --lang=smt2 (first definite answer; disagreement = inconclusive)',
            'trusted_base': self.trusted,
            'evaluations': smt.STATS['queries'], 'distinct_nontrivial': max(nontriv, 0),
            'rule': 'one evaluation = one solver query; non-trivial = distinct obligation with at least one free symbolic input (ground checks are counted separately)',
            'samples': self.samples or [{'note': 'no solver obligations in this run'}],
            'explanation': self.extra.get('explanation', 'Obligations generated by symbolic execution of /repo\'s current SSA; see functions_encoded/bounds.'),
            'states': max(sum(len(getattr(r, 'paths', [])) for r in self.extra.get('_runs', [])), 1),
            'transitions': max(n, 1), 'traces_validated_against_impl': self.extra.get('validated', 0),
            'functions_encoded': sorted(self.functions), 'stubs': sorted(self.stubs),
            'summaries_used': sorted(self.summaries), 'zero_initialised_foreign_globals': sorted(self.zero_globals),
            'loops_unrolled': self.loops, 'bounds': self.bounds, 'outside_claim': self.outside,
            'queries': smt.STATS['queries'], 'queries_confirmed_by_a_second_solver': smt.STATS['confirmed_by_second_solver'], 'solver_s': round(smt.STATS['solver_s'], 2), 'solver_wins': smt.STATS['by_solver'],
            'symx_s': round(self.symx_s, 2),
            'ground_checks': sum(1 for o in self.obls if o['kind'] == 'ground'),
            'failed': [o for o in self.obls if not o['ok']][:20],
            'inconclusive': self.inconclusive[:20], 'notes': self.notes,
            'obligation_index': [{'id': o['id'], 'status': o['status'], 'solver': o['solver'], 'secs': o['secs']} for o in self.obls][:400],
        }
        for k, v in self.extra.items():
            if not k.startswith('_') and k not in cov:
                cov[k] = v
        ev = {'property_id': self.pid, 'tier': self.tier, 'seed': self.seed, 'level': self.level, 'coverage': cov,
              'assumptions': self.assumptions, 'wall_s': round(wall, 2), 'violations': len(unlisted)}
        evdir = os.environ.get('VERIF_EVIDENCE_DIR') or os.path.join(VERIF, 'evidence')
        os.makedirs(evdir, exist_ok=True)
        with open(os.path.join(evdir, self.pid + '.json'), 'w') as f:
            json.dump(ev, f, indent=1)
        print('%s %s: %d/%d obligations discharged, %d queries, %.1fs solver, %.1fs wall' % (self.pid, self.tier, disc, n, smt.STATS['queries'], smt.STATS['solver_s'], wall))
        for key, text, replay in unlisted:
            print('VIOLATION property=%s replay=%s' % (self.pid, replay))
            print('  ' + text)
        if unlisted:
            return 1
        bad = [o for o in self.obls if not o['ok']]
        listed = len(self.violations) - len(unlisted)
        if self.inconclusive or (bad and not listed):
            for s in self.inconclusive[:10]:
                print('INCONCLUSIVE: ' + s)
            for o in bad[:10]:
                print('UNDISCHARGED: %s %s -> %s' % (o['id'], o['desc'], o['status']))
            return 2
        return 0


# ---------- replay of concrete cases against the real build ----------

def go_test(case_file, pkg='root', run='TestVerif', extra_overlay=None, race=False, timeout=600, tags=None):
    """Runs replay_templates/<template> as an in-package test of /repo's current tree via -overlay.
    Returns (passed, output)."""
    ov = {'Replace': {}}
    tdir = os.path.join(REPO, PKGDIR[pkg])
    tpl = os.path.join(VERIF, 'replay_templates')
    for fn in sorted(os.listdir(tpl)):
        if fn == 'field_trace_stub.go':
            continue
        if fn.endswith('.go') and (pkg == 'root') == (not fn.startswith(('field_', 'scalar_'))):
            if pkg != 'root' and not fn.startswith(pkg + '_'):
                continue
            ov['Replace'][os.path.join(tdir, 'zz_verif_' + fn)] = os.path.join(tpl, fn)
    ov['Replace'][os.path.join(REPO, PKGDIR['field'], 'zz_verif_trace_stub.go')] = os.path.join(tpl, 'field_trace_stub.go')
    for virt, real in (extra_overlay or {}).items():
        ov['Replace'][virt] = real
    work = os.path.join(VERIF, 'work')
    os.makedirs(work, exist_ok=True)
    ovp = os.path.join(work, 'overlay_%d_%d.json' % (os.getpid(), threading.get_ident()))
    with open(ovp, 'w') as f:
        json.dump(ov, f)
    cmd = ['go', 'test', '-vet=off', '-count=1', '-run', run, '-overlay', ovp]
    if race:
        cmd.append('-race')
    cmd.append('.')
    env = dict(GOENV, VERIF_REPLAY=case_file)
    try:
        p = subprocess.run(cmd, cwd=tdir, env=env, capture_output=True, text=True, timeout=timeout)
        out = p.stdout + p.stderr
        ok = p.returncode == 0
        if '[build failed]' in out:
            out = 'REPLAY-BUILD-FAILED (the replay harness does not compile against this tree) ' + out
    except subprocess.TimeoutExpired:
        out, ok = 'timeout', False
    finally:
        try:
            os.remove(ovp)
        except OSError:
            pass
    return ok, out


def hex32(v):
    return '%064x' % v
