"""Contracts of the Fiat kernels of internal/field and internal/scalar, proved on the
current tree: Mul/Square/To/FromMontgomery by linear-integer encoding + solver-checked
modular certificate, Add/Sub/Opp exactly in linear integers, the bitwise helpers in QF_BV.
Every check that replaces a kernel by an uninterpreted function calls prove() for it."""
import itertools, random, json, os
from . import core, smt
from .dag import BVLower, Eval, varid
from .intk import IntEnc, NotEncodable, certificate, exact_quotient, lin_add, lin_scale, lin_smt, smt_int, B
from .params import *

INT_KERNELS = {'Mul': ['mul', 'mulself'], 'Square': ['square'], 'Add': ['add', 'addself'], 'Sub': ['sub', 'subself'],
               'Opp': ['opp'], 'FromMontgomery': ['from'], 'ToMontgomery': ['to']}
BV_KERNELS = {'Selectznz': 'selectznz', 'Nonzero': 'nonzero', 'SetOne': 'consts'}
_done = {}
_tv_cases = {}


def modulus(pkg):
    return P if pkg == 'field' else N


def cmov_summary(pkg):
    base = F if pkg == 'field' else S
    return [{'fn': base + 'cmovznzU64', 'op': 'cmovznz', 'params': ['out', 'word', 'word', 'word'], 'results': [], 'notrace': True}]


def value(exprs):
    r = {}
    for i, e in enumerate(exprs):
        r = lin_add(r, lin_scale(e, 1 << (64 * i)))
    return r


def ref(kind, a, b, m):
    Ri = pow(R, -1, m)
    return {'mul': a * b * Ri % m, 'mulself': a * a * Ri % m, 'square': a * a * Ri % m, 'add': (a + b) % m, 'addself': 2 * a % m,
            'sub': (a - b) % m, 'subself': 0, 'opp': (-a) % m, 'from': a * Ri % m, 'to': a * R % m}[kind]


def prove(ck, pkg, names, tier='quick'):
    """proves the contracts of the named kernels of package pkg (once per process)"""
    todo = [n for n in names if (pkg, n) not in _done]
    if not todo:
        return
    m = modulus(pkg)
    if pkg == 'scalar':
        todo = [n for n in todo if n != 'Opp']   # not compiled in internal/scalar (commented out upstream)
    kinds = [k for n in todo for k in INT_KERNELS.get(n, [])]
    bvk = sorted({BV_KERNELS[n] for n in todo if n in BV_KERNELS})
    hfiles = [pkg + '_intrinsics.go', pkg + '_kernels.go']
    jobs = [{'id': k, 'harness': 'vh_' + k, 'summaries': cmov_summary(pkg)} for k in kinds]
    jobs += [{'id': 'bv_' + k, 'harness': 'vh_' + k} for k in bvk]
    if kinds and 'selectznz' not in bvk:
        jobs.append({'id': 'bv_selectznz', 'harness': 'vh_selectznz'})
        bvk.append('selectznz')
    runs = ck.absorb(core.symx_parallel(hfiles, jobs, pkg=pkg))
    byid = {r.id: r for r in runs}
    for k in bvk:
        bv_kernel(ck, pkg, k, byid['bv_' + k], m)
    with core.ThreadPoolExecutor(max_workers=6) as ex:
        list(ex.map(lambda k: int_kernel(ck, pkg, k, byid[k], m, tier), kinds))
    for n in todo:
        _done[(pkg, n)] = True
    validate_translation(ck, pkg)
    ck.trusted.append('a*b <= (m-1)^2 for a,b < m (product monotonicity, the only fact about the abstracted 64x64 products beyond their range)')


def bv_kernel(ck, pkg, kind, r, m):
    tag = 'K.%s.%s' % (pkg, kind)
    p = r.paths[0]
    ck.ground(tag + '.paths', 'straight-line code: one path, no panic', len(r.paths) == 1 and p['end'] == 'return')
    o = p['obs']
    low = BVLower(r)
    if kind == 'selectznz':
        roots = o['out']['f'] + o['alias1']['f'] + o['alias2']['f'] + [o['cmov']['n']] + o['a']['f'] + o['b']['f']
        pre = low.emit(roots)
        c = low.name(varid(r, 'c'))
        goals = [(tag + '.cmov', 'cmovznzU64(c,x,y) = (c==0 ? x : y) for c in {0,1}',
                  '(assert (bvule %s (_ bv1 64)))(assert (not (= n%d (ite (= %s (_ bv0 64)) n%d n%d))))' % (c, o['cmov']['n'], c, o['a']['f'][0], o['b']['f'][0]))]
        for i in range(4):
            goals.append((tag + '.limb%d' % i, 'Selectznz limb %d = (c==0 ? a : b) for c in {0,1}, in every aliasing' % i,
                          '(assert (bvule {c} (_ bv1 64)))(assert (not (and (= n{o} (ite (= {c} (_ bv0 64)) n{a} n{b})) (= n{o} n{x}) (= n{o} n{y}))))'.format(
                              c=c, o=o['out']['f'][i], a=o['a']['f'][i], b=o['b']['f'][i], x=o['alias1']['f'][i], y=o['alias2']['f'][i])))
        ck.prove_batch(pre, goals, timeout=30)
    elif kind == 'nonzero':
        roots = [o['out']['n'], o['isz']['n'], o['isnz']['n']] + o['a']['f']
        pre = low.emit(roots)
        u = low.name(varid(r, 'u'))
        A = ' '.join('n%d' % x for x in o['a']['f'])
        if pkg == 'field':
            g0 = (tag + '.nonzero', 'Nonzero(a) = 0 iff all limbs are 0', '(assert (not (= (= n%d (_ bv0 64)) (= (concat %s) (_ bv0 256)))))' % (o['out']['n'], A))
        else:
            g0 = (tag + '.isfezero', 'IsFEZero(a) = 1 iff all limbs are 0, else 0', '(assert (not (= n%d (ite (= (concat %s) (_ bv0 256)) (_ bv1 64) (_ bv0 64)))))' % (o['out']['n'], A))
        goals = [g0,
                 (tag + '.iszero', 'IsZero(u) = (u==0 ? 1 : 0) for every word', '(assert (not (= n%d (ite (= %s (_ bv0 64)) (_ bv1 64) (_ bv0 64)))))' % (o['isz']['n'], u)),
                 (tag + '.isnonzero', 'IsNonZero(u) = (u==0 ? 0 : 1) for every word', '(assert (not (= n%d (ite (= %s (_ bv0 64)) (_ bv0 64) (_ bv1 64)))))' % (o['isnz']['n'], u))]
        ck.prove_batch(pre, goals, timeout=30)
    elif kind == 'consts':
        def val(name):
            return unlimbs([int(r.nodes[i]['v']) for i in o[name]['f']]) if all(r.nodes[i]['op'] == 'const' for i in o[name]['f']) else None
        ck.ground(tag + '.one', 'SetOne = R mod m', val('one') == R % m)
        ck.ground(tag + '.from_one', 'FromMontgomery(SetOne) = 1 (kernel evaluated on the constant)', val('from_one') == 1)
        ck.ground(tag + '.from_zero', 'FromMontgomery(0) = 0', val('from_zero') == 0)
        ck.ground(tag + '.to_zero', 'ToMontgomery(0) = 0', val('to_zero') == 0)
        ck.ground(tag + '.to_one', 'ToMontgomery(1) = R mod m', val('to_one') == R % m)


def int_kernel(ck, pkg, kind, r, m, tier):
    tag = 'K.%s.%s' % (pkg, kind)
    if len(r.paths) != 1 or r.paths[0]['end'] != 'return':
        ck.ground(tag + '.paths', 'straight-line code: one path, no panic', False)
        return
    p = r.paths[0]
    ck.ground(tag + '.paths', 'straight-line code: one path, no panic', True)
    o = p['obs']
    outs = o['out']['f']
    for al in ('alias1', 'alias2'):
        if al in o:
            ck.ground(tag + '.' + al, 'output identical when out aliases an argument (same terms)', o[al]['f'] == outs)
    cone = set(r.cone(outs))
    conds = sorted({r.nodes[i]['a'][0] for i in cone if r.nodes[i]['op'] == 'app' and r.nodes[i]['n'] == 'cmovznz'
                    and r.nodes[r.nodes[i]['a'][0]]['op'] != 'const'})
    binary = kind in ('mul', 'add', 'sub')
    rng = random.Random(1234 + ck.seed)
    try:
        ok_all = True
        validated = 0
        for case_vals in itertools.product([0, 1], repeat=len(conds)):
            case = dict(zip(conds, case_vals))
            enc = IntEnc(r, case)
            oe = [enc.expr(x) for x in outs]
            for nm in ['a', 'b'] if binary else ['a']:
                for i in range(4):
                    enc.expr(varid(r, '%s%d' % (nm, i))) if varid(r, '%s%d' % (nm, i)) is not None else enc.var('v_%s%d' % (nm, i), 0, B - 1)
            A = value([{'v_a%d' % i: 1} for i in range(4)])
            Bv = value([{'v_b%d' % i: 1} for i in range(4)]) if binary else None
            O = value(oe)
            extra = []
            for c, v in case.items():
                extra.append(lin_add(enc.expr(c), {1: v}, -1))
            ctag = tag + '.case' + ''.join(map(str, case_vals))
            # --- lemmas: discarded low words are zero (sliced to their cone of influence)
            lem = []
            for key, pr in list(enc.pairs.items()):
                if key[0] != 'addc':
                    continue
                s, c, sid, cid = pr
                if sid in cone or cid not in cone:
                    continue
                idx, vs = enc.slice_for([s], depth=2)
                q = enc.decls(vs) + '\n' + enc.eq_smt(idx) + '\n(assert (not (= %s 0)))' % s
                res = smt.check(q, timeout=20)
                ck.record('%s.lemma.%s' % (ctag, s), 'discarded low word of a Montgomery round is 0 (needs m*m\' = -1 mod 2^64)', res.status, res.solver, res.secs, 'unsat', sample=q)
                if res.status == 'unsat':
                    lem.append({s: 1})
                else:
                    ok_all = False
            allextra = extra + lem
            # --- translator validation of the integer encoding on concrete inputs
            for t in range(12 if tier == 'quick' else 60):
                env = {}
                av, bv_ = rand_operand(rng, m, t), rand_operand(rng, m, t + 7)
                for i in range(4):
                    env['a%d' % i] = limbs(av)[i]
                    env['b%d' % i] = limbs(bv_)[i]
                try:
                    asg = enc.check_concrete(env)
                except AssertionError as e:
                    raise core.EngineError('integer encoding of %s disagrees with the word-level semantics: %s' % (tag, e))
                if asg is not None:
                    validated += 1
            # --- goal
            base = [enc.decls(), enc.eq_smt(), '\n'.join('(assert (= %s 0))' % lin_smt(e) for e in allextra),
                    '(assert (<= %s %d))' % (lin_smt(A), m - 1)]
            if binary:
                base.append('(assert (<= %s %d))' % (lin_smt(Bv), m - 1))
            canon = '(<= %s %d)' % (lin_smt(O), m - 1)
            lia_q = ck.extra.setdefault('_lia_q', {}).setdefault((pkg, kind), [])
            if kind in ('add', 'addself', 'sub', 'subself', 'opp'):
                if kind == 'add':
                    e = lin_add(A, Bv)
                elif kind == 'addself':
                    e = lin_scale(A, 2)
                elif kind == 'sub':
                    e = lin_add(A, Bv, -1)
                elif kind == 'subself':
                    e = {}
                else:
                    e = lin_scale(A, -1)
                goal = '(and %s (or (= %s %s) (= %s %s) (= %s %s)))' % (canon, lin_smt(O), lin_smt(e), lin_smt(O), lin_smt(lin_add(e, {1: m})),
                                                                       lin_smt(O), lin_smt(lin_add(e, {1: -m})))
                hint = 'no hint needed'
                lia_q.append('\n'.join(base) + '\n(assert (not %s))' % goal)
            else:
                if kind in ('mul', 'mulself', 'square'):
                    T = {}
                    bn = 'b' if kind == 'mul' else 'a'
                    for i in range(4):
                        for j in range(4):
                            pk = tuple(sorted(['v_a%d' % i, 'v_%s%d' % (bn, j)]))
                            if pk not in enc.P:
                                raise NotEncodable('product %s*%s never computed by the kernel' % pk)
                            T = lin_add(T, {enc.P[pk]: 1 << (64 * (i + j))})
                    base.append('(assert (<= %s %d))' % (lin_smt(T), (m - 1) ** 2))
                elif kind == 'from':
                    T = A
                else:
                    T = lin_scale(A, R * R % m)
                target = lin_add(lin_scale(O, R), T, -1)
                if not enc.P:
                    # no symbolic product: the integer encoding is EXACT, so a model of "encoding and not contract" is a real input (witness search only)
                    lia_q.append('\n'.join(base) + '\n(assert (not (and %s (= (mod %s %d) 0))))' % (canon, lin_smt(target), m))
                mu, residue, eqs = certificate(enc, target, m, allextra)
                rv = [v for v in residue if v != 1]
                wide = [v for v in rv if enc.rng[v][1] - enc.rng[v][0] > 3]
                if wide or len(rv) > 10:
                    ck.record(ctag + '.certificate', 'modular certificate out*R - T = m*J exists', 'sat', 'gauss', 0, 'unsat', kind='solver',
                              sample='residue on %s' % (wide or rv)[:6])
                    ok_all = False
                    continue
                disj = []
                for alpha in itertools.product(*[range(enc.rng[v][0], enc.rng[v][1] + 1) for v in rv]):
                    tot = residue.get(1, 0) + sum(residue[v] * a_ for v, a_ in zip(rv, alpha))
                    if tot % m:
                        continue
                    fix = {}
                    for v, a_ in zip(rv, alpha):
                        fix = lin_add(fix, {v: residue[v], 1: -residue[v] * a_})
                    J = exact_quotient(target, mu, eqs, fix, m)
                    if J is None:
                        continue
                    conj = ' '.join('(= %s %d)' % (v, a_) for v, a_ in zip(rv, alpha))
                    disj.append('(and %s (= %s (* %d %s)))' % (conj, lin_smt(target), m, lin_smt(J)))
                if not disj:
                    ck.record(ctag + '.certificate', 'modular certificate out*R - T = m*J exists', 'sat', 'gauss', 0, 'unsat', kind='solver', sample='no admissible carry assignment')
                    ok_all = False
                    continue
                goal = '(and %s (or %s))' % (canon, ' '.join(disj)) if len(disj) > 1 else '(and %s %s)' % (canon, disj[0])
                hint = 'certificate over GF(m): %d multipliers, residue on %s, %d admissible carry assignments' % (len(mu), rv, len(disj))
            q = '\n'.join(base) + '\n(assert (not %s))' % goal
            res = smt.check(q, timeout=150 if tier == 'quick' else 400)
            desc = {'mul': 'Mul: out < m and out*R = a*b (mod m)', 'mulself': 'Mul(a,a): out < m and out*R = a*a (mod m)',
                    'square': 'Square: out < m and out*R = a*a (mod m)', 'from': 'FromMontgomery: out < m and out*R = a (mod m)',
                    'to': 'ToMontgomery: out < m and out = a*R (mod m)', 'add': 'Add: out = a+b mod m, canonical', 'addself': 'Add(a,a) = 2a mod m',
                    'sub': 'Sub: out = a-b mod m, canonical', 'subself': 'Sub(a,a) = 0', 'opp': 'Opp: out = -a mod m, canonical'}[kind]
            ck.record(ctag + '.contract', desc + ' [' + hint + ']', res.status, res.solver, res.secs, 'unsat', sample=q[-1200:])
            if res.status != 'unsat':
                ok_all = False
        ck.extra['validated'] = ck.extra.get('validated', 0) + validated
    except NotEncodable as e:
        ck.record(tag + '.encode', 'kernel fits the linear-integer fragment', 'sat', 'symx', 0, 'unsat', sample=str(e))
        ok_all = False
    if not ok_all:
        find_kernel_cex(ck, pkg, kind, r, m, outs)
    # translator validation: outputs of the DAG (exact word semantics as symx emitted them) on concrete
    # inputs, to be compared with the real function by a native run (see validate_translation)
    apps = {'cmovznz': lambda c_, x, y: x if c_ == 0 else y}
    for t in range(6 if tier == 'quick' else 40):
        av, bv_ = rand_operand(rng, m, t * 3 + 1), rand_operand(rng, m, t * 5 + 2)
        env = {}
        for i in range(4):
            env['a%d' % i] = limbs(av)[i]
            env['b%d' % i] = limbs(bv_)[i]
        ev = Eval(r, env, apps)
        _tv_cases.setdefault(pkg, []).append({'kind': 'kernel-expect', 'op': kind, 'a': '%064x' % av, 'b': '%064x' % bv_, 'c': '%064x' % unlimbs([ev.ev(x) for x in outs])})


def modsqrt(a, m):
    """a square root of a modulo the prime m (Tonelli-Shanks), or None"""
    a %= m
    if a == 0:
        return 0
    if pow(a, (m - 1) // 2, m) != 1:
        return None
    if m % 4 == 3:
        return pow(a, (m + 1) // 4, m)
    q, s_ = m - 1, 0
    while q % 2 == 0:
        q //= 2
        s_ += 1
    z = 2
    while pow(z, (m - 1) // 2, m) != m - 1:
        z += 1
    c, x, t, k = pow(z, q, m), pow(a, (q + 1) // 2, m), pow(a, q, m), s_
    while t != 1:
        i, t2 = 0, t
        while t2 != 1:
            t2 = t2 * t2 % m
            i += 1
        b = pow(c, 1 << (k - i - 1), m)
        x, c, t, k = x * b % m, b * b % m, t * b * b % m, i
    return x


def rand_operand(rng, m, t):
    pats = [0, 1, m - 1, m - 2, 2**64 - 1, 2**64, 2**128 - 1, 2**192, (m - 1) // 2, R % m, (R * R) % m, 2**255 % m]
    if t < len(pats):
        return pats[t] % m
    if t % 3 == 0:
        ls = [rng.choice([0, 1, 2**64 - 1, 2**63, rng.getrandbits(64)]) for _ in range(4)]
        return unlimbs(ls) % m
    return rng.randrange(m)


def find_kernel_cex(ck, pkg, kind, r, m, outs):
    """The proof failed: look for a concrete witness by evaluating the (exact, word-level) DAG of the current
    code on steered, boundary and seeded inputs; a hit is confirmed by replay on the real build."""
    rng = random.Random(99 + ck.seed)
    cands = []
    Ri = pow(R, -1, m)
    # steering for multiplicative kernels: operands whose pre-subtraction value hits the corners
    c0_ = R % m
    corners = [m - 1, m, m + 1, R - 1, R % (2 * m), 2 * m - 1, m + 2**64, m + 2**128, m + 2**192]
    # results whose pre-subtraction value lies just above 2^256 (value - m = c + d) or has only a high limb on top of a tiny low part
    corners += [c0_ + d for d in (0, 1, 2, 2**64, 2**128, 2**192, 2**192 + 1)] + [k_ * 2**192 + c_ for k_ in (1, 2, 2**63) for c_ in (0, 1, c0_ - 1)] + [1, 2, c0_ - 1]
    for V in corners:
        for b in [R % m, 2, m - 1, rng.randrange(1, m)]:
            a = V % m * R % m * pow(b, -1, m) % m
            cands.append((a, b))
        # squarings: a with a*a/R = V, when V*R is a square (p = 3 mod 4; for the scalar field by Tonelli-Shanks)
        t_ = V % m * R % m
        if pow(t_, (m - 1) // 2, m) == 1:
            ra = modsqrt(t_, m)
            if ra is not None:
                cands.append((ra, ra))
                cands.append((m - ra, m - ra))
    # additive kernels: sums / differences at the modulus and at the word size
    for S_ in [m - 1, m, m + 1, m + c0_ - 1, m + c0_, 2**256 - 2, 2**256 - 1, 2**256, 2**256 + 1, 2 * m - 2, 2**255, 2**192, 2**64]:
        for a_ in (S_ // 2, m - 1, m - 2, S_ - (m - 1), 1, 0):
            b_ = S_ - a_
            if 0 <= a_ < m and 0 <= b_ < m:
                cands.append((a_, b_))
                cands.append((b_, a_))
    for a_, b_ in ((0, 1), (0, m - 1), (1, 2), (m - 2, m - 1), (5, 5), (0, 0), (m - 1, 0), (1, 0), (2**64, 2**64 + 1), (2**192, 2**192 + 2**64)):
        cands.append((a_, b_))
    # conversions and other unary kernels: operands whose image under x -> x*R^e (e = -2..2) is tiny or sits at a word boundary, so that the
    # value before the final conditional subtraction lies just above / below m or 2^256
    c_ = R % m
    small = [0, 1, 2, 3, c_ - 1, c_, c_ + 1, c_ + 2, 2 * c_, 2**32, 2**40, 2**62, 2**63, 2**64 - 1, 2**64, 2**64 + c_, 2**128, 2**192, m - 1, m - c_, m - c_ - 1]
    for e_ in (-1, 1, -2, 2):
        f_ = pow(R, e_, m)
        for v in small:
            cands.append((v % m * f_ % m, rng.randrange(1, m)))
    for t in range(40):
        cands.append((rand_operand(rng, m, t), rand_operand(rng, m, (t * 5 + 3) % 40)))
    for t in range(3000):
        cands.append((rand_operand(rng, m, 100 + t), rand_operand(rng, m, 200 + t)))
    apps = {'cmovznz': lambda c, x, y: x if c == 0 else y}
    def exposed(a_, b_):
        env_ = {}
        for i_ in range(4):
            env_['a%d' % i_] = limbs(a_)[i_]
            env_['b%d' % i_] = limbs(b_)[i_]
        got_ = unlimbs([Eval(r, env_, apps).ev(x_) for x_ in outs])
        return ('%s.%s' % (pkg, kind.replace('self', ''))) if got_ % m != ref(kind, a_, b_, m) % m else None
    hits = []
    wrong_value = [False]
    for a, b in cands:
        env = {}
        for i in range(4):
            env['a%d' % i] = limbs(a)[i]
            env['b%d' % i] = limbs(b)[i]
        ev = Eval(r, env, apps)
        got = unlimbs([ev.ev(x) for x in outs])
        if got != ref(kind, a, b, m):
            hits.append((a, b))
            if got % m != ref(kind, a, b, m) % m:
                wrong_value[0] = True      # not merely an unreduced representative of the right residue
            if len(hits) >= 12:
                break
    def report_hits(hits):
        a, b = hits[0]
        path = ck.save_replay({'property': ck.pid, 'pkg': pkg, 'cases': [{'kind': 'kernel', 'op': kind, 'a': '%064x' % a_, 'b': '%064x' % b_} for a_, b_ in hits[:4]]})
        ok, out = core.go_test(path, pkg=pkg)
        if not ok and 'MISMATCH' in out:
            # every failing operand is handed on: an embedding check turns them into inputs of its own property
            wit = [w_ for a_, b_ in hits for w_ in ((a_, b_) if kind in ('mul', 'add', 'sub') else (a_,))]
            ck.dep_violation(pkg, 'kernel:%s.%s' % (pkg, kind), 'internal/%s kernel %s computes a %s: %s' % (
                pkg, kind, 'wrong value' if wrong_value[0] else 'non-canonical representative of the right value', [l.strip() for l in out.splitlines() if 'MISMATCH' in l][:1]), path, wit,
                             exposed_as=('%s.%s' % (pkg, kind.replace('self', ''))) if wrong_value[0] else None)
            return
        ck.inconclusive.append('kernel %s.%s: DAG evaluation disagrees with reference but replay passes (translator problem)' % (pkg, kind))
    if hits:
        return report_hits(hits)
    # stage 1.3: lost carries.  Every plain (wrapping) 64-bit addition / subtraction in the kernel's word-level DAG is a place where
    # a carry or borrow can be dropped; the Fiat code only has such operations where the wrap is impossible.  For each of them the
    # solver is asked (QF_BV, only the cone of that one operation, all three solvers raced, operations in parallel) for an in-range
    # operand on which it wraps; a model is evaluated on the whole DAG and kept when the kernel's output then differs from the
    # reference value.  The cone of an early carry contains a handful of multiplications by constants, which bit-blasting inverts
    # in seconds, where the differential query over the whole kernel (stage 2) does not finish.
    try:
        cone_ = BVLower(r).cone(outs)
        wraps = [i_ for i_ in cone_ if r.nodes[i_]['op'] in ('add', 'sub') and r.nodes[i_].get('w') == 64 and
                 not all(r.nodes[x_]['op'] == 'const' for x_ in r.nodes[i_]['a'])][:16]
        def wrap_query(i_):
            n_ = r.nodes[i_]
            low = BVLower(r)
            opv = {v: [varid(r, '%s%d' % (v, j_)) for j_ in range(4)] for v in 'ab'}
            low.emit(list(n_['a']))
            used = [v for v in 'ab' if any(x_ is not None and x_ in low.done for x_ in opv[v])]
            low.emit([x_ for v in used for x_ in opv[v] if x_ is not None])
            q = low.all()
            for v in used:
                if all(x_ is not None for x_ in opv[v]):
                    q += '\n(assert (bvult (concat %s) %s))' % (' '.join('n%d' % x_ for x_ in reversed(opv[v])), bvconst256(m))
            x_, y_ = [low.name(t_) for t_ in n_['a']]
            def is_bit(t_):
                nn_ = r.nodes[t_]
                if nn_['op'] in ('addc_c', 'subb_b'):
                    return True
                return nn_['op'] == 'lshr' and r.nodes[nn_['a'][1]]['op'] == 'const' and Eval(r, {}, apps).ev(nn_['a'][1]) == 63
            xi_, yi_ = n_['a']
            if n_['op'] == 'add' and (is_bit(xi_) or is_bit(yi_)):
                # word + carry bit wraps exactly when the word is all ones and the bit is set (the form the solvers invert fastest)
                wd_, bt_ = (x_, y_) if is_bit(yi_) else (y_, x_)
                q += '\n(assert (= %s #xffffffffffffffff))\n(assert (= %s (_ bv1 64)))' % (wd_, bt_)
            elif n_['op'] == 'add':
                q += '\n(assert (bvult (bvadd %s %s) %s))' % (x_, y_, x_)
            else:
                q += '\n(assert (bvult %s %s))' % (x_, y_)
            names = [low.name(t_) for t_ in low.done if r.nodes[t_]['op'] == 'var']
            if os.environ.get('VERIF_DUMP_WRAP'):
                open(os.path.join(os.environ['VERIF_DUMP_WRAP'], 'wrap_%s_%s_%d.smt2' % (pkg, kind, i_)), 'w').write(q + '\n(check-sat)\n')
            mm, slv = smt.get_model(q, names, timeout=100 if ck.tier == 'quick' else 400)
            return i_, mm, slv
        found = []
        if wraps:
            from concurrent.futures import ThreadPoolExecutor
            with ThreadPoolExecutor(max_workers=4) as ex_:
                for i_, mm, slv in ex_.map(wrap_query, wraps):
                    ck.record('K.%s.%s.wrap%d' % (pkg, kind, i_), 'lost-carry witness search: can the plain 64-bit %s at DAG node %d wrap for an in-range operand (QF_BV over its cone): %s' % (
                        r.nodes[i_]['op'], i_, 'model found by ' + str(slv) if mm else 'no model (unsat or time limit)'), 'sat' if mm else 'unknown', slv, 0.0, 'sat' if mm else 'unknown')
                    if mm:
                        vals = {r.nodes[int(k_[1:])]['n']: v_ for k_, v_ in mm.items()}
                        a = unlimbs([vals.get('a%d' % j_, 0) for j_ in range(4)])
                        b = unlimbs([vals.get('b%d' % j_, 0) for j_ in range(4)])
                        if not (a < m and b < m):
                            continue
                        env = {}
                        for j_ in range(4):
                            env['a%d' % j_] = limbs(a)[j_]
                            env['b%d' % j_] = limbs(b)[j_]
                        got = unlimbs([Eval(r, env, apps).ev(x_) for x_ in outs])
                        if got != ref(kind, a, b, m):
                            found.append((a, b))
                            if got % m != ref(kind, a, b, m) % m:
                                wrong_value[0] = True
        if found:
            return report_hits(found)
    except (ValueError, KeyError) as e:
        ck.notes.append('lost-carry search for %s.%s not possible: %s' % (pkg, kind, str(e)[:200]))
    # stage 1.5: kernels without symbolic products (FromMontgomery, ToMontgomery, Add, Sub, Opp) have an exact linear-integer encoding:
    # a model of "encoding and not contract" is a real input
    for qi, q in enumerate(ck.extra.get('_lia_q', {}).get((pkg, kind), [])):
        names = ['v_a%d' % i for i in range(4)] + (['v_b%d' % i for i in range(4)] if '(declare-const v_b0 ' in q else [])
        mm, slv = smt.get_model(q, names, timeout=60 if ck.tier == 'quick' else 900)
        ck.record('K.%s.%s.lia%d' % (pkg, kind, qi), 'witness search in the exact linear-integer encoding: %s' % ('model found by ' + str(slv) if mm else 'no model within the time limit'),
                  'sat' if mm else 'unknown', slv, 0.0, 'sat' if mm else 'unknown', sample=q[-400:])
        if mm:
            a = unlimbs([mm.get('v_a%d' % i, 0) for i in range(4)])
            b = unlimbs([mm.get('v_b%d' % i, 0) for i in range(4)])
            path = ck.save_replay({'property': ck.pid, 'pkg': pkg, 'cases': [{'kind': 'kernel', 'op': kind, 'a': '%064x' % a, 'b': '%064x' % b}]})
            ok, out = core.go_test(path, pkg=pkg)
            if not ok and 'MISMATCH' in out:
                ck.dep_violation(pkg, 'kernel:%s.%s' % (pkg, kind), 'internal/%s kernel %s violates its contract: %s' % (pkg, kind, [l.strip() for l in out.splitlines() if 'MISMATCH' in l][:1]), path, [a, b], exposed_as=exposed(a, b))
                return
    # stage 2: differential search in QF_BV against the reference copy of the kernel (harness/<pkg>_refkernels.go, the pinned
    # Fiat code, itself proved against the contract): the solver is asked for inputs on which the two differ
    DK = {'mul': 0, 'mulself': 0, 'square': 1, 'add': 2, 'addself': 2, 'sub': 3, 'subself': 3, 'opp': 4, 'from': 5, 'to': 6}
    try:
        rd = core.symx([pkg + '_intrinsics.go', pkg + '_kernels.go', pkg + '_refkernels.go'], [{'id': 'diff', 'harness': 'vh_diff', 'args': [DK[kind]]}], pkg=pkg)[0]
        if not rd.error and len(rd.paths) == 1:
            od = rd.paths[0]['obs']
            low = BVLower(rd)
            low.emit(od['out']['f'] + od['ref']['f'])
            names = [low.name(x) for x in low.done if rd.nodes[x]['op'] == 'var']
            q = low.all()
            for v in 'ab':
                ids = [varid(rd, '%s%d' % (v, i)) for i in range(4)]
                if all(i is not None and i in low.done for i in ids):
                    q += '\n(assert (bvult (concat %s) %s))' % (' '.join('n%d' % i for i in reversed(ids)), bvconst256(m))
            q += '\n(assert (not (= (concat %s) (concat %s))))' % (' '.join('n%d' % x for x in reversed(od['out']['f'])), ' '.join('n%d' % x for x in reversed(od['ref']['f'])))
            mm, slv = smt.get_model(q, names, timeout=60 if ck.tier == 'quick' else 900)
            ck.record('K.%s.%s.diff' % (pkg, kind), 'differential witness search against the reference kernel (QF_BV): %s' % ('model found by ' + str(slv) if mm else 'no model within the time limit'),
                      'sat' if mm else 'unknown', slv, 0.0, 'sat' if mm else 'unknown', sample=q[-600:])
            if mm:
                vals = {rd.nodes[int(k_[1:])]['n']: v_ for k_, v_ in mm.items()}
                a = unlimbs([vals.get('a%d' % i, 0) for i in range(4)])
                b = unlimbs([vals.get('b%d' % i, 0) for i in range(4)])
                path = ck.save_replay({'property': ck.pid, 'pkg': pkg, 'cases': [{'kind': 'kernel', 'op': kind, 'a': '%064x' % a, 'b': '%064x' % b}]})
                ok, out = core.go_test(path, pkg=pkg)
                if not ok and 'MISMATCH' in out:
                    ck.dep_violation(pkg, 'kernel:%s.%s' % (pkg, kind), 'internal/%s kernel %s differs from its proved reference: %s' % (pkg, kind, [l.strip() for l in out.splitlines() if 'MISMATCH' in l][:1]), path, [a, b], exposed_as=exposed(a, b))
                    return
    except (core.EngineError, ValueError, KeyError) as e:
        ck.notes.append('differential search for %s.%s not possible: %s' % (pkg, kind, str(e)[:200]))
    ck.inconclusive.append('kernel %s.%s: contract not proved and no concrete witness found' % (pkg, kind))


def validate_translation(ck, pkg):
    """runs the real kernels natively on the inputs for which the symx DAG was evaluated; any disagreement is a
    bug in the executor (broken check, exit 2), never a property violation"""
    cases = _tv_cases.pop(pkg, [])
    if not cases:
        return
    path = ck.save_replay({'property': ck.pid, 'pkg': pkg, 'purpose': 'translator validation', 'cases': cases})
    ok, out = core.go_test(path, pkg=pkg)
    ck.extra['validated'] = ck.extra.get('validated', 0) + (len(cases) if ok else 0)
    if not ok:
        raise core.EngineError('symx translation of internal/%s kernels disagrees with the native build: %s' % (pkg, out[-400:]))
