"""Function-entry instrumentation of internal/field for the C19 replay: rewritten copies of the source
files (a trace call inserted at every function entry) are put in a scratch directory and mapped over
the real files with `go test -overlay`; nothing under /repo is touched."""
import os, re, shutil, tempfile
from . import core

FUNC = re.compile(r'^func\s+(\((\w+)\s+\*?(\w+)\)\s+)?(\w+)\s*\(.*\{\s*$')


def instrument_field():
    work = os.path.join(core.VERIF, 'work')
    os.makedirs(work, exist_ok=True)
    d = tempfile.mkdtemp(prefix='instr_', dir=work)
    src = os.path.join(core.REPO, 'internal', 'field')
    ov = {}
    n = 0
    for fn in sorted(os.listdir(src)):
        if not fn.endswith('.go') or fn.endswith('_test.go'):
            continue
        out, depth_comment = [], False
        for line in open(os.path.join(src, fn)).read().split('\n'):
            if '/*' in line and '*/' not in line:
                depth_comment = True
            if '*/' in line:
                depth_comment = False
                out.append(line)
                continue
            out.append(line)
            m = FUNC.match(line)
            if m and not depth_comment:
                name = (m.group(3) + '.' if m.group(3) else '') + m.group(4)
                out.append('\tvTraceHit("%s")' % name)
                n += 1
        p = os.path.join(d, fn)
        open(p, 'w').write('\n'.join(out))
        ov[os.path.join(src, fn)] = p
    return d, ov, n


def cleanup(d):
    shutil.rmtree(d, ignore_errors=True)
