import importlib, os, sys, traceback
from . import core


def main():
    if len(sys.argv) < 3:
        print('usage: check <property> quick|thorough | check <property> --replay <path>')
        return 2
    pid = sys.argv[1]
    sys.path.insert(0, core.VERIF)
    mod = importlib.import_module('props.' + pid)
    if sys.argv[2] == '--replay':
        return mod.replay(sys.argv[3])
    tier = sys.argv[2]
    if os.environ.get('VERIF_TIER'):
        tier = os.environ['VERIF_TIER']
    seed = int(os.environ.get('VERIF_SEED', '0') or 0)
    if tier == 'thorough':
        from . import smt
        smt.CONFIRM_WAIT = 4.0
    try:
        return mod.run(tier, seed)
    except (core.EngineError, ValueError, KeyError, IndexError, AssertionError) as e:
        # (KeyError/IndexError: the term graph of a restructured tree lacks an observation the check expects)
        if not isinstance(e, (core.EngineError, ValueError)):
            traceback.print_exc()
            e = '%s: %s (unexpected shape of the executor output)' % (type(e).__name__, e)
        # the executor (or the lowering of its term graph) cannot encode the current tree: run the property's replay battery as a safety net
        try:
            from props import fallback
            return fallback.run(pid, tier, seed, str(e)[:600])
        except Exception:
            traceback.print_exc()
            print('ENGINE-ERROR: %s' % e)
            return 2
    except Exception:
        traceback.print_exc()
        return 2


if __name__ == '__main__':
    sys.exit(main())
