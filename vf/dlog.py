"""DLog interpretation: an Element is an integer multiple of an abstract base point.  Element-level
operations are replaced by their C02 contracts (Add = group sum, Double = doubling, copy/set =
same point, newElement = identity); bytes/words stay bit-vectors."""
from .dag import BVLower
from .params import *

E = '(*' + MOD + '.Element).'
ELEMENT_SUMM = [
    # the formula functions themselves, should the ladder call them directly (same contract: what C02 proves about Add / Double)
    {'fn': E + 'addProjectiveComplete', 'op': 'padd', 'params': ['out', 'in', 'in'], 'results': ['p0']},
    {'fn': E + 'doubleProjectiveComplete', 'op': 'pdbl', 'params': ['out', 'in'], 'results': ['p0']},
    {'fn': E + 'Add', 'op': 'padd', 'params': ['inout', 'in'], 'results': ['p0']},
    {'fn': E + 'Double', 'op': 'pdbl', 'params': ['inout'], 'results': ['p0']},
    {'fn': E + 'copy', 'op': 'pcopy', 'params': ['in'], 'results': ['new']},
    {'fn': E + 'set', 'op': 'pset', 'params': ['out', 'in'], 'results': ['p0']},
    {'fn': MOD + '.newElement', 'op': 'pzero', 'params': [], 'results': ['new']},
]
IDENTITY_LIMBS = [0, 0, 0, 0] + limbs(R % P) + [0, 0, 0, 0]


class DLogLower(BVLower):
    def __init__(self, run, prefix='n'):
        super().__init__(run, prefix)
        self.points = {}

    def sort_of(self, i):
        n = self.run.nodes[i]
        if n['w'] == -1:
            if n['op'] == 'pack' and len(n['a']) == 4 and all(self.run.nodes[x]['w'] == 64 for x in n['a']) and not self._is_point_part(n):
                return '(_ BitVec 256)'
            if n['op'] == 'app' and n['n'] in ('sfrom', 'sto', 'smul', 'sadd', 'ssub', 'ssq'):
                return '(_ BitVec 256)'
            return 'Int'
        return super().sort_of(i)

    def width(self, i):
        n = self.run.nodes[i]
        if n['w'] == -1 and self.sort_of(i) == '(_ BitVec 256)':
            return 256
        return super().width(i)

    def _is_point_part(self, n):
        return False

    def point_var(self, name):
        if name not in self.points:
            self.points[name] = True
            self.lines.append('(declare-const %s Int)' % name)
        return name

    def body(self, i, n):
        op, a = n['op'], n['a']
        A = [self.name(x) for x in a]
        if op == 'pack' and len(a) == 12:
            kids = [self.run.nodes[x] for x in a]
            if all(k['op'] == 'const' for k in kids):
                if [int(k['v']) for k in kids] == IDENTITY_LIMBS:
                    return [], '0'
                raise ValueError('DLog: constant element other than the identity')
            if all(k['op'] == 'var' for k in kids):
                names = [k['n'] for k in kids]
                if names[0].startswith('hv'):
                    obj = names[0].split('_')[0]
                    if names == ['%s_%d' % (obj, j) for j in range(12)]:
                        pre = []
                        nm = 'dl_' + obj
                        if nm not in self.points:
                            self.points[nm] = True
                            pre.append('(declare-const %s Int)' % nm)
                        return pre, nm
                pfx = names[0][:-2]
                if names == [pfx + c + str(j) for c in 'xyz' for j in range(4)]:
                    pre = []
                    nm = 'dl_' + pfx
                    if nm not in self.points:
                        self.points[nm] = True
                        pre.append('(declare-const %s Int)' % nm)
                    return pre, nm
            raise ValueError('DLog: element assembled from parts (node %d)' % i)
        if op == 'limb' and self.run.nodes[a[0]]['w'] == -1 and self.sort_of(a[0]) == 'Int':
            return [], None
        if op == 'app' and n['w'] == -1:
            nm = n['n']
            if nm == 'padd':
                return [], '(+ %s %s)' % (A[0], A[1])
            if nm == 'pdbl':
                return [], '(* 2 %s)' % A[0]
            if nm in ('pcopy', 'pset'):
                return [], A[-1]
            if nm == 'pzero':
                return [], '0'
        return super().body(i, n)


def ladder_orientation(harness_files, summaries):
    """direction of the ladder's loop counter, read from the code: ('down', 255, -1) for `for i := 255; i >= 0; i--`, ('up', 0, 256) for a
    loop that counts 0..255 and indexes the bits from the top.  (entry value of the only integer phi of the loop header; the per-iteration
    obligations then use bit 255 - counter for an ascending loop)"""
    from . import core
    from .params import MOD
    try:
        r = core.symx(harness_files, [{'id': 'orient', 'harness': 'vh_multiply', 'summaries': summaries, 'cut': {'fn': '(*' + MOD + '.Element).multiply', 'loop': 0, 'mode': 'havoc', 'phis': {}}}])[0]
        for p in r.paths:
            ph = p['obs'].get('cut:phis') or {}
            for name, v in ph.items():
                n = r.nodes[v['entry']]
                if n['op'] == 'const':
                    val = int(n['v'])
                    if val == 0:
                        return ('up', 0, 256, name)
                    if val == 255:
                        return ('down', 255, -1, name)
    except Exception:
        pass
    return ('down', 255, -1, 'i')
