package main

// Term DAG shared by one run.  Nodes are hash-consed and constant-folded so
// that everything concrete in the Go code (loop counters, lengths, Fiat
// constants) stays concrete and only genuinely symbolic data reaches the solver.

import (
	"fmt"
	"math/big"
	"strings"
)

// W > 0: bit-vector of that width; W == 0: Bool; W == -1: abstract value (pack/app).
type Node struct {
	ID   int      `json:"id"`
	Op   string   `json:"op"`
	Args []int    `json:"a,omitempty"`
	W    int      `json:"w"`
	Val  *big.Int `json:"-"`
	VS   string   `json:"v,omitempty"` // decimal constant
	Name string   `json:"n,omitempty"`
	Idx  int      `json:"i,omitempty"`
	N    int      `json:"k,omitempty"`
}

type DAG struct {
	nodes []*Node
	index map[string]*Node
}

func newDAG() *DAG { return &DAG{index: map[string]*Node{}} }

func (d *DAG) key(op string, w int, name string, idx, n int, val *big.Int, args []*Node) string {
	var sb strings.Builder
	fmt.Fprintf(&sb, "%s|%d|%s|%d|%d|", op, w, name, idx, n)
	if val != nil {
		sb.WriteString(val.String())
	}
	for _, a := range args {
		fmt.Fprintf(&sb, ",%d", a.ID)
	}
	return sb.String()
}

func (d *DAG) mk(op string, w int, name string, idx, n int, val *big.Int, args ...*Node) *Node {
	k := d.key(op, w, name, idx, n, val, args)
	if x, ok := d.index[k]; ok {
		return x
	}
	x := &Node{ID: len(d.nodes), Op: op, W: w, Name: name, Idx: idx, N: n, Val: val}
	if val != nil {
		x.VS = val.String()
	}
	for _, a := range args {
		x.Args = append(x.Args, a.ID)
	}
	d.nodes = append(d.nodes, x)
	d.index[k] = x
	return x
}

func (d *DAG) get(id int) *Node { return d.nodes[id] }

func mask(w int) *big.Int {
	m := new(big.Int).Lsh(big.NewInt(1), uint(w))
	return m.Sub(m, big.NewInt(1))
}

func (d *DAG) Const(w int, v *big.Int) *Node {
	x := new(big.Int).Set(v)
	if w > 0 {
		x.And(x, mask(w)) // two's complement wrap (big.Int And on negatives is two's complement)
	}
	return d.mk("const", w, "", 0, 0, x)
}
func (d *DAG) ConstI(w int, v int64) *Node  { return d.Const(w, big.NewInt(v)) }
func (d *DAG) ConstU(w int, v uint64) *Node { return d.Const(w, new(big.Int).SetUint64(v)) }
func (d *DAG) Bool(b bool) *Node {
	if b {
		return d.mk("const", 0, "", 0, 0, big.NewInt(1))
	}
	return d.mk("const", 0, "", 0, 0, big.NewInt(0))
}
func (d *DAG) Var(name string, w int) *Node { return d.mk("var", w, name, 0, 0, nil) }

func (n *Node) IsConst() bool { return n.Op == "const" }
func (n *Node) IsTrue() bool  { return n.Op == "const" && n.W == 0 && n.Val.Sign() != 0 }
func (n *Node) IsFalse() bool { return n.Op == "const" && n.W == 0 && n.Val.Sign() == 0 }

func signed(v *big.Int, w int) *big.Int {
	x := new(big.Int).Set(v)
	if x.Bit(w-1) == 1 {
		x.Sub(x, new(big.Int).Lsh(big.NewInt(1), uint(w)))
	}
	return x
}

// Bin builds a binary bit-vector operation of width a.W.
func (d *DAG) Bin(op string, a, b *Node) *Node {
	w := a.W
	if a.W != b.W {
		panic(fmt.Sprintf("width mismatch %s %d %d", op, a.W, b.W))
	}
	if a.IsConst() && b.IsConst() {
		x, y := a.Val, b.Val
		r := new(big.Int)
		switch op {
		case "add":
			r.Add(x, y)
		case "sub":
			r.Sub(x, y)
		case "mul":
			r.Mul(x, y)
		case "and":
			r.And(x, y)
		case "or":
			r.Or(x, y)
		case "xor":
			r.Xor(x, y)
		case "andnot":
			r.AndNot(x, y)
		case "shl":
			if y.Cmp(big.NewInt(int64(w))) >= 0 {
				r.SetInt64(0)
			} else {
				r.Lsh(x, uint(y.Uint64()))
			}
		case "lshr":
			if y.Cmp(big.NewInt(int64(w))) >= 0 {
				r.SetInt64(0)
			} else {
				r.Rsh(x, uint(y.Uint64()))
			}
		case "ashr":
			sx := signed(x, w)
			if y.Cmp(big.NewInt(int64(w))) >= 0 {
				if sx.Sign() < 0 {
					r.SetInt64(-1)
				}
			} else {
				r.Rsh(sx, uint(y.Uint64()))
			}
		case "udiv":
			if y.Sign() == 0 {
				return d.mk(op, w, "", 0, 0, nil, a, b)
			}
			r.Quo(x, y)
		case "urem":
			if y.Sign() == 0 {
				return d.mk(op, w, "", 0, 0, nil, a, b)
			}
			r.Rem(x, y)
		case "sdiv":
			if y.Sign() == 0 {
				return d.mk(op, w, "", 0, 0, nil, a, b)
			}
			r.Quo(signed(x, w), signed(y, w))
		case "srem":
			if y.Sign() == 0 {
				return d.mk(op, w, "", 0, 0, nil, a, b)
			}
			r.Rem(signed(x, w), signed(y, w))
		default:
			panic("fold " + op)
		}
		return d.Const(w, r)
	}
	// light simplifications
	zero := func(n *Node) bool { return n.IsConst() && n.Val.Sign() == 0 }
	ones := func(n *Node) bool { return n.IsConst() && n.Val.Cmp(mask(w)) == 0 }
	switch op {
	case "add", "or", "xor":
		if zero(a) {
			return b
		}
		if zero(b) {
			return a
		}
		if op == "xor" && a == b {
			return d.ConstI(w, 0)
		}
		if op == "or" && a == b {
			return a
		}
	case "sub", "shl", "lshr", "ashr":
		if zero(b) {
			return a
		}
		if op == "sub" && a == b {
			return d.ConstI(w, 0)
		}
	case "and":
		if zero(a) || zero(b) {
			return d.ConstI(w, 0)
		}
		if ones(a) {
			return b
		}
		if ones(b) {
			return a
		}
		if a == b {
			return a
		}
	case "mul":
		if zero(a) || zero(b) {
			return d.ConstI(w, 0)
		}
		if a.IsConst() && a.Val.Cmp(big.NewInt(1)) == 0 {
			return b
		}
		if b.IsConst() && b.Val.Cmp(big.NewInt(1)) == 0 {
			return a
		}
	case "andnot":
		return d.Bin("and", a, d.Un("not", b))
	}
	if (op == "add" || op == "mul" || op == "and" || op == "or" || op == "xor") && a.ID > b.ID {
		a, b = b, a
	}
	return d.mk(op, w, "", 0, 0, nil, a, b)
}

func (d *DAG) Un(op string, a *Node) *Node {
	if a.IsConst() {
		r := new(big.Int)
		switch op {
		case "not":
			r.Xor(a.Val, mask(a.W))
		case "neg":
			r.Neg(a.Val)
		}
		return d.Const(a.W, r)
	}
	return d.mk(op, a.W, "", 0, 0, nil, a)
}

// Cmp builds a Bool from a comparison of two equal-width vectors (or two Bools for eq).
func (d *DAG) Cmp(op string, a, b *Node) *Node {
	if a.W != b.W {
		panic(fmt.Sprintf("cmp width mismatch %s %d %d", op, a.W, b.W))
	}
	if a.IsConst() && b.IsConst() {
		var r bool
		switch op {
		case "eq":
			r = a.Val.Cmp(b.Val) == 0
		case "ult":
			r = a.Val.Cmp(b.Val) < 0
		case "ule":
			r = a.Val.Cmp(b.Val) <= 0
		case "slt":
			r = signed(a.Val, a.W).Cmp(signed(b.Val, b.W)) < 0
		case "sle":
			r = signed(a.Val, a.W).Cmp(signed(b.Val, b.W)) <= 0
		}
		return d.Bool(r)
	}
	if op == "eq" {
		if a == b {
			return d.Bool(true)
		}
		if a.ID > b.ID {
			a, b = b, a
		}
	}
	return d.mk(op, 0, "", 0, 0, nil, a, b)
}

func (d *DAG) BNot(a *Node) *Node {
	if a.IsConst() {
		return d.Bool(a.Val.Sign() == 0)
	}
	if a.Op == "bnot" {
		return d.get(a.Args[0])
	}
	return d.mk("bnot", 0, "", 0, 0, nil, a)
}
func (d *DAG) BAnd(a, b *Node) *Node {
	if a.IsFalse() || b.IsFalse() {
		return d.Bool(false)
	}
	if a.IsTrue() {
		return b
	}
	if b.IsTrue() {
		return a
	}
	return d.mk("band", 0, "", 0, 0, nil, a, b)
}
func (d *DAG) BOr(a, b *Node) *Node {
	if a.IsTrue() || b.IsTrue() {
		return d.Bool(true)
	}
	if a.IsFalse() {
		return b
	}
	if b.IsFalse() {
		return a
	}
	return d.mk("bor", 0, "", 0, 0, nil, a, b)
}

func (d *DAG) Ite(c, a, b *Node) *Node {
	if c.IsTrue() {
		return a
	}
	if c.IsFalse() {
		return b
	}
	if a == b {
		return a
	}
	return d.mk("ite", a.W, "", 0, 0, nil, c, a, b)
}

// Resize converts a to width w (zero- or sign-extending, or truncating).
func (d *DAG) Resize(a *Node, w int, sign bool) *Node {
	if a.W == w {
		return a
	}
	if a.IsConst() {
		if w > a.W && sign {
			return d.Const(w, signed(a.Val, a.W))
		}
		return d.Const(w, a.Val)
	}
	if w < a.W {
		return d.mk("trunc", w, "", 0, 0, nil, a)
	}
	if sign {
		return d.mk("sext", w, "", 0, 0, nil, a)
	}
	return d.mk("zext", w, "", 0, 0, nil, a)
}

// Tri builds one half of bits.Add64 / Sub64 (op in addc_s addc_c subb_d subb_b).
func (d *DAG) Tri(op string, x, y, c *Node) *Node {
	if x.IsConst() && y.IsConst() && c.IsConst() {
		two64 := new(big.Int).Lsh(big.NewInt(1), 64)
		cin := new(big.Int).And(c.Val, big.NewInt(1)) // only low bit of carry matters? No: Go uses carry as full word
		_ = cin
		r := new(big.Int)
		switch op {
		case "addc_s", "addc_c":
			r.Add(x.Val, y.Val)
			r.Add(r, c.Val)
			// bits.Add64: sum = x+y+carry (wrapping); carryOut = ((x&y)|((x|y)&^sum))>>63
			sum := new(big.Int).And(r, mask(64))
			if op == "addc_s" {
				return d.Const(64, sum)
			}
			t := new(big.Int).And(x.Val, y.Val)
			u := new(big.Int).Or(x.Val, y.Val)
			u.AndNot(u, sum)
			t.Or(t, u)
			t.Rsh(t, 63)
			return d.Const(64, t)
		case "subb_d", "subb_b":
			r.Sub(x.Val, y.Val)
			r.Sub(r, c.Val)
			diff := new(big.Int).And(r, mask(64)) // And handles negatives as two's complement
			if r.Sign() < 0 {
				diff = new(big.Int).Add(r, two64)
				for diff.Sign() < 0 {
					diff.Add(diff, two64)
				}
			}
			if op == "subb_d" {
				return d.Const(64, diff)
			}
			// borrowOut = ((^x&y)|(^(x^y)&diff))>>63
			nx := new(big.Int).Xor(x.Val, mask(64))
			t := new(big.Int).And(nx, y.Val)
			u := new(big.Int).Xor(x.Val, y.Val)
			u.Xor(u, mask(64))
			u.And(u, diff)
			t.Or(t, u)
			t.Rsh(t, 63)
			return d.Const(64, t)
		}
	}
	return d.mk(op, 64, "", 0, 0, nil, x, y, c)
}

func (d *DAG) MulHL(op string, x, y *Node) *Node {
	if x.IsConst() && y.IsConst() {
		r := new(big.Int).Mul(x.Val, y.Val)
		if op == "mulhi" {
			return d.Const(64, r.Rsh(r, 64))
		}
		return d.Const(64, r)
	}
	if x.ID > y.ID {
		x, y = y, x
	}
	return d.mk(op, 64, "", 0, 0, nil, x, y)
}

// Pack groups n scalar slots into one abstract value; pack(limb_0(v)..limb_{n-1}(v)) = v.
func (d *DAG) Pack(args []*Node) *Node {
	if len(args) > 0 && args[0].Op == "limb" && args[0].N == len(args) {
		base := args[0].Args[0]
		ok := true
		for i, a := range args {
			if a.Op != "limb" || a.Args[0] != base || a.Idx != i || a.N != len(args) {
				ok = false
				break
			}
		}
		if ok {
			return d.get(base)
		}
	}
	return d.mk("pack", -1, "", 0, len(args), nil, args...)
}

func (d *DAG) Limb(v *Node, i, n, w int) *Node {
	if v.Op == "pack" && len(v.Args) == n {
		return d.get(v.Args[i])
	}
	return d.mk("limb", w, "", i, n, nil, v)
}

func (d *DAG) App(name string, w int, args []*Node) *Node {
	return d.mk("app", w, name, 0, 0, nil, args...)
}

func (d *DAG) Extract(a *Node, lo, w int) *Node {
	if a.IsConst() {
		r := new(big.Int).Rsh(a.Val, uint(lo))
		return d.Const(w, r)
	}
	return d.mk("extract", w, "", lo, 0, nil, a)
}
