package main

// Forward symbolic interpreter over go/ssa.  Pointers, slice geometry, lengths and
// control flow are concrete; integer data is a term of the DAG.  A symbolic branch
// forks the state; anything the interpreter cannot represent faithfully ends the path
// with end="error" (never silently skipped).

import (
	"time"
	"fmt"
	"go/constant"
	"go/token"
	"go/types"
	"math/big"
	"sort"
	"strings"

	"golang.org/x/tools/go/ssa"
)

type Frame struct {
	fn       *ssa.Function
	blk      *ssa.BasicBlock
	prev     *ssa.BasicBlock
	ip       int
	loc      map[ssa.Value]Val
	retTo    ssa.Value
	cutArr   int
	isCut    bool
	cutHdr   *ssa.BasicBlock
	loopCnt  map[int]int
	defers   []deferred
	noAdv    bool // frame of a deferred call: the caller re-executes RunDefers after it returns
}

type deferred struct {
	fn   *ssa.Function
	args []Val
}

func (f *Frame) clone() *Frame {
	c := *f
	c.loc = make(map[ssa.Value]Val, len(f.loc))
	for k, v := range f.loc {
		c.loc[k] = v
	}
	c.defers = append([]deferred(nil), f.defers...)
	if f.loopCnt != nil {
		c.loopCnt = map[int]int{}
		for k, v := range f.loopCnt {
			c.loopCnt[k] = v
		}
	}
	return &c
}

type WriteRec struct {
	Obj   int    `json:"obj"`
	Label string `json:"label"`
	Tag   string `json:"tag"`
	Off   int    `json:"off"`
	At    string `json:"at"`
	Fn    string `json:"fn"`
	Val   int    `json:"val"` // node ids of the stored and the overwritten word (-1: not a word)
	Old   int    `json:"old"`
}

type BranchRec struct {
	At   string `json:"at"`
	Fn   string `json:"fn"`
	Cond int    `json:"cond"`
	Took bool   `json:"took"`
}

type HashState struct {
	data []*Node // bytes written since Reset
	alt  bool    // constructor came from an overriding registration
}

type State struct {
	mem      map[int]*Object
	nextObj  int
	seq      int
	frames   []*Frame
	pc       []*Node
	trace    []string
	branches []BranchRec
	writes   []WriteRec
	wset     map[int]bool
	obs      map[string]interface{}
	obsOrder []string
	globals  map[*ssa.Global]int
	hash     map[int]*HashState
	bigv     map[int]*Node
	randCnt  int
	greads   map[string]bool // labels of package-level objects read after init
	hexbuf   map[int][]Val   // byte buffers filled by hex.Encode: object -> the source bytes (same abstraction as hex.EncodeToString)
	pools    map[int][]Val // sync.Pool contents (by pool object): a later Get in the same run hands back what was Put
	mark     int
	forced   int // forced choice for next choose() (-1 none)
	conc     map[int]int64
	end      string
	panicV   string
	err      string
	dry      bool
	steps    int
	strObj   map[string]int
	pj       *ssa.BasicBlock
	cutSeq   int
	postInit bool
}

func (s *State) clone() *State {
	c := *s
	c.mem = make(map[int]*Object, len(s.mem))
	for k, o := range s.mem {
		c.mem[k] = o.clone()
	}
	c.frames = make([]*Frame, len(s.frames))
	for i, f := range s.frames {
		c.frames[i] = f.clone()
	}
	c.pc = append([]*Node(nil), s.pc...)
	c.trace = append([]string(nil), s.trace...)
	c.branches = append([]BranchRec(nil), s.branches...)
	c.writes = append([]WriteRec(nil), s.writes...)
	c.wset = map[int]bool{}
	for k, v := range s.wset {
		c.wset[k] = v
	}
	c.obs = map[string]interface{}{}
	for k, v := range s.obs {
		c.obs[k] = v
	}
	c.obsOrder = append([]string(nil), s.obsOrder...)
	c.globals = map[*ssa.Global]int{}
	for k, v := range s.globals {
		c.globals[k] = v
	}
	c.hash = map[int]*HashState{}
	for k, v := range s.hash {
		c.hash[k] = &HashState{data: append([]*Node(nil), v.data...), alt: v.alt}
	}
	c.bigv = map[int]*Node{}
	for k, v := range s.bigv {
		c.bigv[k] = v
	}
	c.conc = map[int]int64{}
	for k, v := range s.conc {
		c.conc[k] = v
	}
	c.hexbuf = map[int][]Val{}
	for k, v := range s.hexbuf {
		c.hexbuf[k] = v
	}
	c.greads = map[string]bool{}
	for k, v := range s.greads {
		c.greads[k] = v
	}
	c.pools = map[int][]Val{}
	for k, v := range s.pools {
		c.pools[k] = append([]Val(nil), v...)
	}
	c.strObj = map[string]int{}
	for k, v := range s.strObj {
		c.strObj[k] = v
	}
	return &c
}

type pendingFork struct {
	kind  string // "conc" | "choice"
	node  *Node
	cands []int64
	n     int
}

type execErr struct{ msg string }

type Exec struct {
	d        *DAG
	prog     *ssa.Program
	cfg      *RunCfg
	summ     map[string]*Summary
	usage    map[string]bool // "<summarised function>|<receiver pattern>": alias (an input), zero (all-zero receiver), dirty (anything else)
	funcs    map[string]bool
	stubs    map[string]bool
	zglobals map[string]bool
	loops    map[string]int
	pend     *pendingFork
	fresh    int
	modPkgs  map[string]bool
	maxPaths int
	phiAlias map[string]string
	deadline time.Time // per-run wall-clock limit: a run that explodes ends in an error (the check falls back to its replay battery)
	nPaths   int
	cutW     []int
}

func (x *Exec) fail(format string, a ...interface{}) {
	panic(execErr{fmt.Sprintf(format, a...)})
}

func (x *Exec) pos(p token.Pos) string {
	if !p.IsValid() {
		return "?"
	}
	ps := x.prog.Fset.Position(p)
	f := ps.Filename
	if i := strings.LastIndex(f, "/"); i >= 0 {
		// keep the last two path components
		j := strings.LastIndex(f[:i], "/")
		f = f[j+1:]
	}
	return fmt.Sprintf("%s:%d", f, ps.Line)
}

// ---------- memory ----------

func (x *Exec) newObj(st *State, label, tag, typ string, slots []Val) *Object {
	st.nextObj++
	st.seq++
	o := &Object{id: st.nextObj, label: label, tag: tag, slots: slots, seq: st.seq, typ: typ}
	st.mem[o.id] = o
	return o
}

func (x *Exec) obj(st *State, id int) *Object {
	o := st.mem[id]
	if o == nil {
		x.fail("dangling object %d", id)
	}
	return o
}

func (x *Exec) curPos(st *State) (string, string) {
	if len(st.frames) == 0 {
		return "?", "?"
	}
	// report the innermost frame inside the module if possible
	f := st.frames[len(st.frames)-1]
	p := token.NoPos
	if f.ip < len(f.blk.Instrs) {
		p = f.blk.Instrs[f.ip].Pos()
	}
	at := x.pos(p)
	if at == "?" {
		for i := len(st.frames) - 1; i >= 0 && at == "?"; i-- {
			g := st.frames[i]
			if g.ip < len(g.blk.Instrs) {
				at = x.pos(g.blk.Instrs[g.ip].Pos())
			}
		}
	}
	return at, f.fn.String()
}

func (x *Exec) writeSlot(st *State, objID, off int, v Val) {
	o := x.obj(st, objID)
	if off < 0 || off >= len(o.slots) {
		x.fail("store out of object bounds %s[%d]", o.label, off)
	}
	if o.frozen {
		at, fn := x.curPos(st)
		// record call chain inside the module for the report
		chain := []string{}
		for _, f := range st.frames {
			chain = append(chain, shortFn(f.fn.String()))
		}
		vi, oi := -1, -1
		if w, ok := v.(W); ok {
			vi = w.n.ID
		}
		if w, ok := o.slots[off].(W); ok {
			oi = w.n.ID
		}
		st.writes = append(st.writes, WriteRec{Obj: o.id, Label: o.label, Tag: o.tag, Off: off, At: at, Fn: fn + " via " + strings.Join(chain, ">"), Val: vi, Old: oi})
	}
	if o.id <= st.mark || true {
		st.wset[o.id] = true
	}
	o.slots[off] = v
}

func shortFn(s string) string {
	s = strings.ReplaceAll(s, "github.com/bytemare/secp256k1/internal/", "")
	s = strings.ReplaceAll(s, "github.com/bytemare/secp256k1", "secp256k1")
	return s
}

func (x *Exec) load(st *State, p P, t types.Type) Val {
	if p.obj == 0 {
		x.pathPanic(st, "nil pointer dereference")
		return nil
	}
	o := x.obj(st, p.obj)
	n := slotsOf(t)
	if p.off+n > len(o.slots) {
		x.fail("load out of object bounds %s off=%d n=%d len=%d", o.label, p.off, n, len(o.slots))
	}
	if st.postInit && o.tag == "Global" {
		if st.greads == nil {
			st.greads = map[string]bool{}
		}
		st.greads[o.label] = true
	}
	if isAgg(t) {
		return A{append([]Val(nil), o.slots[p.off:p.off+n]...)}
	}
	return o.slots[p.off]
}

func (x *Exec) store(st *State, p P, t types.Type, v Val) {
	if p.obj == 0 {
		x.pathPanic(st, "nil pointer dereference")
		return
	}
	fl := flat(v)
	if isAgg(t) {
		if len(fl) != slotsOf(t) {
			x.fail("store size mismatch %v: %d vs %d", t, len(fl), slotsOf(t))
		}
	}
	for i, s := range fl {
		x.writeSlot(st, p.obj, p.off+i, s)
	}
}

type pathEnd struct{}

func (x *Exec) pathPanic(st *State, what string) {
	st.end = "panic"
	st.panicV = what
	panic(pathEnd{})
}

// ---------- helpers on values ----------

func (x *Exec) word(v Val) *Node {
	w, ok := v.(W)
	if !ok {
		x.fail("expected scalar word, got %T", v)
	}
	return w.n
}

// concrete returns the concrete int value of a word, forking over candidates if symbolic.
func (x *Exec) concrete(st *State, v Val, what string) int64 {
	n := x.word(v)
	if n.IsConst() {
		if n.W > 0 {
			return signed(n.Val, n.W).Int64()
		}
		return n.Val.Int64()
	}
	if c, ok := st.conc[n.ID]; ok {
		return c
	}
	cands := x.cfg.Concretize[what]
	if cands == nil {
		cands = x.cfg.Concretize["*"]
	}
	if cands == nil {
		at, fn := x.curPos(st)
		x.fail("symbolic %s needs concretisation at %s in %s", what, at, fn)
	}
	x.pend = &pendingFork{kind: "conc", node: n, cands: cands}
	panic(x.pend)
}

// choose makes an n-way nondeterministic choice (stubs with several outcomes).
func (x *Exec) choose(st *State, n int) int {
	if st.forced >= 0 {
		c := st.forced
		st.forced = -1
		return c
	}
	x.pend = &pendingFork{kind: "choice", n: n}
	panic(x.pend)
}

func (x *Exec) freshVar(prefix string, w int) *Node {
	x.fresh++
	return x.d.Var(fmt.Sprintf("%s!%d", prefix, x.fresh), w)
}

func (x *Exec) strConst(st *State, s string) S {
	if id, ok := st.strObj[s]; ok {
		return S{obj: id, off: 0, ln: len(s), cp: len(s), esz: 1, isStr: true}
	}
	slots := make([]Val, len(s))
	for i := 0; i < len(s); i++ {
		slots[i] = W{x.d.ConstI(8, int64(s[i]))}
	}
	o := x.newObj(st, fmt.Sprintf("str:%q", s), "Const", "string", slots)
	o.frozen = true
	st.strObj[s] = o.id
	return S{obj: o.id, off: 0, ln: len(s), cp: len(s), esz: 1, isStr: true}
}

// goString returns the concrete contents of a string value.
func (x *Exec) goString(st *State, v Val) string {
	s := v.(S)
	if s.ln == 0 {
		return ""
	}
	o := x.obj(st, s.obj)
	b := make([]byte, s.ln)
	for i := 0; i < s.ln; i++ {
		n := x.word(o.slots[s.off+i])
		if !n.IsConst() {
			x.fail("symbolic string where concrete needed")
		}
		b[i] = byte(n.Val.Uint64())
	}
	return string(b)
}

func (x *Exec) constVal(st *State, c *ssa.Const) Val {
	t := c.Type()
	if c.Value == nil {
		return x.zeroVal(t)
	}
	switch u := t.Underlying().(type) {
	case *types.Basic:
		switch {
		case u.Info()&types.IsBoolean != 0:
			return W{x.d.Bool(constant.BoolVal(c.Value))}
		case u.Info()&types.IsInteger != 0:
			w := intWidth(t)
			bi, ok := new(big.Int).SetString(constant.ToInt(c.Value).ExactString(), 10)
			if !ok {
				x.fail("bad int const %v", c)
			}
			return W{x.d.Const(w, bi)}
		case u.Info()&types.IsString != 0:
			return x.strConst(st, constant.StringVal(c.Value))
		case u.Info()&types.IsFloat != 0:
			f, _ := constant.Float64Val(c.Value)
			return Fl{f}
		}
	}
	x.fail("unsupported constant %v of type %v", c, t)
	return nil
}

func (x *Exec) globalObj(st *State, g *ssa.Global) int {
	if id, ok := st.globals[g]; ok {
		return id
	}
	et := g.Type().(*types.Pointer).Elem()
	name := g.String()
	if g.Pkg == nil || !x.modPkgs[g.Pkg.Pkg.Path()] {
		x.zglobals[name] = true
	}
	o := x.newObj(st, "global:"+shortFn(name), "Global", et.String(), x.zeroSlots(et, nil))
	if name == "crypto/rand.Reader" {
		ro := x.newObj(st, "rand-reader-stub", "Global", "io.Reader", nil)
		ro.frozen = true
		o.slots[0] = I{t: theReaderType, v: P{obj: ro.id}}
	}
	o.frozen = st.postInit // after package initialisation every global, of any package, is read-only for the API
	st.globals[g] = o.id
	return o.id
}

func (x *Exec) get(st *State, f *Frame, v ssa.Value) Val {
	switch c := v.(type) {
	case *ssa.Const:
		return x.constVal(st, c)
	case *ssa.Global:
		return P{obj: x.globalObj(st, c)}
	case *ssa.Function:
		return F{fn: c}
	case *ssa.Builtin:
		return F{fn: c}
	}
	r, ok := f.loc[v]
	if !ok {
		x.fail("use of undefined SSA value %s (%T) in %s", v.Name(), v, f.fn)
	}
	return r
}

// ---------- encoding observations ----------

func (x *Exec) encSlot(st *State, v Val) interface{} {
	switch t := v.(type) {
	case W:
		return t.n.ID
	case P:
		return map[string]interface{}{"p": t.obj, "off": t.off}
	case S:
		return map[string]interface{}{"s": t.obj, "off": t.off, "len": t.ln, "cap": t.cp}
	case I:
		return x.encVal(st, v)
	case Fl:
		return map[string]interface{}{"float": t.f}
	case F:
		return map[string]interface{}{"func": fmt.Sprint(t.fn)}
	case nil:
		return nil
	}
	return fmt.Sprintf("%T", v)
}

func (x *Exec) encVal(st *State, v Val) interface{} {
	switch t := v.(type) {
	case W:
		return map[string]interface{}{"k": "w", "n": t.n.ID}
	case A:
		out := make([]interface{}, len(t.f))
		for i, s := range t.f {
			out[i] = x.encSlot(st, s)
		}
		return map[string]interface{}{"k": "agg", "f": out}
	case T:
		out := make([]interface{}, len(t))
		for i, s := range t {
			out[i] = x.encVal(st, s)
		}
		return map[string]interface{}{"k": "tuple", "f": out}
	case P:
		if t.obj == 0 {
			return map[string]interface{}{"k": "ptr", "nil": true}
		}
		o := x.obj(st, t.obj)
		out := make([]interface{}, 0, len(o.slots))
		for _, s := range o.slots[t.off:] {
			out = append(out, x.encSlot(st, s))
		}
		return map[string]interface{}{"k": "ptr", "obj": o.id, "label": o.label, "tag": o.tag, "off": t.off, "fresh": o.seq > st.mark, "cells": out}
	case S:
		if t.obj == 0 {
			return map[string]interface{}{"k": "slice", "nil": true, "len": 0, "cap": 0, "elems": []interface{}{}}
		}
		o := x.obj(st, t.obj)
		out := make([]interface{}, 0, t.ln)
		for _, s := range o.slots[t.off : t.off+t.ln*t.esz] {
			out = append(out, x.encSlot(st, s))
		}
		k := "slice"
		if t.isStr {
			k = "str"
		}
		return map[string]interface{}{"k": k, "obj": o.id, "label": o.label, "tag": o.tag, "off": t.off, "len": t.ln, "cap": t.cp,
			"fresh": o.seq > st.mark, "objlen": len(o.slots), "elems": out}
	case I:
		if t.t == nil {
			return map[string]interface{}{"k": "iface", "nil": true}
		}
		m := map[string]interface{}{"k": "iface", "type": t.t.String()}
		if p, ok := t.v.(P); ok && p.obj != 0 {
			m["label"] = x.obj(st, p.obj).label
			m["obj"] = p.obj
		} else {
			m["val"] = x.encVal(st, t.v)
		}
		return m
	case Fl:
		return map[string]interface{}{"k": "float", "f": t.f}
	}
	return map[string]interface{}{"k": fmt.Sprintf("%T", v)}
}

func (x *Exec) observe(st *State, name string, v Val) {
	if iv, ok := v.(I); ok && iv.t != nil {
		if _, isIface := iv.t.Underlying().(*types.Interface); !isIface {
			// unwrap MakeInterface of a concrete value, but keep error-like interfaces
			if _, isPtrToErr := iv.v.(P); !(isPtrToErr && strings.Contains(iv.t.String(), "errors.")) {
				v = iv.v
			}
		}
	}
	if _, dup := st.obs[name]; !dup {
		st.obsOrder = append(st.obsOrder, name)
	}
	st.obs[name] = x.encVal(st, v)
}

// ---------- the interpreter loop ----------

func (x *Exec) pushFrame(st *State, fn *ssa.Function, args []Val, retTo ssa.Value) {
	if len(fn.Blocks) == 0 && fn.Pkg != nil {
		fn.Pkg.Build()
	}
	if len(fn.Blocks) == 0 {
		x.fail("call to function without body: %s", fn)
	}
	if len(st.frames) > 200 {
		x.fail("call depth exceeded")
	}
	x.funcs[fn.String()] = true
	f := &Frame{fn: fn, blk: fn.Blocks[0], loc: map[ssa.Value]Val{}, retTo: retTo}
	if len(args) != len(fn.Params) {
		x.fail("arg count mismatch calling %s: %d vs %d", fn, len(args), len(fn.Params))
	}
	for i, p := range fn.Params {
		f.loc[p] = args[i]
	}
	if cut := x.cfg.Cut; cut != nil && cut.Fn == fn.String() {
		f.isCut = true
		f.cutHdr = loopHeader(fn, cut.Loop)
		if f.cutHdr == nil {
			x.fail("cut: no loop header #%d in %s", cut.Loop, fn)
		}
	}
	st.frames = append(st.frames, f)
}

// loopHeader returns the k-th block (in block order) that is the target of a back edge.
func loopHeader(fn *ssa.Function, k int) *ssa.BasicBlock {
	n := 0
	for _, b := range fn.Blocks {
		isHdr := false
		for _, p := range b.Preds {
			if b.Dominates(p) {
				isHdr = true
			}
		}
		if isHdr {
			if n == k {
				return b
			}
			n++
		}
	}
	return nil
}

// explore runs st and everything forked from it to completion.
func (x *Exec) explore(st *State) []*State {
	work := []*State{st}
	var done []*State
	for len(work) > 0 {
		s := work[len(work)-1]
		work = work[:len(work)-1]
		if !x.deadline.IsZero() && time.Now().After(x.deadline) {
			s.end = "error"
			s.err = "time limit of the run exceeded (path explosion: " + fmt.Sprint(x.nPaths) + " paths finished, " + fmt.Sprint(len(work)) + " pending)"
			return append(done, s)
		}
		forks := x.runOne(s)
		if forks == nil {
			done = append(done, s)
			x.nPaths++
			if x.nPaths > x.maxPaths {
				s.end = "error"
				s.err = "path limit exceeded"
				return done
			}
		} else {
			work = append(work, forks...)
		}
	}
	return done
}

// runOne runs s until it ends (returns nil) or must fork (returns the successor states).
func (x *Exec) runOne(s *State) (forks []*State) {
	defer func() {
		if r := recover(); r != nil {
			switch e := r.(type) {
			case execErr:
				s.end = "error"
				at, fn := x.curPos(s)
				s.err = e.msg + " @ " + at + " in " + fn
				forks = nil
			case pathEnd:
				forks = nil
			case *pendingFork:
				x.pend = nil
				forks = x.doFork(s, e)
			default:
				panic(r)
			}
		}
	}()
	for s.end == "" {
		if s.pj != nil {
			to := s.pj
			s.pj = nil
			x.jump(s, s.frames[len(s.frames)-1], to)
			continue
		}
		s.steps++
		if s.steps > x.cfg.MaxSteps {
			x.fail("step limit exceeded")
		}
		f := s.frames[len(s.frames)-1]
		if f.ip >= len(f.blk.Instrs) {
			x.fail("fell off block")
		}
		ins := f.blk.Instrs[f.ip]
		if fk := x.step(s, f, ins); fk != nil {
			return fk
		}
	}
	return nil
}

func (x *Exec) doFork(s *State, p *pendingFork) []*State {
	var out []*State
	switch p.kind {
	case "conc":
		rest := x.d.Bool(true)
		for _, c := range p.cands {
			t := s.clone()
			eq := x.d.Cmp("eq", p.node, x.d.ConstI(p.node.W, c))
			t.pc = append(t.pc, eq)
			t.conc[p.node.ID] = c
			rest = x.d.BAnd(rest, x.d.BNot(eq))
			out = append(out, t)
		}
		// the remainder must be shown infeasible by the driver
		t := s.clone()
		t.pc = append(t.pc, rest)
		t.end = "unhandled"
		at, fn := x.curPos(s)
		t.err = fmt.Sprintf("value outside concretisation candidates %v at %s in %s", p.cands, at, fn)
		out = append(out, t)
	case "choice":
		for i := 0; i < p.n; i++ {
			t := s.clone()
			t.forced = i
			out = append(out, t)
		}
	}
	return out
}

func (x *Exec) jump(st *State, f *Frame, to *ssa.BasicBlock) {
	if f.isCut && to == f.cutHdr {
		if x.cutArrival(st, f, to) || st.end != "" {
			return
		}
	}
	// loop statistics: count arrivals at back-edge targets
	if to.Index <= f.blk.Index && to.Dominates(f.blk) {
		key := shortFn(f.fn.String()) + "#" + fmt.Sprint(to.Index)
		if f.loopCnt == nil {
			f.loopCnt = map[int]int{}
		}
		f.loopCnt[to.Index]++
		if f.loopCnt[to.Index] > x.loops[key] {
			x.loops[key] = f.loopCnt[to.Index]
		}
		if f.loopCnt[to.Index] > x.cfg.MaxLoop {
			x.fail("loop bound %d exceeded at %s", x.cfg.MaxLoop, key)
		}
	}
	f.prev = f.blk
	f.blk = to
	f.ip = 0
}

func (x *Exec) step(st *State, f *Frame, ins ssa.Instruction) []*State {
	d := x.d
	switch in := ins.(type) {
	case *ssa.DebugRef:
	case *ssa.Alloc:
		et := in.Type().(*types.Pointer).Elem()
		label := shortFn(f.fn.String()) + "." + in.Comment + "@" + x.pos(in.Pos())
		o := x.newObj(st, label, "Fresh", et.String(), x.zeroSlots(et, nil))
		f.loc[in] = P{obj: o.id}
	case *ssa.Phi:
		// all phis of a block are evaluated simultaneously
		vals := map[*ssa.Phi]Val{}
		i := f.ip
		for ; i < len(f.blk.Instrs); i++ {
			ph, ok := f.blk.Instrs[i].(*ssa.Phi)
			if !ok {
				break
			}
			idx := -1
			for k, p := range f.blk.Preds {
				if p == f.prev {
					idx = k
				}
			}
			if idx < 0 {
				x.fail("phi without predecessor")
			}
			vals[ph] = x.get(st, f, ph.Edges[idx])
		}
		for ph, v := range vals {
			f.loc[ph] = v
		}
		f.ip = i
		return nil
	case *ssa.Store:
		p := x.get(st, f, in.Addr).(P)
		x.store(st, p, in.Val.Type(), x.get(st, f, in.Val))
	case *ssa.UnOp:
		f.loc[in] = x.unop(st, f, in)
	case *ssa.BinOp:
		f.loc[in] = x.binop(st, f, in)
	case *ssa.FieldAddr:
		p := x.get(st, f, in.X).(P)
		if p.obj == 0 {
			x.pathPanic(st, "nil pointer dereference")
		}
		stt := in.X.Type().Underlying().(*types.Pointer).Elem().Underlying().(*types.Struct)
		f.loc[in] = P{obj: p.obj, off: p.off + fieldOffset(stt, in.Field)}
	case *ssa.Field:
		a := x.get(st, f, in.X).(A)
		stt := in.X.Type().Underlying().(*types.Struct)
		off := fieldOffset(stt, in.Field)
		ft := stt.Field(in.Field).Type()
		n := slotsOf(ft)
		if isAgg(ft) {
			f.loc[in] = A{append([]Val(nil), a.f[off:off+n]...)}
		} else {
			f.loc[in] = a.f[off]
		}
	case *ssa.IndexAddr:
		idx := int(x.concrete(st, x.get(st, f, in.Index), "index"))
		switch xv := x.get(st, f, in.X).(type) {
		case P:
			at := in.X.Type().Underlying().(*types.Pointer).Elem().Underlying().(*types.Array)
			if xv.obj == 0 {
				x.pathPanic(st, "nil pointer dereference")
			}
			if idx < 0 || int64(idx) >= at.Len() {
				x.pathPanic(st, "index out of range")
			}
			f.loc[in] = P{obj: xv.obj, off: xv.off + idx*slotsOf(at.Elem())}
		case S:
			if idx < 0 || idx >= xv.ln {
				x.pathPanic(st, fmt.Sprintf("index out of range [%d] with length %d", idx, xv.ln))
			}
			f.loc[in] = P{obj: xv.obj, off: xv.off + idx*xv.esz}
		default:
			x.fail("IndexAddr on %T", xv)
		}
	case *ssa.Index:
		idx := int(x.concrete(st, x.get(st, f, in.Index), "index"))
		switch xv := x.get(st, f, in.X).(type) {
		case A:
			at := in.X.Type().Underlying().(*types.Array)
			es := slotsOf(at.Elem())
			if idx < 0 || int64(idx) >= at.Len() {
				x.pathPanic(st, "index out of range")
			}
			if isAgg(at.Elem()) {
				f.loc[in] = A{append([]Val(nil), xv.f[idx*es:(idx+1)*es]...)}
			} else {
				f.loc[in] = xv.f[idx]
			}
		case S: // string
			if idx < 0 || idx >= xv.ln {
				x.pathPanic(st, "index out of range")
			}
			f.loc[in] = x.obj(st, xv.obj).slots[xv.off+idx]
		default:
			x.fail("Index on %T", xv)
		}
	case *ssa.Slice:
		f.loc[in] = x.sliceOp(st, f, in)
	case *ssa.SliceToArrayPointer:
		s := x.get(st, f, in.X).(S)
		at := in.Type().(*types.Pointer).Elem().Underlying().(*types.Array)
		if int64(s.ln) < at.Len() {
			x.pathPanic(st, fmt.Sprintf("cannot convert slice with length %d to array or pointer to array with length %d", s.ln, at.Len()))
		}
		if s.obj == 0 {
			if at.Len() == 0 {
				f.loc[in] = P{}
			} else {
				x.pathPanic(st, "slice to array pointer of nil")
			}
		} else {
			f.loc[in] = P{obj: s.obj, off: s.off}
		}
	case *ssa.MakeSlice:
		ln := int(x.concrete(st, x.get(st, f, in.Len), "makeslice"))
		cp := int(x.concrete(st, x.get(st, f, in.Cap), "makeslice"))
		if ln < 0 || cp < ln {
			x.pathPanic(st, "makeslice: len out of range")
		}
		et := in.Type().Underlying().(*types.Slice).Elem()
		es := slotsOf(et)
		slots := make([]Val, 0, cp*es)
		for i := 0; i < cp; i++ {
			slots = x.zeroSlots(et, slots)
		}
		o := x.newObj(st, shortFn(f.fn.String())+".make@"+x.pos(in.Pos()), "Fresh", in.Type().String(), slots)
		f.loc[in] = S{obj: o.id, off: 0, ln: ln, cp: cp, esz: es}
	case *ssa.MakeInterface:
		f.loc[in] = I{t: in.X.Type(), v: x.get(st, f, in.X)}
	case *ssa.ChangeInterface:
		f.loc[in] = x.get(st, f, in.X)
	case *ssa.ChangeType:
		f.loc[in] = x.get(st, f, in.X)
	case *ssa.Convert:
		f.loc[in] = x.convert(st, f, in)
	case *ssa.Extract:
		t := x.get(st, f, in.Tuple).(T)
		f.loc[in] = t[in.Index]
	case *ssa.MakeClosure:
		var b []Val
		for _, v := range in.Bindings {
			b = append(b, x.get(st, f, v))
		}
		f.loc[in] = F{fn: in.Fn.(*ssa.Function), bind: b}
	case *ssa.TypeAssert:
		iv := x.get(st, f, in.X).(I)
		ok := iv.t != nil && types.Identical(iv.t, in.AssertedType)
		if _, isI := in.AssertedType.Underlying().(*types.Interface); isI {
			ok = iv.t != nil && types.Implements(iv.t, in.AssertedType.Underlying().(*types.Interface))
		}
		var res Val
		if ok {
			if _, isI := in.AssertedType.Underlying().(*types.Interface); isI {
				res = iv
			} else {
				res = iv.v
			}
		} else {
			res = x.zeroVal(in.AssertedType)
		}
		if in.CommaOk {
			f.loc[in] = T{res, W{d.Bool(ok)}}
		} else {
			if !ok {
				x.pathPanic(st, "interface conversion failed")
			}
			f.loc[in] = res
		}
	case *ssa.If:
		c := x.word(x.get(st, f, in.Cond))
		tb, fb := f.blk.Succs[0], f.blk.Succs[1]
		if c.IsConst() {
			if c.IsTrue() {
				x.jump(st, f, tb)
			} else {
				x.jump(st, f, fb)
			}
			return nil
		}
		// a condition already decided on this path (same term, or its negation) does not fork again
		for _, pcn := range st.pc {
			if pcn == c {
				x.jump(st, f, tb)
				return nil
			}
			if pcn.Op == "bnot" && x.d.get(pcn.Args[0]) == c {
				x.jump(st, f, fb)
				return nil
			}
			if c.Op == "bnot" && x.d.get(c.Args[0]) == pcn {
				x.jump(st, f, fb)
				return nil
			}
		}
		at := x.pos(in.Cond.Pos())
		if at == "?" {
			at, _ = x.curPos(st)
		}
		s2 := st.clone()
		st.pc = append(st.pc, c)
		st.branches = append(st.branches, BranchRec{At: at, Fn: shortFn(f.fn.String()), Cond: c.ID, Took: true})
		s2.pc = append(s2.pc, d.BNot(c))
		s2.branches = append(s2.branches, BranchRec{At: at, Fn: shortFn(f.fn.String()), Cond: c.ID, Took: false})
		st.pj = tb
		s2.pj = fb
		return []*State{s2, st}
	case *ssa.Jump:
		x.jump(st, f, f.blk.Succs[0])
		return nil
	case *ssa.Return:
		var rv Val
		switch len(in.Results) {
		case 0:
		case 1:
			rv = x.get(st, f, in.Results[0])
		default:
			t := T{}
			for _, r := range in.Results {
				t = append(t, x.get(st, f, r))
			}
			rv = t
		}
		for _, pf := range x.cfg.Probes {
			if pf == f.fn.String() && len(f.fn.Params) > 0 {
				if pv, ok := f.loc[f.fn.Params[0]].(P); ok && pv.obj != 0 {
					k := 0
					for {
						if _, dup := st.obs[fmt.Sprintf("probe:%s#%d", shortFn(pf), k)]; !dup {
							break
						}
						k++
					}
					x.observe(st, fmt.Sprintf("probe:%s#%d", shortFn(pf), k), pv)
				}
			}
		}
		st.frames = st.frames[:len(st.frames)-1]
		if len(st.frames) == 0 {
			st.end = "return"
			return nil
		}
		c := st.frames[len(st.frames)-1]
		if f.retTo != nil {
			c.loc[f.retTo] = rv
		}
		if !f.noAdv {
			c.ip++
		}
		return nil
	case *ssa.Panic:
		v := x.get(st, f, in.X)
		st.end = "panic"
		st.panicV = x.describe(st, v)
		return nil
	case *ssa.Call:
		x.call(st, f, in)
		return nil
	case *ssa.Defer:
		cc := in.Common()
		fnv, ok := cc.Value.(*ssa.Function)
		if !ok || cc.IsInvoke() {
			x.fail("unsupported deferred call %s", in)
		}
		var args []Val
		for _, a := range cc.Args {
			args = append(args, x.get(st, f, a))
		}
		f.defers = append(f.defers, deferred{fn: fnv, args: args})
	case *ssa.RunDefers:
		if n := len(f.defers); n > 0 {
			d := f.defers[n-1]
			f.defers = f.defers[:n-1]
			switch d.fn.String() {
			case "(*sync.Mutex).Unlock", "(*sync.RWMutex).Unlock", "(*sync.RWMutex).RUnlock":
				return nil // no-op in a sequential run; stay on RunDefers for the next deferred call
			case "(*sync.Pool).Put":
				// handing an object back to the pool: shared process state (recorded like a direct Put)
				at, fnm := x.curPos(st)
				lbl := "sync.Pool"
				if pp, ok := d.args[0].(P); ok && pp.obj != 0 {
					lbl = x.obj(st, pp.obj).label + " (sync.Pool)"
					st.writes = append(st.writes, WriteRec{Obj: pp.obj, Label: lbl, Tag: "Global", Off: 0, At: at, Fn: fnm + " (shared pool, deferred Put)", Val: -1, Old: -1})
					if st.pools == nil {
						st.pools = map[int][]Val{}
					}
					st.pools[pp.obj] = append(st.pools[pp.obj], d.args[1])
				}
				return nil
			}
			x.pushFrame(st, d.fn, d.args, nil)
			st.frames[len(st.frames)-1].noAdv = true
			return nil
		}
	case *ssa.MakeChan:
		// a channel is an opaque object; only creating it (typically in an initialiser) is modelled: any send / receive / select fails
		o := x.newObj(st, "chan@"+x.pos(in.Pos()), "Fresh", in.Type().String(), []Val{W{x.d.ConstI(64, 0)}})
		f.loc[in] = P{obj: o.id}
	case *ssa.Go:
		// starting a goroutine (a helper started by an initialiser): the sequential model does not run it
		x.stubs["go statement (goroutine not run): "+in.Common().String()] = true
	case *ssa.Select, *ssa.Send, *ssa.MakeMap, *ssa.MapUpdate, *ssa.Lookup, *ssa.Range, *ssa.Next:
		x.fail("unsupported instruction %T: %s", ins, ins)
	default:
		x.fail("unsupported instruction %T: %s", ins, ins)
	}
	f.ip++
	return nil
}

func (x *Exec) describe(st *State, v Val) string {
	switch t := v.(type) {
	case I:
		if t.t == nil {
			return "nil"
		}
		if p, ok := t.v.(P); ok && p.obj != 0 {
			return x.obj(st, p.obj).label
		}
		if s, ok := t.v.(S); ok && s.isStr {
			return "string:" + x.tryString(st, s)
		}
		return t.t.String()
	case S:
		if t.isStr {
			return "string:" + x.tryString(st, t)
		}
	}
	return fmt.Sprintf("%T", v)
}

func (x *Exec) tryString(st *State, s S) (out string) {
	defer func() {
		if r := recover(); r != nil {
			out = "<symbolic>"
		}
	}()
	return x.goString(st, s)
}

func (x *Exec) unop(st *State, f *Frame, in *ssa.UnOp) Val {
	v := x.get(st, f, in.X)
	switch in.Op {
	case token.MUL:
		return x.load(st, v.(P), in.Type())
	case token.NOT:
		return W{x.d.BNot(x.word(v))}
	case token.SUB:
		if fl, ok := v.(Fl); ok {
			return Fl{-fl.f}
		}
		return W{x.d.Un("neg", x.word(v))}
	case token.XOR:
		return W{x.d.Un("not", x.word(v))}
	}
	x.fail("unsupported unop %s", in.Op)
	return nil
}

func (x *Exec) binop(st *State, f *Frame, in *ssa.BinOp) Val {
	d := x.d
	a := x.get(st, f, in.X)
	b := x.get(st, f, in.Y)
	xt := in.X.Type()
	switch av := a.(type) {
	case A:
		// == / != on arrays and structs of words: conjunction of slot-wise equalities
		bv, ok := b.(A)
		if ok && len(av.f) == len(bv.f) && (in.Op == token.EQL || in.Op == token.NEQ) {
			acc := d.Bool(true)
			for i := range av.f {
				wa, oka := av.f[i].(W)
				wb, okb := bv.f[i].(W)
				if !oka || !okb {
					x.fail("aggregate comparison over non-word slots")
				}
				var e *Node
				if wa.n.W == 0 {
					e = d.BNot(d.mkXor(wa.n, wb.n))
				} else {
					e = d.Cmp("eq", wa.n, wb.n)
				}
				acc = d.BAnd(acc, e)
			}
			if in.Op == token.NEQ {
				acc = d.BNot(acc)
			}
			return W{acc}
		}
	case Fl:
		bv := b.(Fl)
		switch in.Op {
		case token.ADD:
			return Fl{av.f + bv.f}
		case token.SUB:
			return Fl{av.f - bv.f}
		case token.MUL:
			return Fl{av.f * bv.f}
		case token.QUO:
			return Fl{av.f / bv.f}
		case token.LSS:
			return W{d.Bool(av.f < bv.f)}
		case token.GTR:
			return W{d.Bool(av.f > bv.f)}
		case token.EQL:
			return W{d.Bool(av.f == bv.f)}
		}
		x.fail("float op %s", in.Op)
	case P:
		bv, ok := b.(P)
		if !ok {
			x.fail("pointer compared with %T", b)
		}
		eq := av.obj == bv.obj && (av.obj == 0 || av.off == bv.off)
		switch in.Op {
		case token.EQL:
			return W{d.Bool(eq)}
		case token.NEQ:
			return W{d.Bool(!eq)}
		}
		x.fail("pointer op %s", in.Op)
	case I:
		bv := b.(I)
		var eq bool
		switch {
		case av.t == nil || bv.t == nil:
			eq = av.t == nil && bv.t == nil
		default:
			if !types.Identical(av.t, bv.t) {
				eq = false
			} else {
				pa, ok1 := av.v.(P)
				pb, ok2 := bv.v.(P)
				if !ok1 || !ok2 {
					x.fail("interface comparison of non-pointer dynamic values")
				}
				eq = pa == pb
			}
		}
		switch in.Op {
		case token.EQL:
			return W{d.Bool(eq)}
		case token.NEQ:
			return W{d.Bool(!eq)}
		}
		x.fail("interface op %s", in.Op)
	case S:
		bv := b.(S)
		if av.isStr && bv.isStr {
			switch in.Op {
			case token.ADD:
				slots := []Val{}
				if av.ln > 0 {
					slots = append(slots, x.obj(st, av.obj).slots[av.off:av.off+av.ln]...)
				}
				if bv.ln > 0 {
					slots = append(slots, x.obj(st, bv.obj).slots[bv.off:bv.off+bv.ln]...)
				}
				o := x.newObj(st, "strcat", "Fresh", "string", slots)
				return S{obj: o.id, ln: len(slots), cp: len(slots), esz: 1, isStr: true}
			case token.EQL, token.NEQ:
				r := d.Bool(av.ln == bv.ln)
				if av.ln == bv.ln {
					for i := 0; i < av.ln; i++ {
						ca := x.word(x.obj(st, av.obj).slots[av.off+i])
						cb := x.word(x.obj(st, bv.obj).slots[bv.off+i])
						r = d.BAnd(r, d.Cmp("eq", ca, cb))
					}
				}
				if in.Op == token.NEQ {
					r = d.BNot(r)
				}
				return W{r}
			}
		}
		// slice == nil
		if bv.obj == 0 || av.obj == 0 {
			eq := av.obj == 0 && bv.obj == 0
			switch in.Op {
			case token.EQL:
				return W{d.Bool(eq)}
			case token.NEQ:
				return W{d.Bool(!eq)}
			}
		}
		x.fail("slice/string op %s", in.Op)
	case F:
		bv := b.(F)
		eq := av.fn == nil && bv.fn == nil
		switch in.Op {
		case token.EQL:
			return W{d.Bool(eq)}
		case token.NEQ:
			return W{d.Bool(!eq)}
		}
	case W:
		bn := x.word(b)
		an := av.n
		sg := isSigned(xt)
		if an.W == 0 { // bools
			switch in.Op {
			case token.EQL:
				return W{d.BNot(d.mkXor(an, bn))}
			case token.NEQ:
				return W{d.mkXor(an, bn)}
			case token.AND:
				return W{d.BAnd(an, bn)}
			case token.OR:
				return W{d.BOr(an, bn)}
			}
			x.fail("bool op %s", in.Op)
		}
		switch in.Op {
		case token.ADD:
			return W{d.Bin("add", an, bn)}
		case token.SUB:
			return W{d.Bin("sub", an, bn)}
		case token.MUL:
			return W{d.Bin("mul", an, bn)}
		case token.AND:
			return W{d.Bin("and", an, bn)}
		case token.OR:
			return W{d.Bin("or", an, bn)}
		case token.XOR:
			return W{d.Bin("xor", an, bn)}
		case token.AND_NOT:
			return W{d.Bin("andnot", an, bn)}
		case token.QUO, token.REM:
			if bn.IsConst() && bn.Val.Sign() == 0 {
				x.pathPanic(st, "integer divide by zero")
			}
			if !bn.IsConst() {
				x.fail("division by symbolic value")
			}
			op := map[bool]map[token.Token]string{true: {token.QUO: "sdiv", token.REM: "srem"}, false: {token.QUO: "udiv", token.REM: "urem"}}[sg][in.Op]
			return W{d.Bin(op, an, bn)}
		case token.SHL, token.SHR:
			// shift count has its own width; counts >= width give 0 (or sign fill)
			if sgy := isSigned(in.Y.Type()); sgy && bn.IsConst() && signed(bn.Val, bn.W).Sign() < 0 {
				x.pathPanic(st, "negative shift amount")
			}
			op := "shl"
			if in.Op == token.SHR {
				op = "lshr"
				if sg {
					op = "ashr"
				}
			}
			if bn.IsConst() {
				c := bn.Val
				if c.Cmp(big.NewInt(int64(an.W))) >= 0 {
					c = big.NewInt(int64(an.W))
				}
				return W{d.Bin(op, an, d.Const(an.W, c))}
			}
			if isSigned(in.Y.Type()) {
				x.fail("symbolic signed shift count")
			}
			// symbolic count: saturate to width
			wmax := d.ConstI(bn.W, int64(an.W))
			big_ := d.Cmp("ule", wmax, bn)
			cnt := d.Resize(bn, an.W, false)
			if bn.W > an.W {
				cnt = d.Resize(bn, an.W, false)
			}
			sh := d.Bin(op, an, d.Ite(big_, d.ConstI(an.W, int64(an.W)), cnt))
			return W{sh}
		case token.EQL:
			return W{d.Cmp("eq", an, bn)}
		case token.NEQ:
			return W{d.BNot(d.Cmp("eq", an, bn))}
		case token.LSS:
			if sg {
				return W{d.Cmp("slt", an, bn)}
			}
			return W{d.Cmp("ult", an, bn)}
		case token.LEQ:
			if sg {
				return W{d.Cmp("sle", an, bn)}
			}
			return W{d.Cmp("ule", an, bn)}
		case token.GTR:
			if sg {
				return W{d.Cmp("slt", bn, an)}
			}
			return W{d.Cmp("ult", bn, an)}
		case token.GEQ:
			if sg {
				return W{d.Cmp("sle", bn, an)}
			}
			return W{d.Cmp("ule", bn, an)}
		}
		x.fail("int op %s", in.Op)
	}
	x.fail("unsupported binop %s on %T", in.Op, a)
	return nil
}

func (d *DAG) mkXor(a, b *Node) *Node {
	if a.IsConst() && b.IsConst() {
		return d.Bool((a.Val.Sign() != 0) != (b.Val.Sign() != 0))
	}
	if a.IsConst() {
		if a.IsTrue() {
			return d.BNot(b)
		}
		return b
	}
	if b.IsConst() {
		if b.IsTrue() {
			return d.BNot(a)
		}
		return a
	}
	return d.BNot(d.Cmp("eq", a, b))
}

func (x *Exec) convert(st *State, f *Frame, in *ssa.Convert) Val {
	v := x.get(st, f, in.X)
	from, to := in.X.Type(), in.Type()
	switch tv := v.(type) {
	case W:
		if tb, ok := to.Underlying().(*types.Basic); ok {
			if tb.Info()&types.IsFloat != 0 {
				if !tv.n.IsConst() {
					x.fail("symbolic int to float conversion")
				}
				if isSigned(from) {
					return Fl{float64(signed(tv.n.Val, tv.n.W).Int64())}
				}
				return Fl{float64(tv.n.Val.Uint64())}
			}
			if tb.Info()&types.IsInteger != 0 {
				return W{x.d.Resize(tv.n, intWidth(to), isSigned(from))}
			}
			if tb.Info()&types.IsString != 0 {
				x.fail("int to string conversion")
			}
		}
	case Fl:
		if tb, ok := to.Underlying().(*types.Basic); ok {
			if tb.Info()&types.IsInteger != 0 {
				return W{x.d.ConstI(intWidth(to), int64(tv.f))}
			}
			if tb.Info()&types.IsFloat != 0 {
				return tv
			}
		}
	case S:
		// string <-> []byte: always a copy
		_, toSlice := to.Underlying().(*types.Slice)
		if src, ok := st.hexbuf[tv.obj]; ok && !toSlice && tv.off == 0 && tv.ln == 2*len(src) {
			// string(buf) of a buffer filled by hex.Encode: the same opaque hex string hex.EncodeToString would have returned
			o := x.newObj(st, "hexenc", "Fresh", "hexstring", append([]Val(nil), src...))
			return S{obj: o.id, ln: len(src), cp: len(src), esz: 1, isStr: true}
		}
		slots := []Val{}
		if tv.ln > 0 {
			slots = append(slots, x.obj(st, tv.obj).slots[tv.off:tv.off+tv.ln]...)
		}
		o := x.newObj(st, shortFn(f.fn.String())+".conv@"+x.pos(in.Pos()), "Fresh", to.String(), slots)
		return S{obj: o.id, ln: tv.ln, cp: tv.ln, esz: 1, isStr: !toSlice}
	case P:
		return tv // pointer conversions between identical layouts (unsafe not used)
	}
	x.fail("unsupported conversion %v -> %v", from, to)
	return nil
}

func (x *Exec) sliceOp(st *State, f *Frame, in *ssa.Slice) Val {
	xv := x.get(st, f, in.X)
	var base S
	isArr := false
	switch t := xv.(type) {
	case S:
		base = t
	case P:
		at := in.X.Type().Underlying().(*types.Pointer).Elem().Underlying().(*types.Array)
		if t.obj == 0 {
			x.pathPanic(st, "nil pointer dereference")
		}
		base = S{obj: t.obj, off: t.off, ln: int(at.Len()), cp: int(at.Len()), esz: slotsOf(at.Elem())}
		isArr = true
	default:
		x.fail("slice of %T", xv)
	}
	_ = isArr
	lo, hi, mx := 0, base.ln, base.cp
	if in.Low != nil {
		lo = int(x.concrete(st, x.get(st, f, in.Low), "slice"))
	}
	if in.High != nil {
		hi = int(x.concrete(st, x.get(st, f, in.High), "slice"))
	}
	if in.Max != nil {
		mx = int(x.concrete(st, x.get(st, f, in.Max), "slice"))
	}
	limit := base.cp
	if base.isStr {
		limit = base.ln
	}
	if lo < 0 || hi < lo || mx < hi || mx > limit || hi > limit {
		x.pathPanic(st, fmt.Sprintf("slice bounds out of range [%d:%d:%d] with capacity %d", lo, hi, mx, limit))
	}
	if base.obj == 0 {
		return S{esz: base.esz, isStr: base.isStr}
	}
	return S{obj: base.obj, off: base.off + lo*base.esz, ln: hi - lo, cp: mx - lo, esz: base.esz, isStr: base.isStr}
}

// sortedKeys is a small helper for deterministic output.
func sortedKeys(m map[string]bool) []string {
	out := make([]string, 0, len(m))
	for k := range m {
		out = append(out, k)
	}
	sort.Strings(out)
	return out
}
