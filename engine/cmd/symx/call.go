package main

import (
	"fmt"
	"go/types"
	"math"
	"math/big"
	"sort"
	"strconv"
	"strings"

	"golang.org/x/tools/go/ssa"
)

// Summary replaces a callee by an uninterpreted application over packed arguments.
type Summary struct {
	Fn      string   `json:"fn"`
	Op      string   `json:"op"`
	Params  []string `json:"params"`  // per SSA param: out | in | inout | val | word | slice | skip
	Results []string `json:"results"` // per result: p<k> | w<width> | b | new
	NoTrace bool     `json:"notrace"`
}

type CutCfg struct {
	Fn    string           `json:"fn"`
	Loop  int              `json:"loop"`
	Mode  string           `json:"mode"` // havoc | stop
	Phis  map[string]int64 `json:"phis"`
	Stop  int              `json:"stop"` // arrival at which the path is cut (mode stop)
	Extra []string         `json:"extra_havoc"`
}

type RunCfg struct {
	ID         string             `json:"id"`
	Harness    string             `json:"harness"`
	Args       []int64            `json:"args"`
	Summaries  []*Summary         `json:"summaries"`
	Cut        *CutCfg            `json:"cut"`
	Concretize map[string][]int64 `json:"concretize"`
	HashMode   string             `json:"hashmode"` // stub (default) | registry
	Flags      map[string]bool    `json:"flags"`    // read by the harness through vFlag
	MaxPaths   int                `json:"maxpaths"`
	MaxSecs    int                `json:"maxsecs"`
	MaxSteps   int                `json:"maxsteps"`
	MaxLoop    int                `json:"maxloop"`
	Probes     []string           `json:"probes"`   // functions whose first parameter's pointee is recorded on return
	TraceAll   bool               `json:"traceall"` // trace every call into the module's internal packages
	TracePfx   []string           `json:"tracepfx"`
}

var theReaderType types.Type = types.NewPointer(types.NewNamed(types.NewTypeName(0, nil, "symxRandReader", nil), types.NewStruct(nil, nil), nil))
var theHashType types.Type = types.NewPointer(types.NewNamed(types.NewTypeName(0, nil, "symxSHA256", nil), types.NewStruct(nil, nil), nil))

func (x *Exec) call(st *State, f *Frame, in *ssa.Call) {
	c := in.Common()
	var args []Val
	if c.IsInvoke() {
		recv := x.get(st, f, c.Value)
		iv, ok := recv.(I)
		if !ok || iv.t == nil {
			x.pathPanic(st, "nil pointer dereference (method call on nil interface)")
		}
		for _, a := range c.Args {
			args = append(args, x.get(st, f, a))
		}
		if p, ok := iv.v.(P); ok {
			if _, isHash := st.hash[p.obj]; isHash {
				x.hashMethod(st, f, in, p.obj, c.Method.Name(), args)
				return
			}
			if iv.t == theReaderType && c.Method.Name() == "Read" {
				// io.Reader contract: 0 <= n <= len(p) bytes delivered (n from the candidate list), or an error
				buf := args[0].(S)
				cands := x.cfg.Concretize["readn"]
				if cands == nil {
					cands = []int64{int64(buf.ln), 0, 1, int64(buf.ln) / 2, int64(buf.ln) - 1}
				}
				k := st.randCnt
				ch := x.choose(st, len(cands)+1)
				st.randCnt++
				if ch == len(cands) {
					o := x.newObj(st, "err:io-read-failure", "Fresh", "error", nil)
					x.ret(f, in, T{W{x.d.ConstI(64, 0)}, I{t: types.NewPointer(x.lookupType("errors", "errorString")), v: P{obj: o.id}}})
					return
				}
				n := int(cands[ch])
				if n > buf.ln {
					n = buf.ln
				}
				for i := 0; i < n; i++ {
					x.writeSlot(st, buf.obj, buf.off+i, W{x.d.Var(fmt.Sprintf("rand%d_%d", k, i), 8)})
				}
				st.pc = append(st.pc, x.d.Cmp("eq", x.d.Var(fmt.Sprintf("delivered%d", k), 64), x.d.ConstI(64, int64(n))))
				x.ret(f, in, T{W{x.d.ConstI(64, int64(n))}, I{}})
				return
			}
		}
		fn := x.prog.LookupMethod(iv.t, c.Method.Pkg(), c.Method.Name())
		if fn == nil {
			x.fail("cannot resolve method %s on %v", c.Method.Name(), iv.t)
		}
		x.invoke(st, f, in, fn, append([]Val{iv.v}, args...))
		return
	}
	for _, a := range c.Args {
		args = append(args, x.get(st, f, a))
	}
	switch v := c.Value.(type) {
	case *ssa.Builtin:
		x.builtin(st, f, in, v.Name(), args)
		return
	case *ssa.Function:
		x.invoke(st, f, in, v, args)
		return
	}
	fv, ok := x.get(st, f, c.Value).(F)
	if !ok || fv.fn == nil {
		x.pathPanic(st, "call of nil function")
	}
	switch fn := fv.fn.(type) {
	case *ssa.Function:
		x.invoke(st, f, in, fn, append(append([]Val{}, fv.bind...), args...))
		// closures take bindings as free variables, not params
	case *ssa.Builtin:
		x.builtin(st, f, in, fn.Name(), args)
	case string:
		if fn == "symx.hashctor" {
			x.ret(f, in, x.newHash(st))
			return
		}
		if fn == "symx.otherctor" {
			hv := x.newHash(st)
			st.hash[hv.(I).v.(P).obj].alt = true
			x.ret(f, in, hv)
			return
		}
		x.fail("call of marker function %s", fn)
	default:
		x.fail("call of %T", fv.fn)
	}
}

func (x *Exec) ret(f *Frame, in *ssa.Call, v Val) {
	if v != nil {
		f.loc[in] = v
	}
	f.ip++
}

func (x *Exec) traced(name string) bool {
	if x.cfg.TraceAll {
		return strings.Contains(name, "/internal/")
	}
	for _, p := range x.cfg.TracePfx {
		if strings.HasPrefix(name, p) {
			return true
		}
	}
	return false
}

func (x *Exec) invoke(st *State, f *Frame, in *ssa.Call, fn *ssa.Function, args []Val) {
	name := fn.String()
	if len(fn.FreeVars) > 0 {
		// closure: bindings were prepended; move them to FreeVars
		nb := len(fn.FreeVars)
		binds := args[:nb]
		args = args[nb:]
		x.pushFrame(st, fn, args, in)
		nf := st.frames[len(st.frames)-1]
		for i, fv := range fn.FreeVars {
			nf.loc[fv] = binds[i]
		}
		return
	}
	if fn.Name() == "init" && (fn.Pkg == nil || !x.modPkgs[fn.Pkg.Pkg.Path()]) {
		x.ret(f, in, nil) // initialisation of packages outside the module is not executed
		return
	}
	if x.traced(name) {
		st.trace = append(st.trace, shortFn(name))
	}
	if sm, ok := x.summ[name]; ok {
		if !sm.NoTrace && !x.traced(name) {
			st.trace = append(st.trace, shortFn(name))
		}
		x.applySummary(st, f, in, fn, sm, args)
		return
	}
	if x.stub(st, f, in, fn, name, args) {
		x.stubs[name] = true
		return
	}
	x.pushFrame(st, fn, args, in)
}

func (x *Exec) builtin(st *State, f *Frame, in *ssa.Call, name string, args []Val) {
	d := x.d
	switch name {
	case "len", "cap":
		switch a := args[0].(type) {
		case S:
			if name == "len" {
				x.ret(f, in, W{d.ConstI(64, int64(a.ln))})
			} else {
				x.ret(f, in, W{d.ConstI(64, int64(a.cp))})
			}
		case P:
			at := in.Common().Args[0].Type().Underlying().(*types.Pointer).Elem().Underlying().(*types.Array)
			x.ret(f, in, W{d.ConstI(64, at.Len())})
		case A:
			at := in.Common().Args[0].Type().Underlying().(*types.Array)
			x.ret(f, in, W{d.ConstI(64, at.Len())})
		default:
			x.fail("len of %T", a)
		}
	case "append":
		s := args[0].(S)
		t := args[1].(S)
		if t.ln == 0 {
			x.ret(f, in, s)
			return
		}
		es := s.esz
		if es == 0 {
			es = t.esz
		}
		src := append([]Val(nil), x.obj(st, t.obj).slots[t.off:t.off+t.ln*t.esz]...)
		nl := s.ln + t.ln
		if nl <= s.cp {
			for i, v := range src {
				x.writeSlot(st, s.obj, s.off+s.ln*es+i, v)
			}
			x.ret(f, in, S{obj: s.obj, off: s.off, ln: nl, cp: s.cp, esz: es})
			return
		}
		// growth: a new backing array; capacity modelled as exactly the needed length
		slots := []Val{}
		if s.ln > 0 {
			slots = append(slots, x.obj(st, s.obj).slots[s.off:s.off+s.ln*es]...)
		}
		slots = append(slots, src...)
		o := x.newObj(st, shortFn(f.fn.String())+".append@"+x.pos(in.Pos()), "Fresh", in.Type().String(), slots)
		x.ret(f, in, S{obj: o.id, off: 0, ln: nl, cp: nl, esz: es})
	case "copy":
		dst := args[0].(S)
		src := args[1].(S)
		n := dst.ln
		if src.ln < n {
			n = src.ln
		}
		if n > 0 {
			tmp := append([]Val(nil), x.obj(st, src.obj).slots[src.off:src.off+n*src.esz]...)
			for i, v := range tmp {
				x.writeSlot(st, dst.obj, dst.off+i, v)
			}
		}
		x.ret(f, in, W{d.ConstI(64, int64(n))})
	case "min", "max":
		a, b := x.word(args[0]), x.word(args[1])
		sg := isSigned(in.Common().Args[0].Type())
		op := "ult"
		if sg {
			op = "slt"
		}
		c := d.Cmp(op, a, b)
		if name == "min" {
			x.ret(f, in, W{d.Ite(c, a, b)})
		} else {
			x.ret(f, in, W{d.Ite(c, b, a)})
		}
	case "ssa:wrapnilchk":
		if p, ok := args[0].(P); ok && p.obj == 0 {
			x.pathPanic(st, "value method called using nil pointer")
		}
		x.ret(f, in, args[0])
	case "print", "println":
		x.ret(f, in, nil)
	default:
		x.fail("unsupported builtin %s", name)
	}
}

// ---------- summaries ----------

func (x *Exec) readPacked(st *State, v Val, kind string, t types.Type) *Node {
	var sl []Val
	switch kind {
	case "in", "inout":
		p := v.(P)
		if p.obj == 0 {
			x.pathPanic(st, "nil pointer dereference")
		}
		et := t.Underlying().(*types.Pointer).Elem()
		n := slotsOf(et)
		sl = x.obj(st, p.obj).slots[p.off : p.off+n]
	case "val":
		sl = flat(v)
		if len(sl) == 1 {
			return x.word(sl[0])
		}
	case "slice":
		s := v.(S)
		if s.ln > 0 {
			sl = x.obj(st, s.obj).slots[s.off : s.off+s.ln*s.esz]
		}
	}
	ns := make([]*Node, len(sl))
	for i, s := range sl {
		ns[i] = x.word(s)
	}
	return x.d.Pack(ns)
}

func (x *Exec) slotWidths(t types.Type, out []int) []int {
	switch u := t.Underlying().(type) {
	case *types.Array:
		for i := int64(0); i < u.Len(); i++ {
			out = x.slotWidths(u.Elem(), out)
		}
		return out
	case *types.Struct:
		for i := 0; i < u.NumFields(); i++ {
			out = x.slotWidths(u.Field(i).Type(), out)
		}
		return out
	}
	w := intWidth(t)
	if w < 0 {
		x.fail("summary over non-integer slot type %v", t)
	}
	return append(out, w)
}

func (x *Exec) applySummary(st *State, f *Frame, in *ssa.Call, fn *ssa.Function, sm *Summary, args []Val) {
	if len(sm.Params) != len(fn.Params) {
		x.fail("summary %s: %d param kinds for %d params", sm.Fn, len(sm.Params), len(fn.Params))
	}
	var ins []*Node
	for i, k := range sm.Params {
		switch k {
		case "in", "inout", "val", "slice":
			ins = append(ins, x.readPacked(st, args[i], k, fn.Params[i].Type()))
		case "word":
			ins = append(ins, x.word(args[i]))
		case "out", "skip":
		default:
			x.fail("summary %s: bad param kind %s", sm.Fn, k)
		}
	}
	outIdx := 0
	opName := func() string {
		n := sm.Op
		if outIdx > 0 {
			n = fmt.Sprintf("%s.%d", sm.Op, outIdx)
		}
		outIdx++
		return n
	}
	// all reads happen before all writes (aliasing-safe by construction of the model;
	// the real function's aliasing behaviour is what its own kernel proof covers)
	type wr struct {
		p  P
		ws []int
		v  *Node
	}
	var writes []wr
	for i, k := range sm.Params {
		if k == "out" || k == "inout" {
			p := args[i].(P)
			if p.obj == 0 {
				x.pathPanic(st, "nil pointer dereference")
			}
			et := fn.Params[i].Type().Underlying().(*types.Pointer).Elem()
			if k == "out" && p.obj != 0 {
				// how the caller uses the receiver: the contract of the summarised function needs to hold for these patterns only
				nsl := slotsOf(et)
				o := x.obj(st, p.obj)
				pat := "dirty"
				for j, kj := range sm.Params {
					if j == i {
						continue
					}
					if pj, ok := args[j].(P); ok && (kj == "in" || kj == "inout") && pj.obj == p.obj && pj.off == p.off {
						pat = "alias"
					}
					if aj, ok := args[j].(A); ok && kj == "val" && len(aj.f) == nsl && p.off+nsl <= len(o.slots) {
						same := true
						for t := 0; t < nsl; t++ {
							wa, oka := aj.f[t].(W)
							wb, okb := o.slots[p.off+t].(W)
							if !oka || !okb || wa.n != wb.n {
								same = false
							}
						}
						if same {
							pat = "alias"
						}
					}
				}
				if pat == "dirty" && p.off+nsl <= len(o.slots) {
					zero := true
					for t := 0; t < nsl; t++ {
						w, ok := o.slots[p.off+t].(W)
						if !ok || !w.n.IsConst() || w.n.Val.Sign() != 0 {
							zero = false
						}
					}
					if zero {
						pat = "zero"
					}
				}
				x.usage[shortFn(sm.Fn)+"|"+pat] = true
			}
			writes = append(writes, wr{p, x.slotWidths(et, nil), x.d.App(opName(), -1, ins)})
		}
	}
	for _, w := range writes {
		for j, wd := range w.ws {
			x.writeSlot(st, w.p.obj, w.p.off+j, W{x.d.Limb(w.v, j, len(w.ws), wd)})
		}
	}
	var res []Val
	rt := fn.Signature.Results()
	if len(sm.Results) != rt.Len() {
		x.fail("summary %s: %d result kinds for %d results", sm.Fn, len(sm.Results), rt.Len())
	}
	for i, k := range sm.Results {
		switch {
		case k[0] == 'p':
			n, _ := strconv.Atoi(k[1:])
			res = append(res, args[n])
		case k == "b":
			res = append(res, W{x.d.App(opName(), 0, ins)})
		case k[0] == 'w':
			n, _ := strconv.Atoi(k[1:])
			res = append(res, W{x.d.App(opName(), n, ins)})
		case k == "new":
			et := rt.At(i).Type().Underlying().(*types.Pointer).Elem()
			ws := x.slotWidths(et, nil)
			v := x.d.App(opName(), -1, ins)
			slots := make([]Val, len(ws))
			for j, wd := range ws {
				slots[j] = W{x.d.Limb(v, j, len(ws), wd)}
			}
			o := x.newObj(st, shortFn(fn.String())+".result@"+x.pos(in.Pos()), "Fresh", et.String(), slots)
			res = append(res, P{obj: o.id})
		case strings.HasPrefix(k, "bytes"):
			// fresh byte slice of fixed length: bytes<N>
			n, _ := strconv.Atoi(k[5:])
			v := x.d.App(opName(), -1, ins)
			slots := make([]Val, n)
			for j := range slots {
				slots[j] = W{x.d.Limb(v, j, n, 8)}
			}
			o := x.newObj(st, shortFn(fn.String())+".result@"+x.pos(in.Pos()), "Fresh", "[]byte", slots)
			res = append(res, S{obj: o.id, ln: n, cp: n, esz: 1})
		default:
			x.fail("summary %s: bad result kind %s", sm.Fn, k)
		}
	}
	switch len(res) {
	case 0:
		x.ret(f, in, nil)
	case 1:
		x.ret(f, in, res[0])
	default:
		x.ret(f, in, T(res))
	}
}

// ---------- cut points ----------

func (x *Exec) cutArrival(st *State, f *Frame, hdr *ssa.BasicBlock) bool {
	cut := x.cfg.Cut
	f.cutArr++
	if st.dry {
		if f.cutArr >= 2 {
			st.end = "cut"
		}
		return false
	}
	switch cut.Mode {
	case "stop":
		if f.cutArr >= cut.Stop {
			st.obs["cut:arrival"] = f.cutArr
			st.end = "cut"
		}
		return false
	case "havoc":
		if f.cutArr == 1 {
			// 1. discover the loop's write set by a dry run of one iteration (all arms)
			dry := st.clone()
			dry.dry = true
			dry.wset = map[int]bool{}
			limit := st.nextObj
			df := dry.frames[len(dry.frames)-1]
			df.prev = df.blk
			df.blk = hdr
			df.ip = 0
			// returning from the cut frame also ends the dry run
			depth := len(dry.frames)
			saveCfgMax := x.nPaths
			ends := x.exploreDry(dry, depth)
			x.nPaths = saveCfgMax
			wsetm := map[int]bool{}
			for _, e := range ends {
				if e.end == "error" {
					x.fail("cut dry run failed: %s", e.err)
				}
				for id := range e.wset {
					if id <= limit {
						wsetm[id] = true
					}
				}
			}
			var ws []int
			for id := range wsetm {
				ws = append(ws, id)
			}
			sort.Ints(ws)
			x.cutW = ws
			// 2. record the entry state, then havoc
			ent := map[string]interface{}{}
			for _, id := range ws {
				ent[fmt.Sprint(id)] = x.encVal(st, P{obj: id})
			}
			st.obs["cut:entry"] = ent
			phis := map[string]interface{}{}
			for _, id := range ws {
				o := x.obj(st, id)
				for j, s := range o.slots {
					w, ok := s.(W)
					if !ok {
						x.fail("cut: cannot havoc non-scalar slot of %s", o.label)
					}
					o.slots[j] = W{x.d.Var(fmt.Sprintf("hv%d_%d", id, j), w.n.W)}
				}
			}
			hv := map[string]interface{}{}
			for _, id := range ws {
				hv[fmt.Sprint(id)] = x.encVal(st, P{obj: id})
			}
			st.obs["cut:havoc"] = hv
			// phi overrides are applied after the phis are evaluated: emulate by
			// evaluating phis from the entry edge and then overwriting
			x.phiAlias = phiAliases(hdr, cut.Phis)
			f.prev = f.blk
			f.blk = hdr
			f.ip = 0
			for _, ins := range hdr.Instrs {
				ph, ok := ins.(*ssa.Phi)
				if !ok {
					break
				}
				idx := -1
				for k, p := range hdr.Preds {
					if p == f.prev {
						idx = k
					}
				}
				v := x.get(st, f, ph.Edges[idx])
				pname := ph.Comment
				if a, ok := x.phiAlias[pname]; ok {
					pname = a
				}
				if ov, ok := cut.Phis[pname]; ok {
					w := x.word(v)
					phis[pname] = map[string]interface{}{"entry": w.ID, "set": ov}
					v = W{x.d.ConstI(w.W, ov)}
				} else if w, ok := v.(W); ok && !w.n.IsConst() {
					x.fail("cut: symbolic phi %s without override", ph.Comment)
				} else if ok {
					phis[pname] = map[string]interface{}{"entry": w.n.ID}
				}
				f.loc[ph] = v
				f.ip++
			}
			st.obs["cut:phis"] = phis
			st.wset = map[int]bool{}
			st.cutSeq = st.seq
			return true // frame already positioned after the header's phis
		}
		// second arrival: record and stop
		nx := map[string]interface{}{}
		inW := map[int]bool{}
		for _, id := range x.cutW {
			inW[id] = true
			nx[fmt.Sprint(id)] = x.encVal(st, P{obj: id})
		}
		for id := range st.wset {
			if !inW[id] && st.mem[id] != nil && st.mem[id].seq <= st.cutSeq {
				x.fail("cut: loop body wrote object %s outside the discovered write set", st.mem[id].label)
			}
		}
		st.obs["cut:next"] = nx
		// phi values on the back edge
		ph2 := map[string]interface{}{}
		for _, ins := range hdr.Instrs {
			ph, ok := ins.(*ssa.Phi)
			if !ok {
				break
			}
			idx := -1
			for k, p := range hdr.Preds {
				if p == f.blk {
					idx = k
				}
			}
			if w, ok := x.get(st, f, ph.Edges[idx]).(W); ok {
				pname := ph.Comment
				if a, ok := x.phiAlias[pname]; ok {
					pname = a
				}
				ph2[pname] = w.n.ID
			}
		}
		st.obs["cut:next_phis"] = ph2
		st.end = "cut"
	default:
		x.fail("unknown cut mode %q", cut.Mode)
	}
	return false
}

// exploreDry runs a dry state until the cut header is reached again or the cut frame returns.
func (x *Exec) exploreDry(st *State, depth int) []*State {
	work := []*State{st}
	var done []*State
	for len(work) > 0 {
		s := work[len(work)-1]
		work = work[:len(work)-1]
		forks := x.runDry(s, depth)
		if forks == nil {
			done = append(done, s)
			if len(done) > 64 {
				x.fail("cut dry run: too many paths")
			}
		} else {
			work = append(work, forks...)
		}
	}
	return done
}

func (x *Exec) runDry(s *State, depth int) (forks []*State) {
	defer func() {
		if r := recover(); r != nil {
			switch e := r.(type) {
			case execErr:
				s.end = "error"
				s.err = e.msg
				forks = nil
			case pathEnd:
				forks = nil
			case *pendingFork:
				x.pend = nil
				forks = x.doFork(s, e)
			default:
				panic(r)
			}
		}
	}()
	for s.end == "" {
		if len(s.frames) < depth {
			s.end = "cut"
			break
		}
		if s.pj != nil {
			to := s.pj
			s.pj = nil
			x.jump(s, s.frames[len(s.frames)-1], to)
			continue
		}
		f := s.frames[len(s.frames)-1]
		if fk := x.step(s, f, f.blk.Instrs[f.ip]); fk != nil {
			return fk
		}
	}
	return nil
}

// ---------- stubs ----------

func (x *Exec) newHash(st *State) Val {
	o := x.newObj(st, "sha256-state", "Fresh", "hash", nil)
	st.hash[o.id] = &HashState{}
	return I{t: theHashType, v: P{obj: o.id}}
}

func (x *Exec) hashMethod(st *State, f *Frame, in *ssa.Call, obj int, m string, args []Val) {
	h := st.hash[obj]
	d := x.d
	switch m {
	case "Reset":
		h.data = nil
		x.ret(f, in, nil)
	case "Write":
		s := args[0].(S)
		for i := 0; i < s.ln; i++ {
			h.data = append(h.data, x.word(x.obj(st, s.obj).slots[s.off+i]))
		}
		x.ret(f, in, T{W{d.ConstI(64, int64(s.ln))}, I{}})
	case "Sum":
		b := args[0].(S)
		opn := "sha256"
		if h.alt {
			opn = "sha256alt" // a different function registered by another package
		}
		dig := d.mk(opn, 256, "", 0, len(h.data), nil, h.data...)
		slots := []Val{}
		if b.ln > 0 {
			slots = append(slots, x.obj(st, b.obj).slots[b.off:b.off+b.ln]...)
		}
		for i := 0; i < 32; i++ {
			slots = append(slots, W{d.Extract(dig, 8*(31-i), 8)})
		}
		// Sum appends to b; with b == nil (the only use in this module) the result is fresh
		if b.ln+32 <= b.cp && b.obj != 0 {
			for i := 0; i < 32; i++ {
				x.writeSlot(st, b.obj, b.off+b.ln+i, slots[b.ln+i])
			}
			x.ret(f, in, S{obj: b.obj, off: b.off, ln: b.ln + 32, cp: b.cp, esz: 1})
			return
		}
		o := x.newObj(st, "sha256-sum", "Fresh", "[]byte", slots)
		x.ret(f, in, S{obj: o.id, ln: len(slots), cp: len(slots), esz: 1})
	case "Size":
		x.ret(f, in, W{d.ConstI(64, 32)})
	case "BlockSize":
		x.ret(f, in, W{d.ConstI(64, 64)})
	default:
		x.fail("hash method %s", m)
	}
}

func (x *Exec) lookupType(pkg, name string) types.Type {
	p := x.prog.ImportedPackage(pkg)
	if p == nil {
		x.fail("package %s not loaded", pkg)
	}
	o := p.Pkg.Scope().Lookup(name)
	if o == nil {
		x.fail("type %s.%s not found", pkg, name)
	}
	return o.Type()
}

func (x *Exec) stub(st *State, f *Frame, in *ssa.Call, fn *ssa.Function, name string, args []Val) bool {
	d := x.d
	switch name {
	case "math/bits.Add64":
		a, b, c := x.word(args[0]), x.word(args[1]), x.word(args[2])
		x.ret(f, in, T{W{d.Tri("addc_s", a, b, c)}, W{d.Tri("addc_c", a, b, c)}})
		return true
	case "math/bits.Sub64":
		a, b, c := x.word(args[0]), x.word(args[1]), x.word(args[2])
		x.ret(f, in, T{W{d.Tri("subb_d", a, b, c)}, W{d.Tri("subb_b", a, b, c)}})
		return true
	case "math/bits.Mul64":
		a, b := x.word(args[0]), x.word(args[1])
		x.ret(f, in, T{W{d.MulHL("mulhi", a, b)}, W{d.MulHL("mullo", a, b)}})
		return true
	case "errors.New":
		msg := x.goString(st, args[0])
		o := x.newObj(st, "err:"+msg, "Global", "error", nil)
		o.frozen = true
		x.ret(f, in, I{t: types.NewPointer(x.lookupType("errors", "errorString")), v: P{obj: o.id}})
		return true
	case "fmt.Errorf":
		msg := x.goString(st, args[0])
		o := x.newObj(st, "fmt.Errorf:"+msg, "Fresh", "error", nil)
		x.ret(f, in, I{t: types.NewPointer(x.lookupType("fmt", "wrapError")), v: P{obj: o.id}})
		return true
	case "(crypto.Hash).New":
		if x.cfg.HashMode == "registry" {
			return false // execute the real body over the modelled registry
		}
		h := x.word(args[0])
		if !h.IsConst() || h.Val.Int64() != 5 {
			x.fail("crypto.Hash.New on hash other than SHA256")
		}
		x.ret(f, in, x.newHash(st))
		return true
	case "(crypto.Hash).Size":
		h := x.word(args[0])
		if !h.IsConst() || h.Val.Int64() != 5 {
			x.fail("crypto.Hash.Size on hash other than SHA256")
		}
		x.ret(f, in, W{d.ConstI(64, 32)})
		return true
	case "crypto/sha256.New":
		x.ret(f, in, x.newHash(st))
		return true
	case "crypto/sha256.Sum256":
		s := args[0].(S)
		var data []*Node
		for i := 0; i < s.ln; i++ {
			data = append(data, x.word(x.obj(st, s.obj).slots[s.off+i]))
		}
		dig := d.mk("sha256", 256, "", 0, len(data), nil, data...)
		out := make([]Val, 32)
		for i := range out {
			out[i] = W{d.Extract(dig, 8*(31-i), 8)}
		}
		x.ret(f, in, A{out})
		return true
	case "(*sync.Mutex).Lock", "(*sync.Mutex).Unlock", "(*sync.RWMutex).Lock", "(*sync.RWMutex).Unlock", "(*sync.RWMutex).RLock", "(*sync.RWMutex).RUnlock":
		// a single call is executed sequentially: locking has no effect on its result (writes to shared state are still recorded)
		x.ret(f, in, nil)
		return true
	case "sync/atomic.LoadUint32", "sync/atomic.LoadInt32", "sync/atomic.LoadUint64", "sync/atomic.LoadInt64", "sync/atomic.LoadPointer", "sync/atomic.LoadUintptr":
		// a single call runs sequentially: atomics are plain memory operations (writes to shared objects are still recorded)
		x.ret(f, in, x.load(st, args[0].(P), in.Type()))
		return true
	case "sync/atomic.StoreUint32", "sync/atomic.StoreInt32", "sync/atomic.StoreUint64", "sync/atomic.StoreInt64", "sync/atomic.StorePointer", "sync/atomic.StoreUintptr":
		x.store(st, args[0].(P), in.Common().Args[1].Type(), args[1])
		x.ret(f, in, nil)
		return true
	case "sync/atomic.CompareAndSwapUint32", "sync/atomic.CompareAndSwapInt32", "sync/atomic.CompareAndSwapUint64", "sync/atomic.CompareAndSwapInt64":
		cur := x.word(x.load(st, args[0].(P), in.Common().Args[1].Type()))
		eq := d.Cmp("eq", cur, x.word(args[1]))
		if !eq.IsConst() {
			x.fail("compare-and-swap on a symbolic value")
		}
		if eq.IsTrue() {
			x.store(st, args[0].(P), in.Common().Args[1].Type(), args[2])
		}
		x.ret(f, in, W{eq})
		return true
	case "sync/atomic.AddUint32", "sync/atomic.AddInt32", "sync/atomic.AddUint64", "sync/atomic.AddInt64":
		cur := x.word(x.load(st, args[0].(P), in.Common().Args[1].Type()))
		nv := d.Bin("add", cur, x.word(args[1]))
		x.store(st, args[0].(P), in.Common().Args[1].Type(), W{nv})
		x.ret(f, in, W{nv})
		return true
	case "(*sync.Pool).Get", "(*sync.Pool).Put":
		// a pool is shared mutable state of the process: recorded as a store into a global (C16), modelled as always empty
		pp := args[0].(P)
		at, fnm := x.curPos(st)
		lbl := "sync.Pool"
		if pp.obj != 0 {
			lbl = x.obj(st, pp.obj).label + " (sync.Pool)"
		}
		st.writes = append(st.writes, WriteRec{Obj: pp.obj, Label: lbl, Tag: "Global", Off: 0, At: at, Fn: fnm + " (shared pool)", Val: -1, Old: -1})
		if st.pools == nil {
			st.pools = map[int][]Val{}
		}
		if st.greads == nil {
			st.greads = map[string]bool{}
		}
		st.greads[lbl] = true
		if name == "(*sync.Pool).Put" {
			st.pools[pp.obj] = append(st.pools[pp.obj], args[1])
			x.ret(f, in, nil)
			return true
		}
		// Get: what an earlier call of this run Put back (the recycled object keeps its state), else New() if set, else nil
		if q := st.pools[pp.obj]; len(q) > 0 {
			v := q[len(q)-1]
			st.pools[pp.obj] = q[:len(q)-1]
			x.ret(f, in, v)
			return true
		}
		po := x.obj(st, pp.obj)
		var newf Val
		for _, s := range po.slots[pp.off:] {
			if fv, ok := s.(F); ok && fv.fn != nil {
				newf = fv
			}
		}
		if newf == nil {
			x.ret(f, in, I{})
			return true
		}
		if fn2, ok := newf.(F).fn.(*ssa.Function); ok {
			x.pushFrame(st, fn2, newf.(F).bind, in)
			if len(fn2.FreeVars) > 0 {
				nf := st.frames[len(st.frames)-1]
				for i, fv := range fn2.FreeVars {
					nf.loc[fv] = newf.(F).bind[i]
				}
			}
			return true
		}
		x.fail("sync.Pool.New of unsupported kind")
	case "(*sync.Mutex).TryLock":
		x.ret(f, in, W{d.Bool(true)})
		return true
	case "math/bits.Len64", "math/bits.Len32", "math/bits.Len", "math/bits.LeadingZeros64", "math/bits.LeadingZeros32", "math/bits.TrailingZeros64", "math/bits.TrailingZeros32":
		// table-driven in the standard library (symbolic index): position of the highest / lowest set bit as an ite chain
		v := x.word(args[0])
		w := v.W
		one := d.ConstI(1, 1)
		res := d.ConstI(64, 0)
		if strings.HasPrefix(name, "math/bits.TrailingZeros") {
			res = d.ConstI(64, int64(w))
			for i := w - 1; i >= 0; i-- {
				res = d.Ite(d.Cmp("eq", d.Extract(v, i, 1), one), d.ConstI(64, int64(i)), res)
			}
		} else {
			for i := 0; i < w; i++ {
				res = d.Ite(d.Cmp("eq", d.Extract(v, i, 1), one), d.ConstI(64, int64(i+1)), res)
			}
			if strings.HasPrefix(name, "math/bits.LeadingZeros") {
				res = d.Bin("sub", d.ConstI(64, int64(w)), res)
			}
		}
		x.ret(f, in, W{res})
		return true
	case "strconv.Itoa":
		n := x.word(args[0])
		if !n.IsConst() {
			x.fail("strconv.Itoa of symbolic value")
		}
		x.ret(f, in, x.strConst(st, strconv.FormatInt(signed(n.Val, 64).Int64(), 10)))
		return true
	case "math.Ceil":
		x.ret(f, in, Fl{math.Ceil(args[0].(Fl).f)})
		return true
	case "io.ReadFull":
		buf := args[1].(S)
		k := st.randCnt
		c := x.choose(st, 2)
		st.randCnt++
		for i := 0; i < buf.ln; i++ {
			x.writeSlot(st, buf.obj, buf.off+i, W{d.Var(fmt.Sprintf("rand%d_%d", k, i), 8)})
		}
		if c == 0 {
			x.ret(f, in, T{W{d.ConstI(64, int64(buf.ln))}, I{}})
		} else {
			o := x.newObj(st, "err:io-read-failure", "Fresh", "error", nil)
			nn := d.Var(fmt.Sprintf("readn%d", k), 64)
			st.pc = append(st.pc, d.Cmp("ult", nn, d.ConstI(64, int64(buf.ln))))
			x.ret(f, in, T{W{nn}, I{t: types.NewPointer(x.lookupType("errors", "errorString")), v: P{obj: o.id}}})
		}
		return true
	case "encoding/hex.EncodeToString":
		// contract: an opaque string that DecodeString maps back to exactly these bytes
		s := args[0].(S)
		slots := []Val{}
		if s.ln > 0 {
			slots = append(slots, x.obj(st, s.obj).slots[s.off:s.off+s.ln]...)
		}
		o := x.newObj(st, "hexenc", "Fresh", "hexstring", slots)
		x.ret(f, in, S{obj: o.id, ln: len(slots), cp: len(slots), esz: 1, isStr: true})
		return true
	case "encoding/hex.Encode":
		// hex.Encode(dst, src): dst[:2*len(src)] receives the digits (opaque), the buffer is remembered so that string(dst) is the
		// same abstract hex string as EncodeToString(src); panics if dst is too short, like the real function
		dst, src := args[0].(S), args[1].(S)
		if dst.ln < 2*src.ln {
			x.pathPanic(st, "index out of range (hex.Encode into a short buffer)")
		}
		var bytesIn []Val
		if src.ln > 0 {
			bytesIn = append(bytesIn, x.obj(st, src.obj).slots[src.off:src.off+src.ln]...)
		}
		for i := 0; i < 2*src.ln; i++ {
			x.writeSlot(st, dst.obj, dst.off+i, W{d.App("hexdigit", 8, []*Node{x.word(bytesIn[i/2]), d.ConstI(8, int64(i%2))})})
		}
		if st.hexbuf == nil {
			st.hexbuf = map[int][]Val{}
		}
		if dst.off == 0 {
			st.hexbuf[dst.obj] = bytesIn
		}
		x.ret(f, in, W{d.ConstI(64, int64(2*src.ln))})
		return true
	case "encoding/hex.DecodeString":
		s := args[0].(S)
		if s.obj != 0 && x.obj(st, s.obj).typ == "hexstring" {
			o := x.obj(st, s.obj)
			nb := x.newObj(st, "hexdec", "Fresh", "[]byte", append([]Val(nil), o.slots[s.off:s.off+s.ln]...))
			x.ret(f, in, T{S{obj: nb.id, ln: s.ln, cp: s.ln, esz: 1}, I{}})
			return true
		}
		if s.obj != 0 && x.obj(st, s.obj).typ == "nondet-hexstring" {
			// arbitrary string of 2*k hex digits or an invalid one: both outcomes
			c := x.choose(st, 2)
			if c == 0 {
				n := s.ln / 2
				slots := make([]Val, n)
				for i := range slots {
					slots[i] = W{x.freshVar("hexbyte", 8)}
				}
				nb := x.newObj(st, "hexdec", "Fresh", "[]byte", slots)
				if s.ln%2 == 1 {
					// odd length is always an error in encoding/hex
					o := x.newObj(st, "err:hex-odd-length", "Fresh", "error", nil)
					x.ret(f, in, T{S{esz: 1}, I{t: types.NewPointer(x.lookupType("errors", "errorString")), v: P{obj: o.id}}})
					return true
				}
				x.ret(f, in, T{S{obj: nb.id, ln: n, cp: n, esz: 1}, I{}})
			} else {
				o := x.newObj(st, "err:hex-invalid", "Fresh", "error", nil)
				x.ret(f, in, T{S{esz: 1}, I{t: types.NewPointer(x.lookupType("errors", "errorString")), v: P{obj: o.id}}})
			}
			return true
		}
		x.fail("hex.DecodeString of a concrete/unknown string is not modelled")
	}
	// harness intrinsics (matched by bare name so that every package's harness file can define them)
	switch fn.Name() {
	case "vNondetU64":
		x.ret(f, in, W{d.Var(x.goString(st, args[0]), 64)})
		return true
	case "vNondetByte":
		x.ret(f, in, W{d.Var(x.goString(st, args[0]), 8)})
		return true
	case "vNondetBool":
		x.ret(f, in, W{d.Var(x.goString(st, args[0]), 0)})
		return true
	case "vNondetBytes", "vNondetHexString":
		nm := x.goString(st, args[0])
		n := int(x.concrete(st, args[1], "nondet"))
		slots := make([]Val, n)
		for i := range slots {
			slots[i] = W{d.Var(fmt.Sprintf("%s_%d", nm, i), 8)}
		}
		if fn.Name() == "vNondetHexString" {
			o := x.newObj(st, "arg:"+nm, "Argument", "nondet-hexstring", slots)
			o.frozen = true
			x.ret(f, in, S{obj: o.id, ln: n, cp: n, esz: 1, isStr: true})
			return true
		}
		o := x.newObj(st, "arg:"+nm, "Argument", "[]byte", slots)
		x.ret(f, in, S{obj: o.id, ln: n, cp: n, esz: 1})
		return true
	case "vAssume":
		c := x.word(args[0])
		if c.IsFalse() {
			st.end = "assume-false"
			panic(pathEnd{})
		}
		if !c.IsTrue() {
			st.pc = append(st.pc, c)
		}
		x.ret(f, in, nil)
		return true
	case "vObserve":
		x.observe(st, x.goString(st, args[0]), args[1])
		x.ret(f, in, nil)
		return true
	case "vFlag":
		x.ret(f, in, W{d.Bool(x.cfg.Flags[x.goString(st, args[0])])})
		return true
	case "vHavoc":
		// every word-sized slot of the object becomes an unconstrained symbol: hidden per-object state (caches, flags) is arbitrary
		v := args[0]
		if iv, ok := v.(I); ok {
			v = iv.v
		}
		if pp, ok := v.(P); ok && pp.obj != 0 {
			o := x.obj(st, pp.obj)
			nm := x.goString(st, args[1])
			for i, sl := range o.slots {
				if w, ok := sl.(W); ok {
					o.slots[i] = W{d.Var(fmt.Sprintf("%s.hid%d", nm, i), w.n.W)}
				}
			}
		}
		x.ret(f, in, nil)
		return true
	case "vFreeze", "vTagArg", "vTagRecv":
		v := args[0]
		if iv, ok := v.(I); ok {
			v = iv.v
		}
		id := 0
		switch t := v.(type) {
		case P:
			id = t.obj
		case S:
			id = t.obj
		}
		if id != 0 {
			o := x.obj(st, id)
			switch fn.Name() {
			case "vFreeze":
				o.frozen = true
				if o.tag == "Fresh" {
					o.tag = "Argument"
				}
			case "vTagArg":
				o.tag = "Argument"
			case "vTagRecv":
				o.tag = "Receiver"
			}
			if len(args) > 1 {
				o.label = "arg:" + x.goString(st, args[1])
			}
		}
		x.ret(f, in, nil)
		return true
	case "vMark":
		st.mark = st.seq
		x.ret(f, in, nil)
		return true
	}
	if strings.HasPrefix(name, "math/big.") || strings.HasPrefix(name, "(*math/big.") {
		return x.bigStub(st, f, in, fn, name, args)
	}
	return false
}

// math/big is modelled over 256-bit values (every big.Int in this module holds a value < 2^256:
// 32-byte encodings, the group order, and the result of Exp modulo the order).
func (x *Exec) bigStub(st *State, f *Frame, in *ssa.Call, fn *ssa.Function, name string, args []Val) bool {
	d := x.d
	objOf := func(v Val) int {
		p := v.(P)
		if p.obj == 0 {
			x.pathPanic(st, "nil *big.Int")
		}
		return p.obj
	}
	val := func(v Val) *Node {
		n, ok := st.bigv[objOf(v)]
		if !ok {
			return d.ConstI(256, 0)
		}
		return n
	}
	switch name {
	case "math/big.NewInt":
		n := x.word(args[0])
		if !n.IsConst() || signed(n.Val, 64).Sign() < 0 {
			x.fail("big.NewInt of symbolic or negative value")
		}
		o := x.newObj(st, "big.Int", "Fresh", "big.Int", x.zeroSlots(x.lookupType("math/big", "Int"), nil))
		st.bigv[o.id] = d.Const(256, n.Val)
		x.ret(f, in, P{obj: o.id})
		return true
	case "(*math/big.Int).SetBytes":
		s := args[1].(S)
		if s.ln > 32 {
			x.fail("big.Int.SetBytes of more than 32 bytes is outside the 256-bit model")
		}
		var bs []*Node
		for i := 0; i < s.ln; i++ {
			bs = append(bs, x.word(x.obj(st, s.obj).slots[s.off+i]))
		}
		v := d.ConstI(256, 0)
		allc := true
		for _, b := range bs {
			if !b.IsConst() {
				allc = false
			}
		}
		if allc {
			acc := new(big.Int)
			for _, b := range bs {
				acc.Lsh(acc, 8)
				acc.Or(acc, b.Val)
			}
			v = d.Const(256, acc)
		} else {
			v = d.mk("catbe", 256, "", 0, len(bs), nil, bs...)
		}
		st.bigv[objOf(args[0])] = v
		x.ret(f, in, args[0])
		return true
	case "(*math/big.Int).SetString":
		// constants written as strings (typically in package initialisers)
		str := x.goString(st, args[1])
		base := x.word(args[2])
		if !base.IsConst() {
			x.fail("big.Int.SetString with a symbolic base")
		}
		acc, okp := new(big.Int).SetString(str, int(base.Val.Int64()))
		if !okp || acc.Sign() < 0 || acc.BitLen() > 256 {
			x.fail("big.Int.SetString outside the 256-bit model")
		}
		st.bigv[objOf(args[0])] = d.Const(256, acc)
		x.ret(f, in, T{args[0], W{d.Bool(true)}})
		return true
	case "(*math/big.Int).Exp":
		r := d.App("modexp", 256, []*Node{val(args[1]), val(args[2]), val(args[3])})
		st.bigv[objOf(args[0])] = r
		x.ret(f, in, args[0])
		return true
	case "(*math/big.Int).FillBytes":
		// big-endian value into the whole buffer, zero-extended (panics if it does not fit: buffers shorter than 32 bytes are outside the model)
		v := val(args[0])
		buf := args[1].(S)
		if buf.ln < 32 {
			x.fail("big.Int.FillBytes into fewer than 32 bytes is outside the 256-bit model")
		}
		for i := 0; i < buf.ln; i++ {
			var b Val = W{d.ConstI(8, 0)}
			if i >= buf.ln-32 {
				b = W{d.Extract(v, 8*(buf.ln-1-i), 8)}
			}
			x.writeSlot(st, buf.obj, buf.off+i, b)
		}
		x.ret(f, in, buf)
		return true
	case "(*math/big.Int).Bytes":
		v := val(args[0])
		// minimal big-endian encoding: length L in 0..32, exhaustive and mutually exclusive
		L := x.choose(st, 33)
		if L < 32 {
			st.pc = append(st.pc, d.Cmp("ult", v, d.Const(256, new(big.Int).Lsh(big.NewInt(1), uint(8*L)))))
		}
		if L > 0 {
			st.pc = append(st.pc, d.Cmp("ule", d.Const(256, new(big.Int).Lsh(big.NewInt(1), uint(8*(L-1)))), v))
		}
		slots := make([]Val, L)
		for i := range slots {
			slots[i] = W{d.Extract(v, 8*(L-1-i), 8)}
		}
		o := x.newObj(st, "big.Bytes", "Fresh", "[]byte", slots)
		x.ret(f, in, S{obj: o.id, ln: L, cp: L, esz: 1})
		return true
	}
	x.fail("math/big function %s is not modelled", name)
	return false
}


// phiAliases: a loop counter that was merely renamed still receives its override: a requested name that no phi of the header carries
// is given to the header's only other integer phi.
func phiAliases(hdr *ssa.BasicBlock, want map[string]int64) map[string]string {
	out := map[string]string{}
	have := map[string]bool{}
	var ints []string
	for _, ins := range hdr.Instrs {
		ph, ok := ins.(*ssa.Phi)
		if !ok {
			break
		}
		have[ph.Comment] = true
		if intWidth(ph.Type()) > 0 {
			ints = append(ints, ph.Comment)
		}
	}
	var missing []string
	for k := range want {
		if !have[k] {
			missing = append(missing, k)
		}
	}
	var free []string
	for _, c := range ints {
		if _, asked := want[c]; !asked {
			free = append(free, c)
		}
	}
	if len(missing) == 1 && len(free) == 1 {
		out[free[0]] = missing[0]
	}
	return out
}
