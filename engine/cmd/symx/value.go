package main

import (
	"fmt"
	"go/types"
)

// Val is one of: W (scalar word / bool), P (pointer), S (slice or string),
// A (aggregate: flattened slots), T (tuple), I (interface), F (function), Fl (float).
type Val interface{}

type W struct{ n *Node }
type Fl struct{ f float64 }
type P struct {
	obj int // 0 = nil
	off int
}
type S struct {
	obj, off   int // obj 0 = nil slice
	ln, cp     int
	esz        int // slots per element
	isStr      bool
}
type A struct{ f []Val }
type T []Val
type I struct {
	t types.Type // nil = nil interface
	v Val
}
type F struct {
	fn   interface{} // *ssa.Function or *ssa.Builtin
	bind []Val
}

type Object struct {
	id     int
	label  string
	tag    string // Argument | Receiver | Global | Fresh | Const
	slots  []Val
	frozen bool
	seq    int
	site   string
	typ    string
}

func (o *Object) clone() *Object {
	c := *o
	c.slots = append([]Val(nil), o.slots...)
	return &c
}

// slotsOf returns the number of scalar slots a value of type t occupies.
func slotsOf(t types.Type) int {
	switch u := t.Underlying().(type) {
	case *types.Array:
		return int(u.Len()) * slotsOf(u.Elem())
	case *types.Struct:
		n := 0
		for i := 0; i < u.NumFields(); i++ {
			n += slotsOf(u.Field(i).Type())
		}
		return n
	case *types.Tuple:
		panic("tuple slots")
	default:
		return 1
	}
}

func fieldOffset(st *types.Struct, idx int) int {
	n := 0
	for i := 0; i < idx; i++ {
		n += slotsOf(st.Field(i).Type())
	}
	return n
}

func isSigned(t types.Type) bool {
	if b, ok := t.Underlying().(*types.Basic); ok {
		return b.Info()&types.IsUnsigned == 0 && b.Info()&types.IsInteger != 0
	}
	return false
}

func intWidth(t types.Type) int {
	b, ok := t.Underlying().(*types.Basic)
	if !ok {
		return -1
	}
	switch b.Kind() {
	case types.Bool, types.UntypedBool:
		return 0
	case types.Int8, types.Uint8:
		return 8
	case types.Int16, types.Uint16:
		return 16
	case types.Int32, types.Uint32, types.UntypedRune:
		return 32
	case types.Int, types.Uint, types.Int64, types.Uint64, types.Uintptr, types.UntypedInt:
		return 64
	}
	return -1
}

func (x *Exec) zeroSlots(t types.Type, out []Val) []Val {
	switch u := t.Underlying().(type) {
	case *types.Array:
		for i := int64(0); i < u.Len(); i++ {
			out = x.zeroSlots(u.Elem(), out)
		}
		return out
	case *types.Struct:
		for i := 0; i < u.NumFields(); i++ {
			out = x.zeroSlots(u.Field(i).Type(), out)
		}
		return out
	case *types.Basic:
		if u.Info()&types.IsFloat != 0 {
			return append(out, Fl{0})
		}
		if u.Info()&types.IsString != 0 {
			return append(out, S{isStr: true, esz: 1})
		}
		if u.Kind() == types.UnsafePointer {
			return append(out, P{})
		}
		w := intWidth(t)
		if w < 0 {
			panic(fmt.Sprintf("zero of %v", t))
		}
		if w == 0 {
			return append(out, W{x.d.Bool(false)})
		}
		return append(out, W{x.d.ConstI(w, 0)})
	case *types.Pointer:
		return append(out, P{})
	case *types.Slice:
		return append(out, S{esz: slotsOf(u.Elem())})
	case *types.Interface:
		return append(out, I{})
	case *types.Signature:
		return append(out, F{})
	case *types.Map, *types.Chan:
		return append(out, P{})
	}
	panic(fmt.Sprintf("zero of %v", t))
}

// zeroVal returns the zero value of t as a Val (aggregate for arrays/structs).
func (x *Exec) zeroVal(t types.Type) Val {
	s := x.zeroSlots(t, nil)
	switch t.Underlying().(type) {
	case *types.Array, *types.Struct:
		return A{s}
	}
	return s[0]
}

func isAgg(t types.Type) bool {
	switch t.Underlying().(type) {
	case *types.Array, *types.Struct:
		return true
	}
	return false
}

// flat returns the slots of v.
func flat(v Val) []Val {
	if a, ok := v.(A); ok {
		return a.f
	}
	return []Val{v}
}
