package main

// symx: symbolic executor for Go SSA.  Reads a JSON job on stdin, loads the target
// module (with overlay harness files), runs each requested harness and prints a JSON
// document with the term DAG and the explored paths.

import (
	"time"
	"encoding/json"
	"fmt"
	"go/constant"
	"go/types"
	"os"
	"sort"
	"strings"

	"golang.org/x/tools/go/packages"
	"golang.org/x/tools/go/ssa"
	"golang.org/x/tools/go/ssa/ssautil"
)

type Job struct {
	Env     []string          `json:"env"`
	Dir     string            `json:"dir"`
	Pkg     string            `json:"pkg"`
	Module  string            `json:"module"`
	Overlay map[string]string `json:"overlay"`
	Runs    []*RunCfg         `json:"runs"`
}

type PathOut struct {
	ID       int                    `json:"id"`
	PC       []int                  `json:"pc"`
	End      string                 `json:"end"`
	Panic    string                 `json:"panic,omitempty"`
	Err      string                 `json:"err,omitempty"`
	Obs      map[string]interface{} `json:"obs"`
	Writes   []WriteRec             `json:"writes"`
	Trace    []string               `json:"trace"`
	Branches []BranchRec            `json:"branches"`
	Steps    int                    `json:"steps"`
	GReads   []string               `json:"greads"`
}

type RunOut struct {
	ID        string         `json:"id"`
	Harness   string         `json:"harness"`
	Error     string         `json:"error,omitempty"`
	Nodes     []*Node        `json:"nodes"`
	Paths     []*PathOut     `json:"paths"`
	Functions []string       `json:"functions"`
	Stubs     []string       `json:"stubs"`
	ZGlobals  []string       `json:"zero_globals"`
	Loops     map[string]int `json:"loops"`
	Summaries []string       `json:"summaries_used"`
	Usage     []string       `json:"summary_usage"`
	Registry  map[string]string `json:"registry,omitempty"`
}

func main() {
	var job Job
	if err := json.NewDecoder(os.Stdin).Decode(&job); err != nil {
		fmt.Fprintln(os.Stderr, "symx: bad job:", err)
		os.Exit(2)
	}
	overlay := map[string][]byte{}
	for virt, real := range job.Overlay {
		b, err := os.ReadFile(real)
		if err != nil {
			fmt.Fprintln(os.Stderr, "symx: overlay:", err)
			os.Exit(2)
		}
		overlay[virt] = b
	}
	cfg := &packages.Config{
		Mode:    packages.LoadAllSyntax,
		Dir:     job.Dir,
		Overlay: overlay,
		Env:     append(append(os.Environ(), "GOFLAGS=-mod=mod", "GOPROXY=off", "GOSUMDB=off", "GOTOOLCHAIN=local"), job.Env...),
	}
	pkgs, err := packages.Load(cfg, job.Pkg)
	if err != nil {
		fmt.Fprintln(os.Stderr, "symx: load:", err)
		os.Exit(2)
	}
	if packages.PrintErrors(pkgs) > 0 {
		os.Exit(2)
	}
	prog, spkgs := ssautil.AllPackages(pkgs, ssa.InstantiateGenerics)
	var root *ssa.Package
	for i, p := range pkgs {
		if p.PkgPath == job.Pkg {
			root = spkgs[i]
		}
	}
	if root == nil {
		fmt.Fprintln(os.Stderr, "symx: package not found")
		os.Exit(2)
	}
	modPkgs := map[string]bool{}
	for _, p := range prog.AllPackages() {
		if strings.HasPrefix(p.Pkg.Path(), job.Module) {
			modPkgs[p.Pkg.Path()] = true
			p.Build()
		}
	}
	var out struct {
		Runs []*RunOut `json:"runs"`
	}
	for _, rc := range job.Runs {
		out.Runs = append(out.Runs, runHarness(prog, root, modPkgs, rc))
	}
	enc := json.NewEncoder(os.Stdout)
	if err := enc.Encode(&out); err != nil {
		fmt.Fprintln(os.Stderr, "symx: encode:", err)
		os.Exit(2)
	}
}

// registryScan finds crypto.RegisterHash(const, f) calls in init functions of the import closure of root.
func registryScan(prog *ssa.Program, root *ssa.Package) map[int64]string {
	reg := map[int64]string{}
	seen := map[*types.Package]bool{}
	var visit func(p *types.Package)
	visit = func(p *types.Package) {
		if seen[p] {
			return
		}
		seen[p] = true
		for _, q := range p.Imports() {
			visit(q)
		}
		sp := prog.Package(p)
		if sp == nil {
			return
		}
		sp.Build()
		for _, m := range sp.Members {
			fn, ok := m.(*ssa.Function)
			if !ok || !strings.HasPrefix(fn.Name(), "init") {
				continue
			}
			for _, b := range fn.Blocks {
				for _, ins := range b.Instrs {
					c, ok := ins.(*ssa.Call)
					if !ok {
						continue
					}
					cf, ok := c.Call.Value.(*ssa.Function)
					if !ok || cf.String() != "crypto.RegisterHash" {
						continue
					}
					if k, ok := c.Call.Args[0].(*ssa.Const); ok {
						h, _ := constant.Int64Val(constant.ToInt(k.Value))
						reg[h] = fmt.Sprint(c.Call.Args[1]) + " in " + p.Path()
					}
				}
			}
		}
	}
	visit(root.Pkg)
	return reg
}

func runHarness(prog *ssa.Program, root *ssa.Package, modPkgs map[string]bool, rc *RunCfg) (ro *RunOut) {
	ro = &RunOut{ID: rc.ID, Harness: rc.Harness, Loops: map[string]int{}}
	if rc.MaxPaths == 0 {
		rc.MaxPaths = 4000
	}
	if rc.MaxSecs == 0 {
		rc.MaxSecs = 150
	}
	if rc.MaxSteps == 0 {
		rc.MaxSteps = 5000000
	}
	if rc.MaxLoop == 0 {
		rc.MaxLoop = 100000
	}
	x := &Exec{d: newDAG(), prog: prog, cfg: rc, summ: map[string]*Summary{}, usage: map[string]bool{}, funcs: map[string]bool{}, stubs: map[string]bool{},
		zglobals: map[string]bool{}, loops: ro.Loops, modPkgs: modPkgs, maxPaths: rc.MaxPaths}
	for _, s := range rc.Summaries {
		x.summ[s.Fn] = s
	}
	defer func() {
		if r := recover(); r != nil {
			if e, ok := r.(execErr); ok {
				ro.Error = e.msg
				return
			}
			panic(r)
		}
	}()
	hf := root.Func(rc.Harness)
	if hf == nil {
		ro.Error = "harness not found: " + rc.Harness
		return
	}
	st := &State{mem: map[int]*Object{}, wset: map[int]bool{}, obs: map[string]interface{}{}, globals: map[*ssa.Global]int{},
		hash: map[int]*HashState{}, bigv: map[int]*Node{}, forced: -1, conc: map[int]int64{}, strObj: map[string]int{}}
	// run package initialisers of the module (dependencies first via the synthetic init's own calls)
	initFn := root.Func("init")
	x.pushFrame(st, initFn, nil, nil)
	ends := x.explore(st)
	if len(ends) != 1 || ends[0].end != "return" {
		ro.Error = "package init did not run to a single return"
		if len(ends) > 0 {
			ro.Error += ": " + ends[0].end + " " + ends[0].err + " " + ends[0].panicV
		}
		return
	}
	st = ends[0]
	st.end = ""
	st.steps = 0
	x.nPaths = 0
	// after init, every global of the module is read-only as far as the API is concerned
	for g, id := range st.globals {
		_ = g
		st.mem[id].frozen = true
	}
	for _, o := range st.mem {
		if o.tag == "Fresh" {
			o.tag = "Global" // allocated during init: reachable only from globals
		}
	}
	starts := []*State{st}
	if rc.HashMode == "registry" {
		reg := registryScan(prog, root)
		ro.Registry = map[string]string{}
		for h, s := range reg {
			ro.Registry[fmt.Sprint(h)] = s
		}
		// the set of other packages linked into the program is one symbolic Boolean:
		// "some package outside this package's import closure registers SHA-256"
		other := x.d.Var("other_package_registers_sha256", 0)
		st2 := st.clone()
		st.pc = append(st.pc, other)
		regWith := map[int64]string{}
		for k, v := range reg {
			regWith[k] = v
		}
		regWith[5] = "another package"
		x.setupRegistry(st, regWith)
		st2.pc = append(st2.pc, x.d.BNot(other))
		st3 := st2.clone()
		x.setupRegistry(st2, reg)
		// third configuration: some other package re-registers SHA-256 with a different constructor
		// (crypto.RegisterHash silently overwrites); only code that consults the registry can notice
		override := x.d.Var("other_package_overrides_sha256", 0)
		st3.pc = append(st3.pc, override)
		regOv := map[int64]string{}
		for k, v := range reg {
			regOv[k] = v
		}
		regOv[5] = "override"
		x.setupRegistry(st3, regOv)
		starts = []*State{st, st2, st3}
	}
	var args []Val
	for i, p := range hf.Params {
		if i >= len(rc.Args) {
			ro.Error = "missing harness argument"
			return
		}
		w := intWidth(p.Type())
		if w <= 0 {
			ro.Error = "harness parameters must be integers"
			return
		}
		args = append(args, W{x.d.ConstI(w, rc.Args[i])})
	}
	ends = nil
	for _, s0 := range starts {
		s0.mark = s0.seq
		s0.postInit = true
		x.pushFrame(s0, hf, args, nil)
		x.deadline = time.Now().Add(time.Duration(rc.MaxSecs) * time.Second)
		ends = append(ends, x.explore(s0)...)
	}
	sort.SliceStable(ends, func(i, j int) bool { return false })
	for i, e := range ends {
		po := &PathOut{ID: i, End: e.end, Panic: e.panicV, Err: e.err, Obs: e.obs, Writes: e.writes, Trace: e.trace, Branches: e.branches, Steps: e.steps}
		for _, c := range e.pc {
			po.PC = append(po.PC, c.ID)
		}
		po.GReads = sortedKeys(e.greads)
		if po.Writes == nil {
			po.Writes = []WriteRec{}
		}
		if po.Trace == nil {
			po.Trace = []string{}
		}
		if po.Branches == nil {
			po.Branches = []BranchRec{}
		}
		if po.PC == nil {
			po.PC = []int{}
		}
		ro.Paths = append(ro.Paths, po)
	}
	ro.Nodes = x.d.nodes
	ro.Functions = sortedKeys(x.funcs)
	ro.Stubs = sortedKeys(x.stubs)
	ro.ZGlobals = sortedKeys(x.zglobals)
	for k := range x.summ {
		ro.Summaries = append(ro.Summaries, k)
	}
	sort.Strings(ro.Summaries)
	ro.Usage = sortedKeys(x.usage)
	return ro
}

// setupRegistry models crypto's hash registry: slot h holds a constructor iff some
// package in the import closure of the package under test registers it, or iff the
// symbolic "other packages" Boolean of this run says so.
func (x *Exec) setupRegistry(st *State, reg map[int64]string) {
	cp := x.prog.ImportedPackage("crypto")
	if cp == nil {
		x.fail("crypto not loaded")
	}
	g := cp.Var("hashes")
	if g == nil {
		x.fail("crypto.hashes not found")
	}
	maxHash := int64(20)
	if c := cp.Const("maxHash"); c != nil {
		maxHash, _ = constant.Int64Val(constant.ToInt(c.Value.Value))
	}
	slots := make([]Val, maxHash)
	for i := range slots {
		slots[i] = F{}
		if v, ok := reg[int64(i)]; ok {
			slots[i] = F{fn: "symx.hashctor"}
			if v == "override" {
				slots[i] = F{fn: "symx.otherctor"}
			}
		}
	}
	other := x.cfg.Args != nil && len(x.cfg.Args) > 0 && x.cfg.Args[len(x.cfg.Args)-1] == 1
	_ = other
	o := x.newObj(st, "crypto.hashes", "Global", "[]func() hash.Hash", slots)
	gid := x.globalObj(st, g)
	st.mem[gid].slots[0] = S{obj: o.id, ln: int(maxHash), cp: int(maxHash), esz: 1}
}
