"""C17 - hashing functions work in any program that imports the package.

The quantifier "all sets of other packages linked into the binary" becomes one symbolic Boolean:
"some package outside this package's import closure registers SHA-256".  symx (i) scans the init
functions of the package's own import closure (go/packages of the package, not of a test binary) for
crypto.RegisterHash(const, f) calls, (ii) builds crypto's registry accordingly (slot 5 additionally
filled iff the Boolean is true) and executes the REAL body of crypto.Hash.New over it, (iii) the
solver decides whether a path ending in panic is feasible for some value of the Boolean."""
import os, shutil, subprocess, tempfile
from vf import core, smt
from vf.core import Check
from vf.dag import BVLower
from vf.params import *

HARNESS = ['root_intrinsics.go', 'root_element.go', 'root_map.go', 'root_hash.go']
KS = kernel_summaries('scalar', 's') + kernel_summaries('field', 'f')
FN = {0: 'HashToGroup', 1: 'EncodeToGroup', 2: 'HashToScalar'}
MAIN = '''package main

import (
	"fmt"

	"github.com/bytemare/secp256k1"
)

func main() {
	dst := []byte("verif-plain-main-dst")
	fmt.Println(secp256k1.HashToGroup([]byte("m"), dst).Hex())
	fmt.Println(secp256k1.EncodeToGroup([]byte("m"), dst).Hex())
	fmt.Println(secp256k1.HashToScalar([]byte("m"), dst).Hex())
}
'''


def plain_main():
    """builds and runs a program that imports nothing but the package (and fmt); returns (ok, output)"""
    work = os.path.join(core.VERIF, 'work')
    os.makedirs(work, exist_ok=True)
    d = tempfile.mkdtemp(prefix='plainmain_', dir=work)
    try:
        open(os.path.join(d, 'go.mod'), 'w').write('module plainmain\n\ngo 1.22\n\nrequire github.com/bytemare/secp256k1 v0.0.0\n\nreplace github.com/bytemare/secp256k1 => %s\n' % core.REPO)
        open(os.path.join(d, 'go.sum'), 'w').write('')
        open(os.path.join(d, 'main.go'), 'w').write(MAIN)
        p = subprocess.run(['go', 'run', '.'], cwd=d, env=core.GOENV, capture_output=True, text=True, timeout=300)
        return p.returncode == 0, (p.stdout + p.stderr)[-600:]
    finally:
        shutil.rmtree(d, ignore_errors=True)


def run(tier, seed):
    ck = Check('C17', tier, seed, level='other')
    jobs = [{'id': 'reg%d' % f, 'harness': 'vh_hash', 'args': [f, 3, 16, 0], 'summaries': KS, 'hashmode': 'registry'} for f in FN]
    runs = ck.absorb(core.symx(HARNESS, jobs))
    ck.extra['_runs'] = runs
    ck.trusted = ['go/ssa + symx translation', 'SMT solvers', 'the Go linker links exactly the import closure; crypto.RegisterHash calls happen in init functions with constant hash identifiers',
                  'a registered constructor returns a working hash.Hash (stub)']
    ck.assumptions = ['the rest of the program is arbitrary: it may or may not register SHA-256']
    ck.bounds = {'programs': 'all, abstracted to the Boolean other_package_registers_sha256', 'calls': 'HashToGroup, EncodeToGroup, HashToScalar on a 3-byte message and 16-byte DST (hash availability does not depend on contents)'}
    ck.extra['explanation'] = 'configuration quantifier turned into a solver variable; registry of the package\'s own import closure: %s' % (runs[0].d.get('registry') or 'no RegisterHash call found')
    bad = None
    for f, r in zip(FN, runs):
        tag = 'C17.' + FN[f]
        rets = [p for p in r.paths if p['end'] == 'return']
        oth = [p for p in r.paths if p['end'] != 'return']
        ck.ground(tag + '.returns', 'a returning path exists', len(rets) >= 1)
        low = BVLower(r)
        low.emit([c for p in r.paths for c in p['pc']])
        for p in oth:
            res = ck.prove('%s.nopanic%d' % (tag, p['id']), 'no value of the other-packages Boolean leads to "%s"' % (p.get('panic') or p.get('err')),
                           low.all() + '\n' + '\n'.join('(assert n%d)' % c for c in p['pc']), timeout=30)
            if res.status == 'sat':
                m, _ = smt.get_model(low.all() + '\n' + '\n'.join('(assert n%d)' % c for c in p['pc']), [low.name(i) for i in low.done if r.nodes[i]['op'] == 'var'])
                bad = (FN[f], p.get('panic'), m)
        for p in rets:
            ck.prove('%s.reach%d' % (tag, p['id']), 'returning path reachable', low.all() + '\n' + '\n'.join('(assert n%d)' % c for c in p['pc']), expect='sat', timeout=30)
        uses = [fn for fn in r.functions if fn.startswith('(crypto.Hash).New')]
        ck.notes.append('%s: crypto.Hash.New executed from real SSA: %s; registry: %s' % (FN[f], bool(uses), r.d.get('registry')))
    if bad:
        ok, out = plain_main()
        path = ck.save_replay({'property': 'C17', 'kind': 'plain-main', 'program': MAIN, 'solver_model': {'other_package_registers_sha256': False}, 'symbolic': list(bad[:2])})
        if not ok:
            ck.violation('sha256-not-linked', '%s panics in a program that imports only this package: %s' % (bad[0], out.strip().splitlines()[0:1]), path)
        else:
            ck.inconclusive.append('panic path feasible in the model but the plain main runs: %s' % out[-200:])
    elif tier == 'thorough':
        ok, out = plain_main()
        ck.ground('C17.plain-main', 'auxiliary: a main importing only this package runs all three functions', ok, out[-200:] if not ok else '')
    return ck.finish()


def replay(path):
    ok, out = plain_main()
    print(out)
    return 0 if ok else 1
