"""C17 - hashing functions work in any program that imports the package.

The quantifier "all sets of other packages linked into the binary" becomes one symbolic Boolean:
"some package outside this package's import closure registers SHA-256".  symx (i) scans the init
functions of the package's own import closure (go/packages of the package, not of a test binary) for
crypto.RegisterHash(const, f) calls, (ii) builds crypto's registry accordingly (slot 5 additionally
filled iff the Boolean is true) and executes the REAL body of crypto.Hash.New over it, (iii) the
solver decides whether a path ending in panic is feasible for some value of the Boolean."""
import os, shutil, subprocess, tempfile
from vf import core, smt
from vf.core import Check
from vf.dag import BVLower
from vf.params import *

HARNESS = ['root_intrinsics.go', 'root_element.go', 'root_map.go', 'root_hash.go']
KS = kernel_summaries('scalar', 's') + kernel_summaries('field', 'f')
FN = {0: 'HashToGroup', 1: 'EncodeToGroup', 2: 'HashToScalar'}
MAIN = '''package main

import (
	"fmt"

	"github.com/bytemare/secp256k1"
)

func main() {
	// a program may recover from the documented empty-DST panic and carry on: later calls must still return
	for i := 0; i < 3; i++ {
		func() {
			defer func() { _ = recover() }()
			switch i {
			case 0:
				secp256k1.HashToGroup([]byte("m"), nil)
			case 1:
				secp256k1.EncodeToGroup([]byte("m"), []byte{})
			default:
				secp256k1.HashToScalar([]byte("m"), nil)
			}
		}()
	}
	// call sequences with slowly growing DSTs and an oversize one in between: whatever the package keeps between calls
	// (pooled states, cached digests) must not make a later call fail
	for _, n := range []int{1, 2, 3, 15, 16, 17, 300, 33, 34, 255, 256, 49, 50} {
		dst := make([]byte, n)
		for i := range dst {
			dst[i] = byte('A' + i%26)
		}
		_ = secp256k1.HashToScalar([]byte("seq"), dst)
		_ = secp256k1.EncodeToGroup([]byte("seq"), dst)
	}
	for _, n := range []int{20, 1, 300} {
		dst := make([]byte, n)
		for i := range dst {
			dst[i] = byte('a' + i%26)
		}
		for _, msg := range [][]byte{[]byte("m"), nil, make([]byte, 31)} {
			fmt.Println(secp256k1.HashToGroup(msg, dst).Hex())
			fmt.Println(secp256k1.EncodeToGroup(msg, dst).Hex())
			fmt.Println(secp256k1.HashToScalar(msg, dst).Hex())
		}
	}
}
'''


def plain_main():
    """builds and runs a program that imports nothing but the package (and fmt), with the default scheduler settings and on a
    single P (GOMAXPROCS=1: a one-CPU container); a run that does not finish counts as a failure; returns (ok, output)"""
    for env in ((), ('GOMAXPROCS=1',)):
        try:
            ok, out = run_main(MAIN, env, timeout=120)
        except subprocess.TimeoutExpired:
            return False, 'a hashing function does not return (program killed after 120 s%s)' % (' with ' + env[0] if env else '')
        if not ok:
            return False, out
    return True, out


RAND_MAIN = '''package main

import (
	"crypto/rand"
	"errors"
	"fmt"
	"os"

	"github.com/bytemare/secp256k1"
)

// another part of the program has replaced crypto/rand.Reader (a public variable): hashing is deterministic and must
// neither fail nor change
type zeroReader struct{}

func (zeroReader) Read(p []byte) (int, error) { for i := range p { p[i] = 0 }; return len(p), nil }

type failReader struct{}

func (failReader) Read(p []byte) (int, error) { return 0, errors.New("entropy source unavailable") }

func main() {
	switch os.Getenv("VERIF_RAND") {
	case "zero":
		rand.Reader = zeroReader{}
	case "fail":
		rand.Reader = failReader{}
	}
	dst := []byte("verif-rand-main-dst-0123456789")
	for _, msg := range [][]byte{[]byte("m"), nil, make([]byte, 31)} {
		fmt.Println(secp256k1.HashToGroup(msg, dst).Hex())
		fmt.Println(secp256k1.EncodeToGroup(msg, dst).Hex())
		fmt.Println(secp256k1.HashToScalar(msg, dst).Hex())
	}
}
'''


def rand_main():
    """hashing under a replaced crypto/rand.Reader; returns (ok, detail)"""
    ok0, ref = run_main(RAND_MAIN)
    if not ok0:
        return False, 'with the default reader: ' + ref[-200:]
    for mode in ('zero', 'fail'):
        ok, out = run_main(RAND_MAIN, ['VERIF_RAND=' + mode])
        if not ok:
            return False, 'MISMATCH: with rand.Reader replaced (%s) a hashing function fails: %s' % (mode, out.strip().splitlines()[:1])
        if out != ref:
            return False, 'MISMATCH: with rand.Reader replaced (%s) the results differ from those with the default reader' % mode
    return True, ''


OVERRIDE_MAIN = '''package main

import (
	"bytes"
	"crypto"
	"crypto/sha256"
	"crypto/sha512"
	"fmt"
	"math/big"
	"os"

	"github.com/bytemare/secp256k1"
)

// another package of the program re-registers SHA-256 (crypto.RegisterHash overwrites silently)
func init() { crypto.RegisterHash(crypto.SHA256, sha512.New512_256) }

func xmd(msg, dst []byte, n int) []byte {
	dp := append(append([]byte{}, dst...), byte(len(dst)))
	h := func(parts ...[]byte) []byte { s := sha256.New(); for _, p := range parts { s.Write(p) }; return s.Sum(nil) }
	b0 := h(make([]byte, 64), msg, []byte{byte(n >> 8), byte(n)}, []byte{0}, dp)
	bi := h(b0, []byte{1}, dp)
	out := append([]byte{}, bi...)
	for i := 2; len(out) < n; i++ {
		x := make([]byte, 32)
		for j := range x { x[j] = b0[j] ^ bi[j] }
		bi = h(x, []byte{byte(i)}, dp)
		out = append(out, bi...)
	}
	return out[:n]
}

func main() {
	n, _ := new(big.Int).SetString("fffffffffffffffffffffffffffffffebaaedce6af48a03bbfd25e8cd0364141", 16)
	dst := []byte("verif-override-main-dst")
	want := make([]byte, 32)
	new(big.Int).Mod(new(big.Int).SetBytes(xmd([]byte("m"), dst, 48)), n).FillBytes(want)
	got := secp256k1.HashToScalar([]byte("m"), dst).Encode()
	if !bytes.Equal(got, want) {
		fmt.Printf("MISMATCH: HashToScalar = %x, RFC 9380 with SHA-256 gives %x\\n", got, want)
		os.Exit(1)
	}
	fmt.Println("ok")
}
'''
PLATFORMS = [[], ['GOARCH=riscv64'], ['GOARCH=ppc64le'], ['GOARCH=arm64', 'GOOS=darwin'], ['GOOS=windows'], ['CGO_ENABLED=0', 'GOFLAGS=-mod=mod -tags=purego']]


def run_main(src, env_extra=(), timeout=300):
    work = os.path.join(core.VERIF, 'work')
    os.makedirs(work, exist_ok=True)
    d = tempfile.mkdtemp(prefix='plainmain_', dir=work)
    try:
        open(os.path.join(d, 'go.mod'), 'w').write('module plainmain\n\ngo 1.22\n\nrequire github.com/bytemare/secp256k1 v0.0.0\n\nreplace github.com/bytemare/secp256k1 => %s\n' % core.REPO)
        open(os.path.join(d, 'go.sum'), 'w').write('')
        open(os.path.join(d, 'main.go'), 'w').write(src)
        p = subprocess.run(['go', 'run', '.'], cwd=d, env=dict(core.GOENV, **dict(e.split('=', 1) for e in env_extra)), capture_output=True, text=True, timeout=timeout)
        return p.returncode == 0, (p.stdout + p.stderr)[-600:]
    finally:
        shutil.rmtree(d, ignore_errors=True)


def deps_have_sha256(env_extra):
    p = subprocess.run(['go', 'list', '-deps', '.'], cwd=core.REPO, env=dict(core.GOENV, **dict(e.split('=', 1) for e in env_extra)), capture_output=True, text=True, timeout=300)
    return 'crypto/sha256' in p.stdout.split(), (p.stdout[-200:] + p.stderr[-300:])


def run(tier, seed):
    ck = Check('C17', tier, seed, level='other')
    runs = []
    plats = PLATFORMS if tier == 'thorough' else PLATFORMS[:4]
    for pi, env in enumerate(plats):
        jobs = [{'id': 'reg%d_p%d' % (f, pi), 'harness': 'vh_hash', 'args': [f, 3, 16, 0], 'summaries': KS, 'hashmode': 'registry'} for f in (FN if pi == 0 else [2])]
        if pi == 0:
            # every code path that may ask for a hash: oversize DST (pre-hash), short DST, empty message
            jobs += [{'id': 'reg%d_p%d_%d_%d' % (f, pi, m, d), 'harness': 'vh_hash', 'args': [f, m, d, 0], 'summaries': KS, 'hashmode': 'registry'} for f in FN for (m, d) in ((3, 300), (0, 1))]
            # consecutive calls (state the package keeps between calls): second DST one byte longer / first DST oversize
            jobs += [{'id': 'reg2_p0_tw%d' % mode, 'harness': 'vh_hash_twice', 'args': [2, 3, d, mode], 'summaries': KS, 'hashmode': 'registry'} for (mode, d) in ((3, 16), (4, 33))]
        rs = ck.absorb(core.symx(HARNESS, jobs, env=env))
        for r in rs:
            r.platform = ' '.join(env) or 'host'
            r.env = env
        runs += rs
    ck.extra['_runs'] = runs
    ck.trusted = ['go/ssa + symx translation', 'SMT solvers', 'the Go linker links exactly the import closure; crypto.RegisterHash calls happen in init functions with constant hash identifiers',
                  'a registered constructor returns a working hash.Hash (stub)']
    ck.assumptions = ['the rest of the program is arbitrary: it may or may not register SHA-256']
    ck.bounds = {'programs': 'all, abstracted to the Booleans other_package_registers_sha256 / other_package_overrides_sha256', 'calls': 'HashToGroup, EncodeToGroup, HashToScalar with (|msg|,|dst|) in (3,16), (3,300: oversize pre-hash path), (0,1); two consecutive HashToScalar calls with |dst| = 15 then 16 and 300 then 33'}
    ck.extra['explanation'] = 'configuration quantifier turned into a solver variable; registry of the package\'s own import closure: %s' % (runs[0].d.get('registry') or 'no RegisterHash call found')
    ck.bounds['build configurations'] = [' '.join(e) or 'host (linux/amd64)' for e in plats]
    bad = None
    override_dep = None
    for r in runs:
        f = int(r.id[3])
        tag = 'C17.' + FN[f] + '.' + r.platform.replace(' ', ',')
        alt = any(n['op'] == 'sha256alt' for n in r.nodes)
        if not ck.ground(tag + '.own-hash', 'the digest function is the package\'s own SHA-256 even if another package re-registers crypto.SHA256 (no digest comes from an overriding registration)', not alt):
            override_dep = (FN[f], r.platform)
        rets = [p for p in r.paths if p['end'] == 'return']
        oth = [p for p in r.paths if p['end'] != 'return']
        ck.ground(tag + '.returns', 'a returning path exists', len(rets) >= 1)
        low = BVLower(r)
        low.emit([c for p in r.paths for c in p['pc']])
        for p in oth:
            res = ck.prove('%s.nopanic%d' % (tag, p['id']), 'no value of the other-packages Boolean leads to "%s"' % (p.get('panic') or p.get('err')),
                           low.all() + '\n' + '\n'.join('(assert n%d)' % c for c in p['pc']), timeout=30)
            if res.status == 'sat':
                m, _ = smt.get_model(low.all() + '\n' + '\n'.join('(assert n%d)' % c for c in p['pc']), [low.name(i) for i in low.done if r.nodes[i]['op'] == 'var'])
                bad = (FN[f], p.get('panic'), m, r.env, r.platform)
        for p in rets:
            ck.prove('%s.reach%d' % (tag, p['id']), 'returning path reachable', low.all() + '\n' + '\n'.join('(assert n%d)' % c for c in p['pc']), expect='sat', timeout=30)
        uses = [fn for fn in r.functions if fn.startswith('(crypto.Hash).New')]
        ck.notes.append('%s: crypto.Hash.New executed from real SSA: %s; registry: %s' % (FN[f], bool(uses), r.d.get('registry')))
    if bad:
        env = bad[3]
        path = ck.save_replay({'property': 'C17', 'kind': 'plain-main', 'program': MAIN, 'env': env, 'solver_model': {'other_package_registers_sha256': False}, 'symbolic': list(bad[:2])})
        if not env:
            ok, out = plain_main()
            if not ok:
                ck.violation('sha256-not-linked', '%s panics in a program that imports only this package: %s' % (bad[0], out.strip().splitlines()[0:1]), path)
            else:
                # the failing path may depend on other process-wide state a program is free to change: the randomness source
                okr, outr = rand_main()
                if not okr and 'MISMATCH' in outr:
                    path = ck.save_replay({'property': 'C17', 'kind': 'rand-main', 'program': RAND_MAIN, 'symbolic': list(bad[:2])})
                    ck.violation('depends-on-rand-reader', '%s depends on crypto/rand.Reader: %s' % (bad[0], outr), path)
                else:
                    ck.inconclusive.append('panic path feasible in the model but the plain main runs: %s' % out[-200:])
        else:
            # a foreign platform cannot be executed here: the replay is the real build graph for that platform
            has, out = deps_have_sha256(env)
            if not has:
                ck.violation('sha256-not-linked:' + bad[4], '%s: for %s the package\'s import closure (go list -deps) does not contain crypto/sha256 while the code asks crypto\'s registry for it' % (bad[0], bad[4]), path)
            else:
                ck.inconclusive.append('panic path feasible in the model for %s but go list -deps shows crypto/sha256' % bad[4])
    if override_dep and not ck.violations:
        ok, out = run_main(OVERRIDE_MAIN)
        path = ck.save_replay({'property': 'C17', 'kind': 'override-main', 'program': OVERRIDE_MAIN, 'solver_model': {'other_package_overrides_sha256': True}})
        if not ok and 'MISMATCH' in out:
            ck.violation('sha256-from-registry', '%s takes its hash from crypto\'s mutable registry: a program in which another package re-registers crypto.SHA256 gets %s' % (override_dep[0], out.strip().splitlines()[-1:]), path)
        else:
            ck.inconclusive.append('registry dependence found symbolically but the override program agrees with RFC 9380: %s' % out[-200:])
    elif tier == 'thorough':
        ok, out = plain_main()
        ck.ground('C17.plain-main', 'auxiliary: a main importing only this package runs all three functions', ok, out[-200:] if not ok else '')
    return ck.finish()


def replay(path):
    import json
    d = json.load(open(path))
    if d.get('kind') == 'rand-main':
        ok, out = rand_main()
        print(out)
        return 0 if ok else 1
    if d.get('kind') == 'override-main':
        ok, out = run_main(OVERRIDE_MAIN)
    elif d.get('env'):
        ok, out = deps_have_sha256(d['env'])
    else:
        ok, out = plain_main()
    print(out)
    return 0 if ok else 1
