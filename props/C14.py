"""C14 - Scalar.Bits is the exact 256-bit binary expansion of the canonical value.

Encoded: (*Scalar).Bits from /repo's SSA, its range loop unrolled (concrete bound), with
scalar.FromMontgomery replaced by an uninterpreted function whose only assumed property is
its C06 contract `result < n`.  One obligation per bit position."""
from vf import core, smt, kernels
from vf.core import Check
from vf.dag import BVLower
from vf.params import *

HARNESS = ['root_intrinsics.go', 'root_scalar.go']


def run(tier, seed, ck=None):
    own = ck is None
    ck = ck or Check('C14', tier, seed, level='proof')
    runs = ck.absorb(core.symx(HARNESS, [{'id': 'bits', 'harness': 'vh_bits', 'summaries': kernel_summaries('scalar', 's')}]))
    r = runs[0]
    ck.extra.setdefault('_runs', []).extend(runs)
    ck.trusted += ['go/ssa + symx translation (T1,T2)', 'SMT solvers (raced, cross-checked)',
                  'contract of scalar.FromMontgomery (canonical value < n), proved in C06']
    ck.assumptions += ['FromMontgomery is an uninterpreted function with result < n (its proof is C06\'s obligation)',
                      'the four Montgomery limbs of the receiver are arbitrary 64-bit words']
    ck.bounds.update({'bit positions': '0..255, one obligation each', 'scalar limbs': 'all 2^256 limb vectors'})
    kernels.prove(ck, 'scalar', ['FromMontgomery'], tier)
    paths = [p for p in r.paths if p['end'] == 'return']
    ck.ground('C14.paths', 'every path of Bits returns (no panic for any limb vector); %d path(s)' % len(r.paths), len(paths) == len(r.paths) and len(paths) >= 1,
              str([(p['end'], p.get('panic')) for p in r.paths if p['end'] != 'return'][:2]))
    apps = [n for n in r.nodes if n['op'] == 'app' and n['n'] == 'sfrom']
    ck.ground('C14.from', 'exactly one FromMontgomery application, on the receiver limbs', len(apps) == 1)
    if len(apps) != 1:
        raise ValueError('Bits does not obtain the canonical value through one FromMontgomery call (%d applications)' % len(apps))
    nid = apps[0]['id']
    allbad, cases = [], []
    reach = 0
    for p in paths:
        tagp = 'C14' if len(paths) == 1 else 'C14.path%d' % p['id']
        bits = p['obs']['bits']['f']
        ck.ground(tagp + '.len', 'result has 256 entries', len(bits) == 256, 'len=%d' % len(bits))
        low = BVLower(r)
        prelude = low.emit(bits + [nid] + p['pc'])
        prelude += '\n(assert (bvult n%d %s))' % (nid, bvconst256(N))
        for c in p['pc']:
            prelude += '\n(assert n%d)' % c
        if len(paths) == 1:
            # reachability witness
            ck.prove(tagp + '.reach', 'harness assumptions are satisfiable', prelude, expect='sat', timeout=30)
            reach += 1
        else:
            res = smt.check(prelude, timeout=30)
            ck.record(tagp + '.feasible', 'path feasibility (infeasible paths carry no obligation)', res.status, res.solver, res.secs, res.status if res.status in ('sat', 'unsat') else 'sat')
            if res.status == 'unsat':
                continue
            reach += 1
        goals = []
        for i in range(min(len(bits), 256)):
            g = '(assert (not (= n%d ((_ zero_extend 7) ((_ extract %d %d) n%d)))))' % (bits[i], i, i, nid)
            goals.append((tagp + '.bit%d' % i, 'Bits()[%d] in {0,1} and equals bit %d of the canonical value' % (i, i), g))
        ans = ck.prove_batch(prelude, goals, timeout=30)
        bad = [i for i, a in enumerate(ans) if a != 'unsat']
        if bad:
            i = bad[0]
            svars = [low.name(x) for x in p['obs']['S']['f']]
            m, _ = smt.get_model(prelude + '\n' + goals[i][2], ['n%d' % nid] + svars)
            if m:
                cases.append({'kind': 'bits', 'a': '%064x' % (m['n%d' % nid] % N)})
                # the limbs the solver chose, with their TRUE canonical value (the defect may depend on the Montgomery form)
                Sm = unlimbs([m[x] for x in svars])
                if Sm < N:
                    cases.append({'kind': 'bits', 'a': '%064x' % (Sm * pow(R, -1, N) % N)})
            # steering: canonical values that exercise the failing position
            for v in [1 << i, N - 1, (1 << i) | 1]:
                if v < N:
                    cases.append({'kind': 'bits', 'a': '%064x' % v})
            allbad += bad
    if len(paths) > 1:
        ck.ground('C14.reach', 'at least one path is feasible', reach >= 1)
    if allbad:
        bad = sorted(set(allbad))
        for sp in [1, 2**64, 2**128, 2**191, 5 * 2**64 + 3]:   # scalars whose Montgomery form is sparse / short
            cases.append({'kind': 'bits', 'a': '%064x' % (sp * pow(R, -1, N) % N)})
        for v in [2**64, 2**128, 2**192, 2**255, 2**64 - 1, 7 * 2**64, 2**192 + 1, 2**128 + 2**10]:   # canonical values with all-zero limbs
            cases.append({'kind': 'bits', 'a': '%064x' % v})
        path = ck.save_replay({'property': 'C14', 'cases': cases, 'failed_positions': bad})
        ok, out = core.go_test(path)
        if not ok and 'MISMATCH' in out:
            ck.violation('bits:%s' % ','.join(map(str, bad[:8])), 'Bits() wrong at positions %s; %s' % (bad[:16], [l for l in out.splitlines() if 'MISMATCH' in l][:1]), path)
        else:
            ck.inconclusive.append('solver counterexample at positions %s did not reproduce: %s' % (bad[:16], out[-300:]))
    if own:
        from props import hidden
        hidden.embed(ck, tier, ('scalar',), 'C14', 'Bits', observers=['bits'])
    return ck.finish() if own else None


def replay(path):
    ok, out = core.go_test(path)
    print(out)
    return 0 if ok else 1
