"""C06 - scalar arithmetic is exact arithmetic modulo the group order.

Layer 1: every Fiat kernel of internal/scalar against its Montgomery contract (linear-integer
encoding + solver-checked modular certificate).  Layer 2: the Scalar methods executed from
/repo's SSA with the kernels as uninterpreted functions: each method must apply the right
kernel to the right operands under every receiver/argument aliasing and nil case.  Layer 3:
the inversion addition chain re-executed in the exponent domain (e = n-2), Pow over a
256-bit model of math/big."""
from vf import core, smt, kernels
from vf.core import Check
from vf.dag import BVLower, ensure_vars, varid
from vf.uf import MontUF, concat_limbs, BV256
from vf.params import *

HARNESS = ['root_intrinsics.go', 'root_scalar.go', 'root_scalar6.go']
SUMM = kernel_summaries('scalar', 's')
ONE_M = R % N
MINUS_ONE_M = (N - 1) * R % N


def asserts(ids):
    return '\n'.join('(assert n%d)' % c for c in ids)


def limbs_eq(ids, term):
    return '(and %s)' % ' '.join('(= n%d ((_ extract %d %d) %s))' % (x, 64 * i + 63, 64 * i, term) for i, x in enumerate(ids))


def const_limbs(r, ids):
    """value of four constant limb cells; kernel applications on constants (e.g. MinusOne computed as Sub(0, One)) are evaluated by
    the kernels' contracts, which this check proves on the current tree"""
    if all(r.nodes[i]['op'] == 'const' for i in ids):
        return unlimbs([int(r.nodes[i]['v']) for i in ids])

    def val(nid):
        n = r.nodes[nid]
        if n['op'] == 'pack':
            return const_limbs(r, n['a'])
        if n['op'] == 'app' and n['n'] in ('sadd', 'ssub', 'smul', 'ssq'):
            a = [val(x) for x in n['a']]
            if any(v is None for v in a):
                return None
            if n['n'] == 'sadd':
                return (a[0] + a[1]) % N
            if n['n'] == 'ssub':
                return (a[0] - a[1]) % N
            if n['n'] == 'smul':
                return a[0] * a[1] * pow(R, -1, N) % N
            return a[0] * a[0] * pow(R, -1, N) % N
        return None
    ns = [r.nodes[i] for i in ids]
    if all(n['op'] == 'limb' for n in ns) and len({n['a'][0] for n in ns}) == 1 and [n.get('i', 0) for n in ns] == list(range(len(ns))):
        return val(ns[0]['a'][0])
    return None


def exponent_script(r, root, base, mulop, sqop):
    """SMT script: exponent of the app tree rooted at `root` as an Int term, base has exponent 1"""
    lines, memo = [], {}

    def go(i):
        if i in memo:
            return memo[i]
        n = r.nodes[i]
        if i == base:
            memo[i] = '1'
        elif n['op'] == 'app' and n['n'] == mulop:
            a, b = go(n['a'][0]), go(n['a'][1])
            lines.append('(define-fun e%d () Int (+ %s %s))' % (i, a, b))
            memo[i] = 'e%d' % i
        elif n['op'] == 'app' and n['n'] == sqop:
            a = go(n['a'][0])
            lines.append('(define-fun e%d () Int (* 2 %s))' % (i, a))
            memo[i] = 'e%d' % i
        else:
            raise core.EngineError('inversion chain contains %s %s' % (n['op'], n.get('n')))
        return memo[i]
    import sys
    sys.setrecursionlimit(10000)
    top = go(root)
    return '\n'.join(lines), top, len(lines)


def run(tier, seed, ck=None):
    own = ck is None
    ck = ck or Check('C06', tier, seed, level='proof')
    jobs = []
    for op in (0, 1, 2, 5, 6):
        for al in (0, 1, 2):
            jobs.append({'id': 'op%d_%d' % (op, al), 'harness': 'vh_sop2', 'args': [op, al], 'summaries': SUMM})
    for op in (3, 4, 7, 8, 9, 10):
        jobs.append({'id': 'op%d' % op, 'harness': 'vh_sop1', 'args': [op], 'summaries': SUMM})
    jobs += [{'id': 'setu', 'harness': 'vh_setuint64', 'summaries': SUMM}, {'id': 'new', 'harness': 'vh_newscalar', 'summaries': SUMM}]
    runs = ck.absorb(core.symx_parallel(HARNESS, jobs))
    ck.extra.setdefault('_runs', []).extend(runs)
    R_ = {r.id: r for r in runs}
    ck.trusted += ['go/ssa + symx translation', 'SMT solvers', 'Fermat: x^(n-2) is the inverse of x != 0 modulo the prime n (and 0^(n-2) = 0)',
                  'x -> x*R mod n is a ring isomorphism, so the Montgomery-domain contracts are the value-level ring operations',
                  'math/big.Int.Exp is modular exponentiation; SetBytes/Bytes are big-endian conversions']
    ck.assumptions += ['operands canonical (< n), the representation invariant (C10)']
    ck.bounds = {'operands': 'all pairs of canonical limb vectors; SetUInt64: all 2^64 words', 'aliasing': 'distinct / argument is the receiver / nil argument',
                 'Pow': 'every length 0..32 of math/big\'s minimal byte string'}
    ck.outside += ['internals of math/big (modelled as 256-bit values with modexp uninterpreted, result < modulus)']
    kernels.prove(ck, 'scalar', ['Mul', 'Square', 'Add', 'Sub', 'FromMontgomery', 'ToMontgomery', 'Selectznz', 'Nonzero', 'SetOne'], tier)

    names = {0: ('Add', 'sadd'), 1: ('Subtract', 'ssub'), 2: ('Multiply', 'smul')}
    for op, (nm, uf) in names.items():
        for al in (0, 1, 2):
            r = R_['op%d_%d' % (op, al)]
            tag = 'C06.%s.alias%d' % (nm, al)
            p = r.paths[0]
            o = p['obs']
            ck.ground(tag + '.shape', 'single returning path, returns the receiver', len(r.paths) == 1 and p['end'] == 'return' and r.nodes[o['same']['n']].get('v') == '1')
            if al == 2:
                if op == 2:
                    ck.ground(tag + '.nil', 'Multiply(nil) sets the receiver to 0', const_limbs(r, o['S']['f']) == 0)
                else:
                    ck.ground(tag + '.nil', '%s(nil) leaves the receiver unchanged' % nm, o['S']['f'] == o['S0']['f'])
                continue
            low = BVLower(r)
            low.emit(o['S']['f'] + o['S0']['f'] + o['T0']['f'] + o['T']['f'])
            f, _ = low.declare_uf(uf, [BV256, BV256], BV256)
            Sx, Tx = concat_limbs(['n%d' % x for x in o['S0']['f']]), concat_limbs(['n%d' % x for x in o['T0']['f']])
            goals = [(tag + '.kernel', '%s: receiver := %s(receiver, argument) on exactly these operands' % (nm, uf), '(assert (not %s))' % limbs_eq(o['S']['f'], '(%s %s %s)' % (f, Sx, Tx)))]
            if al == 0:
                goals.append((tag + '.frame', 'argument unchanged', '(assert (not (and %s)))' % ' '.join('(= n%d n%d)' % (a, b) for a, b in zip(o['T']['f'], o['T0']['f']))))
            ck.prove_batch(low.all(), goals, timeout=30)

    # Square, Invert
    r = R_['op3']
    p = r.paths[0]; o = p['obs']
    low = BVLower(r); low.emit(o['S']['f'] + o['S0']['f'])
    f, _ = low.declare_uf('ssq', [BV256], BV256)
    ck.ground('C06.Square.shape', 'single path, returns receiver', len(r.paths) == 1 and r.nodes[o['same']['n']].get('v') == '1')
    fmq, _ = low.declare_uf('smul', [BV256, BV256], BV256)
    s0q = concat_limbs(['n%d' % x for x in o['S0']['f']])
    ck.prove_batch(low.all(), [('C06.Square.kernel', 'Square: receiver := ssq(receiver), or smul(receiver, receiver) (the same value by the two kernel contracts)',
                                '(assert (not (or %s %s)))' % (limbs_eq(o['S']['f'], '(%s %s)' % (f, s0q)), limbs_eq(o['S']['f'], '(%s %s %s)' % (fmq, s0q, s0q))))], timeout=30)

    r = R_['op4']
    p = r.paths[0]; o = p['obs']
    ck.ground('C06.Invert.shape', 'single path (all loops have concrete bounds), returns receiver', len(r.paths) == 1 and p['end'] == 'return' and r.nodes[o['same']['n']].get('v') == '1')
    S = o['S']['f']
    roots = {r.nodes[x]['a'][0] for x in S if r.nodes[x]['op'] == 'limb'}
    ok = len(roots) == 1 and all(r.nodes[x]['op'] == 'limb' and r.nodes[x].get('i', 0) == i for i, x in enumerate(S))
    ck.ground('C06.Invert.tree', 'result is one product tree over the receiver\'s original value', ok)
    if ok:
        base = [n['id'] for n in r.nodes if n['op'] == 'pack' and n['a'] == o['S0']['f']]
        script, top, steps = exponent_script(r, roots.pop(), base[0] if base else -1, 'smul', 'ssq')
        ck.prove('C06.Invert.exponent', 'addition chain (%d multiply/square steps, %s) computes x^(n-2)' % (steps, r.loops), script + '\n(assert (not (= %s %d)))' % (top, N - 2), timeout=60)
        ck.extra['invert_chain_steps'] = steps
        # witness: the encoding is not vacuous
        ck.prove('C06.Invert.exponent.witness', 'exponent term is satisfiable as computed', script + '\n(assert (= %s %d))' % (top, N - 2), expect='sat', timeout=60)

    # constants
    for op, nm, want in ((7, 'Zero', 0), (8, 'One', ONE_M), (9, 'MinusOne', MINUS_ONE_M)):
        r = R_['op%d' % op]
        o = r.paths[0]['obs']
        ck.ground('C06.%s' % nm, '%s sets the receiver to the Montgomery form of %s' % (nm, {0: '0', ONE_M: '1', MINUS_ONE_M: 'n-1'}[want]),
                  len(r.paths) == 1 and const_limbs(r, o['S']['f']) == want and r.nodes[o['same']['n']].get('v') == '1')
    r = R_['new']
    ck.ground('C06.NewScalar', 'NewScalar is 0', const_limbs(r, r.paths[0]['obs']['S']['f']) == 0)
    r = R_['op10']
    o = r.paths[0]['obs']
    ck.ground('C06.Copy', 'Copy returns a fresh scalar with the same limbs and leaves the receiver unchanged',
              o['R']['f'] == o['S0']['f'] and o['S']['f'] == o['S0']['f'] and o['rfresh']['fresh'] and r.nodes[o['same']['n']].get('v') == '0')
    # Set
    for al in (0, 1, 2):
        r = R_['op5_%d' % al]
        o = r.paths[0]['obs']
        if al == 2:
            ck.ground('C06.Set.nil', 'Set(nil) gives 0', const_limbs(r, o['S']['f']) == 0)
        else:
            ck.ground('C06.Set.alias%d' % al, 'Set copies the argument limbs, argument unchanged', o['S']['f'] == o['T0']['f'] and o['T']['f'] == o['T0']['f'])

    # SetUInt64
    r = R_['setu']
    p = r.paths[0]; o = p['obs']
    low = BVLower(r); low.emit(o['S']['f'])
    mu = MontUF(low, 's')
    iv, _ = ensure_vars(r, low, ['i'])
    ck.prove_batch(low.all(), [('C06.SetUInt64', 'SetUInt64(i): receiver := ToMontgomery(i) for every 64-bit i (i < 2^64 < n, so the value is i)',
                                '(assert (not %s))' % limbs_eq(o['S']['f'], '(%s ((_ zero_extend 192) %s))' % (mu.to, iv[0])))], timeout=30)

    # ---- Pow ----
    for al in (0, 1, 2):
        r = R_['op6_%d' % al]
        tag = 'C06.Pow.alias%d' % al
        rets = [p for p in r.paths if p['end'] == 'return']
        pans = [p for p in r.paths if p['end'] != 'return']
        if al == 2:
            ck.ground(tag, 'Pow(nil) = 1', len(r.paths) == 1 and const_limbs(r, rets[0]['obs']['S']['f']) == ONE_M)
            continue
        # the executor explores every feasible branch (35 returning paths on the pinned tree: the 33 lengths of big.Int.Bytes plus the two
        # shortcuts); each returning path is checked under its own condition below, each other path must be infeasible
        ck.ground(tag + '.lengths', 'Pow has returning paths (%d) and every one of them is checked' % len(rets), len(rets) >= 1, 'returns=%d others=%d' % (len(rets), len(pans)))
        S0, T0 = rets[0]['obs']['S0']['f'], rets[0]['obs']['T0']['f']

        def one_path(p):
            low = BVLower(r)
            roots = p['pc'] + (p['obs']['S']['f'] if p['end'] == 'return' else []) + S0 + T0
            low.emit(roots)
            mu = MontUF(low, 's')
            me, _ = low.declare_uf('modexp', [BV256, BV256, BV256], BV256)
            Sx, Tx = concat_limbs(['n%d' % x for x in S0]), concat_limbs(['n%d' % x for x in T0])
            ax = [mu.axioms_for(r, roots, [Sx, Tx]), '(assert (bvult %s %s))' % (Sx, mu.M()), '(assert (bvult %s %s))' % (Tx, mu.M())]
            for n in r.nodes:
                if n['op'] == 'app' and n['n'] == 'modexp' and n['id'] in low.done:
                    ax.append('(assert (=> (not (= n%d (_ bv0 256))) (bvult n%d n%d)))' % (n['a'][2], n['id'], n['a'][2]))
            spec = '(ite (= {T} (_ bv0 256)) {one} (ite (= {T} {one}) {S} ({to} ({me} ({fr} {S}) ({fr} {T}) {n}))))'.format(
                T=Tx, S=Sx, one=bvconst256(ONE_M), to=mu.to, fr=mu.frm, me=me, n=bvconst256(N))
            pre = '\n'.join([low.all()] + ax + ['(define-fun spec () (_ BitVec 256) %s)' % spec, asserts(p['pc'])])
            if p['end'] != 'return':
                ck.prove(tag + '.nopanic%d' % p['id'], 'Pow never panics: path ending in %s (%s) is infeasible' % (p['end'], p.get('panic') or p.get('err')), pre, timeout=120)
            else:
                goal = pre + '\n(assert (not %s))' % limbs_eq(p['obs']['S']['f'], 'spec')
                res = ck.prove(tag + '.value%d' % p['id'], 'Pow: receiver = (t=0 ? 1 : t=1 ? s : ToMontgomery(modexp(value s, value t, n)))', goal, timeout=120)
                if res.status == 'sat':
                    # operands from the model (limbs -> true canonical values) for the replay
                    sv, _ = ensure_vars(r, low, ['s%d' % i for i in range(4)])
                    tv, _ = ensure_vars(r, low, ['t%d' % i for i in range(4)])
                    m, _ = smt.get_model(low.all() + goal[len(pre.split('(define-fun spec')[0]) - 0:] if False else goal, sv + tv, timeout=60)
                    if m:
                        Ri = pow(R, -1, N)
                        ck.extra.setdefault('_powcex', []).append((unlimbs([m[x] for x in sv]) * Ri % N, unlimbs([m[x] for x in (tv if al == 0 else sv)]) * Ri % N))
                if p is rets[-1]:
                    ck.prove(tag + '.reach', 'general Pow path reachable', pre, expect='sat', timeout=60)
        with core.ThreadPoolExecutor(max_workers=5) as ex:
            list(ex.map(one_path, r.paths))
    if any(not o['ok'] for o in ck.obls) and not ck.violations:
        battery(ck)
    if own:
        # the verdicts above are about single calls from the initial package state: histories (observe, scribble on returned slices, mutate, observe) must not change them
        from props import hidden
        hidden.embed(ck, tier, ('scalar',), 'C06', 'scalar arithmetic', observers=[])
    return ck.finish() if own else None


def battery(ck):
    """a failed obligation above the kernel layer: replay boundary and seeded operands through the public API"""
    cases = api_cases(ck.seed, ck.extra.get('_powcex', []))
    path = ck.save_replay({'property': ck.pid, 'cases': cases})
    ok, out = core.go_test(path)
    if not ok and 'MISMATCH' in out:
        ck.violation('scalar-api', 'scalar arithmetic wrong through the public API: %s' % [l.strip() for l in out.splitlines() if 'MISMATCH' in l][:1], path)
    else:
        ck.inconclusive.append('failed obligation did not reproduce on boundary/seeded operands')


def api_cases(seed, powcex):
    import random
    rng = random.Random(7 + seed)
    vals = [0, 1, 2, N - 1, N - 2, 2**64 - 1, 2**64, 2**128, 2**255, (N - 1) // 2] + [rng.randrange(N) for _ in range(6)]
    cases = []
    for op in ('add', 'sub', 'mul', 'square', 'invert', 'add-self', 'sub-self', 'mul-self', 'pow', 'pow-self', 'set-self', 'one', 'minusone', 'zero'):
        for a in vals[:8] + vals[-3:]:
            for b in (vals[:5] + vals[-2:]) if op in ('add', 'sub', 'mul', 'pow') else [1]:
                cases.append({'kind': 'scalar-op', 'op': op, 'a': '%064x' % a, 'b': '%064x' % b})
    for a, b in powcex[:6]:
        cases.insert(0, {'kind': 'scalar-op', 'op': 'pow', 'a': '%064x' % a, 'b': '%064x' % b})
    for u in (0, 1, 2**64 - 1, 2**63, rng.getrandbits(64)):
        cases.append({'kind': 'scalar-op', 'op': 'setuint64', 'a': '%064x' % 5, 'b': '%064x' % 1, 'u': u})
    # operands whose Montgomery form is sparse (low limbs zero) and words at the top of the uint64 range
    Ri = pow(R, -1, N)
    for mv in (2**32, 5 * 2**32, 2**64, 3 * 2**64, 2**96, 2**128, 2**192):
        for v in (mv % N, mv * Ri % N):
            for op in ('square', 'invert', 'mul-self', 'add-self'):
                cases.append({'kind': 'scalar-op', 'op': op, 'a': '%064x' % v, 'b': '%064x' % 1})
    for u in (2**64 - 1, 0xc973e8ecba39100a, 0xc973e8ecba391009, 2**63 + 12345, 0xffffffff00000000):
        cases.append({'kind': 'scalar-op', 'op': 'setuint64', 'a': '%064x' % 5, 'b': '%064x' % 1, 'u': u})
    return cases


def replay(path):
    ok, out = core.go_test(path)
    print(out)
    return 0 if ok else 1
