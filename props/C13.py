"""C13 - scalar comparisons follow integer semantics of canonical values; CSelect selects on
every 64-bit condition word.

Encoded in QF_UFBV from /repo's SSA: Scalar.Equal/IsZero/IsOne/LessOrEqual/CSelect with
scalar.Equal, IsFEZero, IsZero, IsNonZero, CMove, Selectznz, cmovznzU64 executed for real;
FromMontgomery/ToMontgomery are uninterpreted with their C06 contracts instantiated."""
from vf import core, smt, kernels
from vf.core import Check
from vf.dag import BVLower, ensure_vars, varid
from vf.uf import MontUF, concat_limbs
from vf.params import *

HARNESS = ['root_intrinsics.go', 'root_scalar.go']
SUMM = kernel_summaries('scalar', 's')


def asserts(ids):
    return '\n'.join('(assert n%d)' % c for c in ids)


def real_from(x):
    return x * pow(R, -1, N) % N


def run(tier, seed, ck=None):
    own = ck is None
    ck = ck or Check('C13', tier, seed, level='proof')
    jobs = [{'id': 'cmp', 'harness': 'vh_cmp', 'summaries': SUMM},
            {'id': 'cmp_self', 'harness': 'vh_cmp_self', 'summaries': SUMM},
            {'id': 'eqnil', 'harness': 'vh_equal_nil', 'summaries': SUMM}]
    for a in range(5):
        jobs.append({'id': 'csel%d' % a, 'harness': 'vh_cselect', 'args': [a], 'summaries': SUMM})
    for w in range(3):
        jobs.append({'id': 'cselnil%d' % w, 'harness': 'vh_cselect_nil', 'args': [w], 'summaries': SUMM})
    runs = ck.absorb(core.symx(HARNESS, jobs))
    ck.extra.setdefault('_runs', []).extend(runs)
    R_ = {r.id: r for r in runs}
    ck.trusted += ['go/ssa + symx translation', 'SMT solvers (raced, cross-checked)',
                  'Montgomery conversion contracts (canonical, mutually inverse, 0->0, R mod n -> 1): re-proved on the real kernels below']
    ck.assumptions += ['operands are canonical (limb value < n): the representation invariant preserved by every API call (C10)',
                      'condition word of CSelect: all 2^64 values']
    ck.bounds = {'operands': 'all pairs of canonical limb vectors', 'condition': 'all 64-bit words',
                 'CSelect aliasing': 'distinct / u==v / r==u / r==v / all same', 'nil operands': 'u, v, both'}
    # contracts of the kernels used as UFs, re-proved on the current tree
    kernels.prove(ck, 'scalar', ['FromMontgomery', 'ToMontgomery'], tier)

    # ---------- comparisons ----------
    r = R_['cmp']
    paths = [p for p in r.paths if p['end'] == 'return']
    ck.ground('C13.cmp.paths', 'comparison code has a single path (no data-dependent branch, no panic)', len(paths) == 1 and len(r.paths) == 1)
    p = paths[0]
    o = p['obs']
    low = BVLower(r)
    roots = [o['eq']['n'], o['le']['n'], o['iszero']['n'], o['isone']['n']] + o['S']['f'] + o['T']['f'] + p['pc']
    low.emit(roots)
    mu = MontUF(low, 's')
    (sn, tn), decl = zip(*[ensure_vars(r, low, [v + str(i) for i in range(4)]) for v in 'st'])
    Sx, Tx = concat_limbs(sn), concat_limbs(tn)
    pre = '\n'.join([low.all(), asserts(p['pc']), mu.axioms_for(r, roots, [Sx, Tx]),
                    '(assert (bvult %s %s))' % (Sx, mu.M()), '(assert (bvult %s %s))' % (Tx, mu.M()),
                    '(define-fun vs () (_ BitVec 256) (%s %s))' % (mu.frm, Sx),
                    '(define-fun vt () (_ BitVec 256) (%s %s))' % (mu.frm, Tx)])
    ck.prove('C13.cmp.reach', 'assumptions satisfiable', pre, expect='sat', timeout=30)
    ck.ground('C13.cmp.frame', 'comparisons write to neither operand', not p['writes'] and o['S']['f'] == [varid(r, 's%d' % i) for i in range(4)])
    goals = [
        ('C13.equal', 'Equal(s,t) = 1 iff canonical values equal, else 0',
         '(assert (not (= n%d (ite (= vs vt) (_ bv1 64) (_ bv0 64)))))' % o['eq']['n']),
        ('C13.lessorequal', 'LessOrEqual(s,t) = 1 iff value(s) <= value(t), else 0',
         '(assert (not (= n%d (ite (bvule vs vt) (_ bv1 64) (_ bv0 64)))))' % o['le']['n']),
        ('C13.iszero', 'IsZero(s) iff value(s) = 0', '(assert (not (= n%d (= vs (_ bv0 256)))))' % o['iszero']['n']),
        ('C13.isone', 'IsOne(s) iff value(s) = 1', '(assert (not (= n%d (= vs (_ bv1 256)))))' % o['isone']['n']),
    ]
    ans = ck.prove_batch(pre, goals, timeout=60)
    for (oid, desc, g), a in zip(goals, ans):
        if a != 'sat':
            continue
        # FromMontgomery is a bijection of [0,n) (proved), so the VALUES the solver chose for value(s), value(t) are
        # realisable: replay them through the public API.  Fall back to refining the UF with true values of the model's limbs.
        facts, found = [], False
        for rnd in range(6):
            q = pre + '\n(declare-const vsv (_ BitVec 256))(declare-const vtv (_ BitVec 256))(assert (= vsv vs))(assert (= vtv vt))\n' + '\n'.join(facts) + '\n' + g
            m, _ = smt.get_model(q, ['vsv', 'vtv'] + sn + tn, timeout=60)
            if not m:
                break
            cands = [(m['vsv'] % N, m['vtv'] % N)]
            S = unlimbs([m[x] for x in sn]); T = unlimbs([m[x] for x in tn])
            cands.append((real_from(S), real_from(T)))
            kind = {'C13.lessorequal': 'lessorequal'}.get(oid, 'equal')
            path = ck.save_replay({'property': 'C13', 'cases': [{'kind': kind, 'a': '%064x' % a_, 'b': '%064x' % b_} for a_, b_ in cands], 'obligation': oid})
            ok, out = core.go_test(path)
            if not ok and 'MISMATCH' in out:
                ck.violation(oid.split('.')[1], '%s fails: %s' % (desc, [l.strip() for l in out.splitlines() if 'MISMATCH' in l][:1]), path)
                found = True
                break
            facts.append('(assert (not (and (= vsv %s) (= vtv %s))))' % (bvconst256(m['vsv']), bvconst256(m['vtv'])))
        if not found:
            ck.inconclusive.append('%s: solver counterexamples did not reproduce on the real code' % oid)

    # self comparison and nil
    r = R_['cmp_self']
    p = r.paths[0]
    low = BVLower(r)
    pre = low.emit([p['obs']['eq']['n'], p['obs']['le']['n']] + p['pc']) + '\n' + asserts(p['pc'])
    ck.prove_batch(pre, [('C13.self.equal', 'Equal(s,s) = 1', '(assert (not (= n%d (_ bv1 64))))' % p['obs']['eq']['n']),
                         ('C13.self.le', 'LessOrEqual(s,s) = 1', '(assert (not (= n%d (_ bv1 64))))' % p['obs']['le']['n'])], timeout=30)
    r = R_['eqnil']
    n = r.nodes[r.paths[0]['obs']['eq']['n']]
    ck.ground('C13.equal.nil', 'Equal(nil) = 0', len(r.paths) == 1 and n['op'] == 'const' and n['v'] == '0')

    # ---------- CSelect ----------
    for a in range(5):
        r = R_['csel%d' % a]
        paths = [p for p in r.paths if p['end'] == 'return']
        ck.ground('C13.csel%d.paths' % a, 'CSelect has a single returning path', len(paths) == 1 and len(r.paths) == 1)
        p = paths[0]
        o = p['obs']
        ck.ground('C13.csel%d.err' % a, 'no error for non-nil operands', o['err'].get('nil') is True)
        low = BVLower(r)
        roots = o['R']['f'] + o['U0']['f'] + o['V0']['f'] + o['U1']['f'] + o['V1']['f'] + p['pc']
        cn, cdecl = ensure_vars(r, low, ['c'])
        low.emit(roots)
        pre = low.all() + '\n' + asserts(p['pc'])
        goals = []
        for i in range(4):
            goals.append(('C13.csel%d.limb%d' % (a, i), 'CSelect result limb %d = (cond == 0 ? u : v) for every condition word' % i,
                          '(assert (not (= n%d (ite (= %s (_ bv0 64)) n%d n%d))))' % (o['R']['f'][i], cn[0], o['U0']['f'][i], o['V0']['f'][i])))
        if a in (0, 1):
            goals.append(('C13.csel%d.frame' % a, 'operands unchanged',
                          '(assert (not (and %s)))' % ' '.join('(= n%d n%d) (= n%d n%d)' % (o['U0']['f'][i], o['U1']['f'][i], o['V0']['f'][i], o['V1']['f'][i]) for i in range(4))))
        ans = ck.prove_batch(pre, goals, timeout=30)
        if 'sat' in ans:
            i = ans.index('sat')
            rn, _ = ensure_vars(r, low, ['r%d' % k for k in range(4)])
            un, _ = ensure_vars(r, low, ['u%d' % k for k in range(4)])
            vn, _ = ensure_vars(r, low, ['v%d' % k for k in range(4)])
            canon = ''.join('(assert (bvult %s %s))' % (concat_limbs(x), bvconst256(N)) for x in (rn, un, vn))
            m, _ = smt.get_model(low.all() + '\n' + asserts(p['pc']) + '\n' + canon + '\n' + goals[i][2], cn + rn + un + vn)
            cases = []
            if m:
                val = lambda ns: '%064x' % real_from(unlimbs([m[x] for x in ns]))
                cases.append({'kind': 'cselect', 'a': val(un), 'b': val(vn), 'c': val(rn), 'u': m[cn[0]], 'n': a})
            for cw in (1, 2, 2**63, 2**64 - 1, 0):
                cases.append({'kind': 'cselect', 'a': '%064x' % 3, 'b': '%064x' % (N - 4), 'c': '%064x' % 9, 'u': cw, 'n': a})
            path = ck.save_replay({'property': 'C13', 'cases': cases})
            ok, out = core.go_test(path)
            if not ok and 'MISMATCH' in out:
                ck.violation('cselect', 'CSelect wrong (aliasing %d): %s' % (a, [l.strip() for l in out.splitlines() if 'MISMATCH' in l][:1]), path)
            else:
                ck.inconclusive.append('CSelect counterexample (aliasing %d) did not reproduce' % a)
    for w in range(3):
        r = R_['cselnil%d' % w]
        ok = len(r.paths) == 1 and r.paths[0]['end'] == 'return'
        p = r.paths[0]
        ok = ok and p['obs']['err'].get('label') == 'err:nil or empty scalar' and p['obs']['R']['f'] == p['obs']['R0']['f'] and not p['writes']
        if not ck.ground('C13.cselnil%d' % w, 'nil operand: errParamNilScalar returned and receiver untouched', ok) and not ck.violations:
            path = ck.save_replay({'property': 'C13', 'cases': [{'kind': 'cselect-nil'}]})
            ok2, out = core.go_test(path)
            if not ok2 and 'MISMATCH' in out:
                ck.violation('cselect-nil', 'CSelect with a nil operand: %s' % [l.strip() for l in out.splitlines() if 'MISMATCH' in l][:1], path)
    if own:
        # the verdicts above are about single calls from the initial package state: histories (observe, scribble on returned slices, mutate, observe) must not change them
        from props import hidden
        hidden.embed(ck, tier, ('scalar',), 'C13', 'a scalar predicate', observers=['isz', 'isone', 'eq', 'le'])
    return ck.finish() if own else None


def replay(path):
    ok, out = core.go_test(path)
    print(out)
    return 0 if ok else 1
