"""C16 - concurrent use with shared read-only arguments is race-free and deterministic.

Interleavings are not enumerated.  The property is reduced to a per-call fact that the executor and
solver decide for all inputs and all feasible paths: (F1) every store of every API call lands in the
receiver or in an object allocated during the call - never in an argument object, never in a global
of any package (all globals are frozen after package initialisation and any write is recorded).
F1 over the whole API gives (F2): everything a call reads is its own, fresh, or never written by
anybody.  Calls whose write sets are pairwise disjoint from each other's read and write sets have no
data race under the Go memory model and compute their sequential results."""
from vf import core
from props import C15


def run(tier, seed):
    ck, findings = C15.analyse_all(tier, seed, 'C16', 'other')
    ck.trusted = ck.trusted + ['Go memory model: goroutines whose write sets are disjoint from every other goroutine\'s read and write sets are race free and sequentially consistent per goroutine (non-interference; not re-proved here)',
                               'crypto/rand.Reader is documented safe for concurrent use; the SHA-256 state is allocated per call (crypto.Hash.New / sha256.New)']
    ck.extra['explanation'] = ('Reduction of the schedule quantifier to per-call write-set facts: %d API call configurations executed symbolically; every store into a frozen object '
                               '(argument objects over their whole backing array, every global of every package touched) would be recorded with its call chain; the solver decides path feasibility. '
                               'No mutable global state: globals written after init = none.' % ck.extra.get('calls_checked', 0))
    gl = sorted(ck.zero_globals)
    ck.notes.append('globals of other packages read by the API (zero-initialised in the model, frozen): %s' % gl)
    if findings:
        # a store into a shared argument is a race as soon as two goroutines share it: the model-driven single calls come first
        path = ck.save_replay({'property': 'C16', 'cases': ck.extra.get('_mem_cases', [])[:24] + [{'kind': 'race'}], 'symbolic_findings': [{'call': f[0], 'what': f[1]} for f in findings[:10]]})
        ok, out = core.go_test(path, race=True, timeout=900)
        if not ok and ('DATA RACE' in out or 'MISMATCH' in out):
            key = 'write:' + (findings[0][2][0]['at'] if findings[0][2] else findings[0][0])
            ck.violation(key, '%s: %s | go test -race: %s' % (findings[0][0], findings[0][1], [l.strip() for l in out.splitlines() if 'DATA RACE' in l or 'MISMATCH' in l][:1]), path)
        else:
            ck.inconclusive.append('write-set finding did not reproduce under go test -race: %s' % (findings[0],))
    elif tier == 'thorough':
        path = ck.save_replay({'property': 'C16', 'cases': [{'kind': 'race'}], 'note': 'auxiliary concrete run, not the deciding step'})
        ok, out = core.go_test(path, race=True, timeout=900)
        ck.ground('C16.race-smoke', 'auxiliary: 4 goroutines sharing all arguments under go test -race report no race and identical results', ok, out[-300:] if not ok else '')
    return ck.finish()


def replay(path):
    ok, out = core.go_test(path, race=True, timeout=900)
    print(out)
    return 0 if ok else 1
