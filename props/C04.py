"""C04 - element encodings are canonical SEC1 and round-trip through Decode.

affine/Encode/EncodeUncompressed/XCoordinate/Hex/MarshalBinary are executed from /repo's SSA
(crypto/subtle for real, field methods as C12 contracts).  For every coordinate triple the
output must be 00 when Z = 0, else prefix||bytes(X/Z)[||bytes(Y/Z)] with the prefix given by the
parity of Y/Z.  The symbolic result length is split over its feasible values and the remainder
is shown infeasible."""
from vf import core, smt, kernels
from vf.core import Check
from vf.poly import PolyLower, FIELD_SUMM, val_term
from vf.params import *
from props.C02 import coords

HARNESS = ['root_intrinsics.go', 'root_element.go']
KIND = {0: ('Encode', 33), 1: ('EncodeUncompressed', 65), 2: ('XCoordinate', 32), 3: ('MarshalBinary', 33)}


def asserts(ids):
    return '\n'.join('(assert n%d)' % c for c in ids)


def run(tier, seed, ck=None):
    own = ck is None
    ck = ck or Check('C04', tier, seed, level='model_checking')
    jobs = [{'id': 'enc%d' % k, 'harness': 'vh_el_encode', 'args': [k], 'summaries': FIELD_SUMM, 'concretize': {'slice': [1, 33, 65]}} for k in range(4)]
    jobs.append({'id': 'hex', 'harness': 'vh_el_hex', 'summaries': FIELD_SUMM, 'concretize': {'slice': [1, 33, 65]}})
    runs = ck.absorb(core.symx_parallel(HARNESS, jobs))
    ck.extra.setdefault('_runs', []).extend(runs)
    R_ = {r.id: r for r in runs}
    ck.trusted += ['go/ssa + symx translation (crypto/subtle executed from its real SSA)', 'SMT solvers',
                  'contracts of field.Element methods (C12): Bytes = 32-byte big-endian canonical value < p, Sgn0 = parity, IsZero, Invert = x^(p-2)',
                  'affine coordinates X/Z, Y/Z do not depend on the projective scaling (field fact), so the bytes depend only on the group element',
                  'round trip: composition of this specification with C03\'s decoder specification (the two square roots of x^3+7 have opposite parity, no point has y = 0)']
    ck.assumptions += ['coordinates arbitrary field values; the element is a valid representation (C10) for the round-trip conclusion']
    ck.bounds.update({'operands': 'all coordinate triples', 'result length': 'solver-split over {1,33,65}, remainder shown infeasible'})
    from props import C12
    C12.run(tier, seed, ck, which=['Invert', 'Multiply', 'CMove', 'Sgn0', 'Bytes', 'IsZero', 'One', 'Set'])   # contracts of the field.Element methods used as summaries are re-proved on the current tree

    def battery(key, why, scalings=()):
        # scalings: projective Z values taken from word-level models of the failing paths
        path = ck.save_replay({'property': 'C04', 'cases': [{'kind': 'el-battery', 'op': 'encode', 'n': ck.seed, 'a': ','.join('%064x' % v for v in scalings)}]})
        ok, out = core.go_test(path)
        if not ok and 'MISMATCH' in out:
            ck.violation(key, '%s: %s' % (why, [l.strip() for l in out.splitlines() if 'MISMATCH' in l][:1]), path)
        else:
            ck.inconclusive.append('%s: failed obligation did not reproduce: %s' % (key, out[-200:]))

    for k, (nm, full) in KIND.items():
        r = R_['enc%d' % k]
        tag = 'C04.' + nm
        rets = [p for p in r.paths if p['end'] == 'return']
        oth = [p for p in r.paths if p['end'] != 'return']
        failed = False
        scalings = []
        for p in oth:
            low = PolyLower(r)
            low.emit(p['pc'])
            a = ck.prove_batch(low.all(), [('%s.infeasible%d' % (tag, p['id']), 'no panic and no other result length: path ending in %s (%s) is infeasible' % (
                p['end'], p.get('panic') or p.get('err')), asserts(p['pc']))], timeout=60)
            failed |= a[0] != 'unsat'
        for p in rets:
            o = p['obs']
            L = o['out']['len']
            low = PolyLower(r)
            low.emit(p['pc'] + o['out']['elems'])
            X, Y, Z = coords(low, o, 'P0')
            isz = low.uf_decl('isz', ['Int'], 'Bool')
            sgn = low.uf_decl('sgn', ['Int'], 'Bool')
            inv = low.uf_decl('finv', ['Int'], 'Int')
            fb = low.uf_decl('fbytes', ['Int'], '(_ BitVec 256)')
            pre = low.all() + '\n' + asserts(p['pc'])
            pt = '%s.path%d' % (tag, p['id'])
            ck.ground(pt + '.fresh', 'returned slice is freshly allocated; the element is not written', bool(o['out'].get('fresh', L == 0)) and not p['writes'])
            el = o['out']['elems']
            goals = []
            idlen = 0 if k == 2 else 1
            if L == idlen:
                goals.append((pt + '.id-iff', 'short form only for the identity (Z = 0)', '(assert (not (%s %s)))' % (isz, Z)))
                if L == 1:
                    goals.append((pt + '.id-byte', 'identity encodes as the single byte 00', '(assert (not (= n%d #x00)))' % el[0]))
            elif L == full:
                goals.append((pt + '.nonid', 'full-length form only for non-identity elements', '(assert (%s %s))' % (isz, Z)))
                xa, ya = '(* %s (%s %s))' % (X, inv, Z), '(* %s (%s %s))' % (Y, inv, Z)
                off = 0
                if k in (0, 3):
                    goals.append((pt + '.prefix', 'prefix = 02/03 by the parity of Y/Z', '(assert (not (= n%d (ite (%s %s) #x03 #x02))))' % (el[0], sgn, ya)))
                    off = 1
                if k == 1:
                    goals.append((pt + '.prefix', 'prefix = 04', '(assert (not (= n%d #x04)))' % el[0]))
                    off = 1
                conj = ' '.join('(= n%d ((_ extract %d %d) (%s %s)))' % (el[off + j], 8 * j + 7, 8 * j, fb, xa) for j in range(32))
                goals.append((pt + '.x', 'next 32 bytes = Bytes(X/Z) (for Z != 0)', '(assert (not (%s %s)))(assert (not (and %s)))' % (isz, Z, conj)))
                if k == 1:
                    conj = ' '.join('(= n%d ((_ extract %d %d) (%s %s)))' % (el[33 + j], 8 * j + 7, 8 * j, fb, ya) for j in range(32))
                    goals.append((pt + '.y', 'last 32 bytes = Bytes(Y/Z) (for Z != 0)', '(assert (not (%s %s)))(assert (not (and %s)))' % (isz, Z, conj)))
            else:
                ck.ground(pt + '.len', 'result length is 1 (identity) or %d' % full, False, 'len=%d' % L)
                failed = True
                continue
            # a path that returns the full form must not be reachable for the identity and vice versa
            ans = ck.prove_batch(pre, goals, timeout=60)
            if any(a != 'unsat' for a in ans):
                failed = True
                from vf.dag import limb_witnesses
                for w in limb_witnesses(r, p['pc'], ['pz']):
                    zv = unlimbs(w['pz'])
                    if 0 < zv < P:
                        scalings.append(zv * pow(R, -1, P) % P)
            ck.prove(pt + '.reach', 'path reachable', pre, expect='sat', timeout=30)
        if failed:
            battery('encode:' + nm, '%s is not the canonical SEC1 form / does not round-trip' % nm, scalings[:12])
    # Hex = hex(Encode)
    r = R_['hex']
    rets = [p for p in r.paths if p['end'] == 'return']
    ck.ground('C04.Hex', 'Hex() is the hex encoding of exactly the bytes of Encode(), on every path', len(rets) >= 2 and all(
        p['obs']['hex']['elems'] == p['obs']['enc']['elems'] and p['obs']['hex']['label'] == 'hexenc' for p in rets))
    if own:
        # Decode(Encode(P)) = P composes the encoder specification above with the part of the decoder specification it needs (Decode on
        # lengths 1, 33, 65: no panic, canonical encodings not rejected, accepted input gives that point), re-proved on the current tree
        from props import C03
        if C03.roundtrip(tier, seed, ck) and not ck.violations:
            battery('roundtrip', 'Decode does not give back the encoded point')
        # the bytes depend only on the group element, never on how it was computed: no hidden state behind the observers
        from props import hidden
        hidden.embed(ck, tier, ('element',), 'C04', 'an encoding', observers=['enc', 'unc'])
    if any(not o['ok'] for o in ck.obls) and not ck.violations and not ck.inconclusive:
        battery('encode:structure', 'a structural obligation failed')
    return ck.finish() if own else None


def replay(path):
    ok, out = core.go_test(path)
    print(out)
    return 0 if ok else 1
