"""Two-step histories: after any mutator, every observer must agree with the same observer on a fresh value
with the same documented state (used by C10 and C14)."""
from vf import core, smt
from vf.dag import BVLower
from vf.poly import PolyLower, FIELD_SUMM, SQRT_SUMM
from vf.params import *

HARNESS = ['root_intrinsics.go', 'root_scalar.go', 'root_element.go', 'root_hidden.go']
SMUT = ['Add', 'Subtract', 'Multiply', 'Square', 'Invert', 'Set', 'Zero', 'One', 'MinusOne', 'SetUInt64', 'Decode', 'CSelect', 'UnmarshalBinary', 'direct limb assignment', 'no mutation']
EMUT = ['Add', 'Subtract', 'Double', 'Negate', 'Set', 'Identity', 'Base', 'Decode(compressed)', 'Decode(uncompressed)', 'Decode(identity)', 'no mutation']


def flat(v):
    if v.get('k') == 'w':
        return [v['n']]
    if v.get('k') == 'agg':
        return list(v['f'])
    if v.get('k') in ('slice', 'str'):
        return [('len', v['len'])] + list(v['elems'])
    return [str(v)]


def run(ck, tier, which=('scalar', 'element'), observers=None):
    """observers: the observer names the embedding property is about (None: all); package-level writes count only for objects the
    embedding check's own functions read (all of them when observers is None)"""
    failures = []
    own_reads = None if observers is None else set(ck.greads)
    jobs = []
    if 'scalar' in which:
        jobs += [{'id': 'hs%d' % m, 'harness': 'vh_hidden_scalar', 'args': [m], 'summaries': kernel_summaries('scalar', 's')} for m in range(len(SMUT))]
    if 'element' in which:
        jobs += [{'id': 'he%d' % m, 'harness': 'vh_hidden_element', 'args': [m], 'summaries': FIELD_SUMM + [SQRT_SUMM], 'concretize': {'slice': [1, 33, 65]}} for m in range(len(EMUT))]
    reads_before = set(ck.greads)
    runs = ck.absorb(core.symx_parallel(HARNESS, jobs, chunks=12))
    if observers is not None:
        ck.greads = reads_before   # what the mutators of a history read is not what the property's own functions read
    ck.extra.setdefault('_runs', []).extend(runs)
    for r in runs:
        kind, m = r.id[:2], int(r.id[2:])
        what = ('Scalar.' + SMUT[m]) if kind == 'hs' else ('Element.' + EMUT[m])
        pairs = ['bits', 'enc', 'isz', 'isone', 'eq', 'le'] if kind == 'hs' else ['enc', 'unc', 'isid', 'eq']
        if observers is not None:
            pairs = [x for x in pairs if x in observers]
        rets = [p for p in r.paths if p['end'] == 'return']
        for p in rets:
            gw = [w for w in p.get('writes', []) if w.get('tag') == 'Global' and (own_reads is None or w.get('label') in own_reads)]
            shared = [nm for nm in pairs if isinstance(p['obs'].get(nm), dict) and p['obs'][nm].get('k') in ('slice', 'str') and p['obs'][nm].get('tag') == 'Global']
            if not ck.ground('hidden.%s.path%d.pkgstate' % (r.id, p['id']), 'history around %s: no package-level state is written, no package-level storage is handed to the caller' % what, not gw and not shared,
                             str([(w['label'], w['at']) for w in gw[:2]] + shared)):
                failures.append((what, 'package-level state: %s' % ([(w['label'], w['at']) for w in gw[:1]] + shared), m, kind))
            for nm in pairs:
                a, b = flat(p['obs'][nm]), flat(p['obs'][nm + '_fresh'])
                tag = 'hidden.%s.path%d.%s' % (r.id, p['id'], nm)
                if a == b:
                    ck.record(tag, 'after %s: %s agrees with the same observer on a fresh value with the same limbs/coordinates (identical terms)' % (what, nm), 'unsat', 'symx', 0.0, 'unsat', kind='ground')
                    continue
                # not syntactically identical: let the solver decide under the path condition
                ok = False
                if len(a) == len(b) and all(isinstance(x, int) for x in a + b):
                    low = (BVLower if kind == 'hs' else PolyLower)(r)
                    try:
                        low.emit([x for x in a + b] + p['pc'])
                        q = low.all() + '\n' + '\n'.join('(assert n%d)' % c for c in p['pc']) + '\n(assert (not (and %s)))' % ' '.join('(= n%d n%d)' % (x, y) for x, y in zip(a, b))
                        res = smt.check(q, timeout=60)
                        ok = res.status == 'unsat'
                        ck.record(tag, 'after %s: %s agrees with a fresh value (solver)' % (what, nm), res.status, res.solver, res.secs, 'unsat', sample=q[-600:])
                    except ValueError as e:
                        ck.record(tag, 'after %s: %s vs fresh value not comparable (%s)' % (what, nm, e), 'unknown', 'symx', 0.0, 'unsat')
                else:
                    # different shapes (e.g. result lengths): only a finding if the path is feasible at all
                    low = (BVLower if kind == 'hs' else PolyLower)(r)
                    try:
                        low.emit(p['pc'])
                        res = smt.check(low.all() + '\n' + '\n'.join('(assert n%d)' % c for c in p['pc']), timeout=60)
                        st_ = res.status
                    except ValueError:
                        st_ = 'sat'
                    ok = st_ == 'unsat'
                    ck.record(tag, 'after %s: %s differs in shape from the observer on a fresh value%s' % (what, nm, ' (path infeasible)' if ok else ''), 'unsat' if ok else 'sat', 'symx', 0.0, 'unsat')
                if not ok:
                    failures.append((what, nm, m, kind))
    return failures


def embed(ck, tier, which, pid, what, observers=None):
    """runs the two-step histories inside another check and replays findings against the real build; only the observers the
    property is about are compared and replayed"""
    hf = run(ck, tier, which=which, observers=observers)
    if hf and not ck.violations:
        seen = sorted({(f_[3], f_[2]) for f_ in hf} | {(f_[3], 14 if f_[3] == 'hs' else 10) for f_ in hf})
        cases = [{'kind': 'hidden-scalar' if k == 'hs' else 'hidden-element', 'n': m, 'op': pid, 'a': ','.join(observers or [])} for (k, m) in seen]
        path = ck.save_replay({'property': pid, 'cases': cases, 'symbolic_findings': [list(map(str, f_)) for f_ in hf[:8]]})
        ok, out = core.go_test(path)
        if not ok and 'MISMATCH' in out:
            ck.violation('hidden-state', '%s depends on hidden state after %s: %s' % (what, hf[0][0], [l.strip() for l in out.splitlines() if 'MISMATCH' in l][:1]), path)
        else:
            ck.inconclusive.append('hidden-state finding %s did not reproduce' % (hf[0],))
    return hf
