"""C05 - Equal / IsIdentity are representation-independent.

isEqual/Equal/IsIdentity are executed from /repo's SSA over the ring abstraction: the result
must be exactly [X1*Z2 = X2*Z1] and [Y1*Z2 = Y2*Z1] (both comparisons, over exactly these
cross products), symmetric, and IsIdentity must be [Z = 0]."""
from vf import core, smt, kernels
from vf.core import Check
from vf.poly import PolyLower, FIELD_SUMM, val_term
from vf.params import *
from props.C02 import coords

HARNESS = ['root_intrinsics.go', 'root_element.go']


def run(tier, seed, ck=None):
    own = ck is None
    ck = ck or Check('C05', tier, seed, level='proof')
    runs = ck.absorb(core.symx(HARNESS, [{'id': 'eq%d' % a, 'harness': 'vh_el_equal', 'args': [a], 'summaries': FIELD_SUMM} for a in (0, 1)] +
                               [{'id': 'id%d' % k, 'harness': 'vh_el_identity', 'args': [k], 'summaries': FIELD_SUMM} for k in range(4)]))
    idruns, runs = runs[2:], runs[:2]
    ck.extra.setdefault('_runs', []).extend(runs)
    ck.trusted += ['go/ssa + symx translation', 'SMT solvers', 'contracts of field.Element.Multiply/Equals/IsZero (C12)',
                  'projective equality: for valid representations (Z != 0 on the curve, or (0:Y:0) with Y != 0) two triples denote the same point iff X1Z2 = X2Z1 and Y1Z2 = Y2Z1 '
                  '(Z1,Z2 != 0: divide by Z1Z2; one Z zero: second equation forces the other Z to be 0 because Y != 0; both zero: both sides vanish)']
    ck.assumptions += ['operands are valid representations (the invariant of C10)']
    ck.bounds.update({'operands': 'all coordinate 6-tuples as ring elements', 'aliasing': 'distinct / same element'})
    from props import C12
    C12.run(tier, seed, ck, which=['Multiply', 'Equals', 'IsZero'])   # contracts of the field.Element methods used as summaries are re-proved on the current tree
    for al, r in enumerate(runs):
        tag = 'C05.alias%d' % al
        ok = len(r.paths) == 1 and r.paths[0]['end'] == 'return'
        ck.ground(tag + '.shape', 'single returning path; no branch on operand values, no panic', ok)
        if not ok:
            continue
        p = r.paths[0]
        o = p['obs']
        ck.ground(tag + '.frame', 'neither operand is written', not p['writes'], str(p['writes'][:1]))
        low = PolyLower(r)
        low.emit([o['eq']['n'], o['qe']['n'], o['isid']['n']])
        Pc = coords(low, o, 'P')
        Qc = coords(low, o, 'Q')
        isz = low.uf_decl('isz', ['Int'], 'Bool')
        tx = '(- (* %s %s) (* %s %s))' % (Pc[0], Qc[2], Qc[0], Pc[2])
        ty = '(- (* %s %s) (* %s %s))' % (Pc[1], Qc[2], Qc[1], Pc[2])
        pre = low.all() + '\n(assert (= (%s (- %s)) (%s %s)))(assert (= (%s (- %s)) (%s %s)))' % (isz, tx, isz, tx, isz, ty, isz, ty)
        spec = '(ite (and (%s %s) (%s %s)) (_ bv1 64) (_ bv0 64))' % (isz, tx, isz, ty)
        goals = [(tag + '.equal', 'Equal(P,Q) = [X1Z2 = X2Z1] and [Y1Z2 = Y2Z1] as 0/1 (both comparisons, exactly these products)', '(assert (not (= n%d %s)))' % (o['eq']['n'], spec)),
                 (tag + '.symmetric', 'Equal(Q,P) = Equal(P,Q)', '(assert (not (= n%d %s)))' % (o['qe']['n'], spec)),
                 (tag + '.isidentity', 'IsIdentity(P) iff Z = 0', '(assert (not (= n%d (%s %s))))' % (o['isid']['n'], isz, Pc[2]))]
        ans = ck.prove_batch(pre, goals, timeout=60)
        if al == 0 and ans[0] == 'sat':
            algebraic_witness(ck, r, o['eq']['n'])
        # non-vacuity: both outcomes possible
        ck.prove(tag + '.reach1', 'Equal can be 1', pre + '\n(assert (= n%d (_ bv1 64)))' % o['eq']['n'], expect='sat', timeout=30)
        if al == 0:
            ck.prove(tag + '.reach0', 'Equal can be 0', pre + '\n(assert (= n%d (_ bv0 64)))' % o['eq']['n'], expect='sat', timeout=30)
    # every producer of the identity leaves exactly (0 : 1 : 0), whatever the receiver held before: the only representation
    # family for which the cross-multiplication test is an equivalence needs Y != 0 when Z = 0
    for k, r in enumerate(idruns):
        nm = ['Identity()', 'Decode(00)', 'Multiply(nil)', 'NewElement()'][k]
        rets = [p_ for p_ in r.paths if p_['end'] == 'return']
        ck.ground('C05.identity%d.shape' % k, '%s returns on every path' % nm, len(rets) >= 1 and len(rets) == len(r.paths))
        for p_ in rets:
            low = PolyLower(r)
            X, Y, Z = coords(low, p_['obs'], 'E')
            low.emit(p_['pc'])
            ck.prove_batch(low.all() + '\n' + '\n'.join('(assert n%d)' % c_ for c_ in p_['pc']),
                           [('C05.identity%d.path%d' % (k, p_['id']), '%s sets the receiver to (0 : 1 : 0) regardless of its previous coordinates' % nm,
                             '(assert (not (and (= %s 0) (= %s 1) (= %s 0))))' % (X, Y, Z))], timeout=30)
    if any(not o['ok'] for o in ck.obls) and not ck.violations:
        # projective scalings taken from word-level models of the paths (tests on raw limbs of a Z coordinate)
        from vf.dag import limb_witnesses
        scal = []
        for r in runs:
            for p_ in r.paths:
                for w in limb_witnesses(r, p_['pc'], ['pz', 'qz'], k=2):
                    for pf in ('pz', 'qz'):
                        zv = unlimbs(w.get(pf, [0, 0, 0, 0]))
                        if 0 < zv < P:
                            scal.append(zv * pow(R, -1, P) % P)
        scal = list(dict.fromkeys(scal))[:10]
        path = ck.save_replay({'property': 'C05', 'cases': [{'kind': 'identity-producers'}, {'kind': 'el-battery', 'op': 'equal', 'n': ck.seed, 'a': ','.join('%064x' % v for v in scal)}]})
        ok, out = core.go_test(path)
        if not ok and 'MISMATCH' in out:
            ck.violation('equal', 'Equal/IsIdentity wrong on curve points: %s' % [l.strip() for l in out.splitlines() if 'MISMATCH' in l][:1], path)
        else:
            ck.inconclusive.append('failed obligation did not reproduce: ' + out[-200:])
    if own:
        # the verdicts above are about single calls from the initial package state: histories (observe, scribble on returned slices, mutate, observe) must not change them
        from props import hidden
        hidden.embed(ck, tier, ('element',), 'C05', 'Equal/IsIdentity', observers=['isid', 'eq'])
    return ck.finish() if own else None


def algebraic_witness(ck, r, eqnode):
    """the code's zero-test polynomials, specialised to P = kG and an unknown curve point Q, are solved over F_p"""
    import itertools
    from vf import algwit
    from vf.dag import Eval
    zt = [n for n in r.nodes if n['id'] in set(r.cone([eqnode])) and n['op'] == 'app' and n['n'] in ('fisz', 'feq')]
    if not zt or len(zt) > 4:
        return
    def ecmul(k):
        pt = None
        add = lambda A, B: B if A is None else (A if B is None else _add(A, B))
        def _add(A, B):
            if A[0] == B[0] and (A[1] + B[1]) % P == 0:
                return None
            l = (3 * A[0] * A[0] * pow(2 * A[1], -1, P)) % P if A == B else ((B[1] - A[1]) * pow(B[0] - A[0], -1, P)) % P
            x3 = (l * l - A[0] - B[0]) % P
            return (x3, (l * (A[0] - x3) - A[1]) % P)
        Q = (GX, GY)
        while k:
            if k & 1:
                pt = add(pt, Q)
            Q = _add(Q, Q)
            k >>= 1
        return pt
    cases = []
    for k in (1, 2, 3, 6, 7):
        x1, y1 = ecmul(k)
        env = {'px': algwit.const(x1), 'py': algwit.const(y1), 'pz': algwit.const(1), 'qx': algwit.SPoly([0, 1]), 'qy': algwit.SPoly([], [1]), 'qz': algwit.const(1)}
        try:
            polys = []
            for n in zt:
                A = [algwit.spoly_of(r, x, env) for x in n['a']]
                polys.append(A[0] - A[1] if n['n'] == 'feq' else A[0])
        except ValueError as e:
            ck.notes.append('algebraic witness search not applicable: %s' % e)
            return
        for sigma in itertools.product([1, 0], repeat=len(zt)):
            ev = Eval(r, {})
            for n, sv in zip(zt, sigma):
                ev.memo[n['id']] = sv
            try:
                says = ev.ev(eqnode)
            except (KeyError, ValueError):
                continue
            if says != 1 or not any(sigma):
                continue
            sols = algwit.solve_on_curve([pl for pl, sv in zip(polys, sigma) if sv])
            for (t, s_) in sols:
                if (t, s_) == (x1, y1):
                    continue
                if any(((algwit.ueval(pl.a, t) + s_ * algwit.ueval(pl.b, t)) % P == 0) for pl, sv in zip(polys, sigma) if not sv):
                    continue
                cases.append({'kind': 'equal-points', 'a': '%064x%064x' % (x1, y1), 'b': '%064x%064x' % (t, s_)})
        if len(cases) >= 3:
            break
    ck.notes.append('algebraic witness search: %d candidate pairs of distinct curve points on which the code\'s zero tests hold' % len(cases))
    if cases:
        path = ck.save_replay({'property': ck.pid, 'cases': cases[:6]})
        ok, out = core.go_test(path)
        if not ok and 'MISMATCH' in out:
            ck.violation('equal', 'Equal returns 1 for two different group elements: %s' % [l.strip() for l in out.splitlines() if 'MISMATCH' in l][:1], path)


def replay(path):
    ok, out = core.go_test(path)
    print(out)
    return 0 if ok else 1
