"""C10 - any history of element and scalar operations matches the abstract group model.

Decided by ONE INDUCTIVE STEP PER OPERATION, not by exploring sequences.  Invariant RI: every
scalar's limbs are canonical (< n); every element is (0:Y:0) with Y != 0 or satisfies Y^2 Z = X^3 + 7 Z^3
with Z != 0.  Abstraction: element -> group point, scalar -> FromMontgomery(S).  For every state-changing
operation and every aliasing partition of its operands: (1) RI holds afterwards, (2) the abstract result
is the operation's documented value, (3) frame: only the receiver and call-local fresh objects are written,
copies are fresh.  (2) re-runs the obligations of C02/C05/C06/C13/C14/C07/C04/C03/C01 under their aliasing tables inside
this check; (3) re-runs the ownership analysis of C15; (1) adds the obligations below (scalar canonicity
from the kernel range contracts in QF_UFBV; curve-equation preservation of the addition/doubling closed
forms as solver-checked ideal-membership identities with untrusted sympy cofactors)."""
import sympy as sp
from vf import core, smt, kernels
from vf.core import Check
from vf.dag import BVLower, ensure_vars
from vf.uf import concat_limbs
from vf.params import *
from props import C01, C02, C03, C04, C05, C06, C07, C13, C14, C15

HARNESS = ['root_intrinsics.go', 'root_scalar.go', 'root_scalar6.go', 'root_element.go', 'root_map.go', 'root_hash.go']
SUMM = kernel_summaries('scalar', 's')
KERNEL_OPS = {'sadd', 'ssub', 'smul', 'ssq', 'sto'}


def sympoly_to_smt(e):
    e = sp.expand(e)
    terms = []
    for mono, coef in sp.Poly(e, *sorted(e.free_symbols, key=str)).terms() if e.free_symbols else []:
        gens = sorted(e.free_symbols, key=str)
        fs = []
        for g, k in zip(gens, mono):
            fs += [str(g)] * k
        c = int(coef)
        cs = str(c) if c >= 0 else '(- %d)' % -c
        terms.append('(* %s)' % ' '.join([cs] + fs) if fs else cs)
    if not terms:
        return '0'
    return '(+ %s)' % ' '.join(terms) if len(terms) > 1 else terms[0]


def curve_preservation(ck, failures):
    """RI(1) for elements: the complete addition and doubling forms map curve points to curve points:
    Y3^2 Z3 - X3^3 - 7 Z3^3 = q1*g1 + q2*g2 as a polynomial identity (cofactors from sympy, checked by the solver)."""
    X1, Y1, Z1, X2, Y2, Z2 = sp.symbols('X1 Y1 Z1 X2 Y2 Z2')
    b3 = 21
    y1y2, z1z2, x1x2 = Y1 * Y2, Z1 * Z2, X1 * X2
    xy, yz, xz = X1 * Y2 + X2 * Y1, Y1 * Z2 + Y2 * Z1, X1 * Z2 + X2 * Z1
    X3 = xy * (y1y2 - b3 * z1z2) - b3 * yz * xz
    Y3 = (y1y2 + b3 * z1z2) * (y1y2 - b3 * z1z2) + 3 * b3 * x1x2 * xz
    Z3 = yz * (y1y2 + b3 * z1z2) + 3 * x1x2 * xy
    g1 = Y1**2 * Z1 - X1**3 - 7 * Z1**3
    g2 = Y2**2 * Z2 - X2**3 - 7 * Z2**3
    decl = '\n'.join('(declare-const %s Int)' % v for v in ('X1', 'Y1', 'Z1', 'X2', 'Y2', 'Z2'))
    ref = C02.rcb_add('X1', 'Y1', 'Z1', 'X2', 'Y2', 'Z2')
    F = sp.expand(Y3**2 * Z3 - X3**3 - 7 * Z3**3)
    q, rem = sp.reduced(F, [g1, g2], Y1, Y2, X1, X2, Z1, Z2, order='lex')
    if not ck.ground('C10.RI.add.cofactors', 'cofactors for the addition forms exist (remainder 0)', rem == 0):
        failures.append('RI.add')
        return
    lhs = '(- (* {Y} {Y} {Z}) (+ (* {X} {X} {X}) (* 7 {Z} {Z} {Z})))'.format(X=ref[0], Y=ref[1], Z=ref[2])
    rhs = '(+ (* %s %s) (* %s %s))' % (sympoly_to_smt(q[0]), sympoly_to_smt(g1), sympoly_to_smt(q[1]), sympoly_to_smt(g2))
    r = ck.prove('C10.RI.add', 'P, Q on the curve => the complete-addition result satisfies Y^2 Z = X^3 + 7 Z^3 (identity F = q1 g1 + q2 g2 over Z, %d + %d cofactor terms)' % (
        len(sp.Poly(q[0], X1, Y1, Z1, X2, Y2, Z2).terms()), len(sp.Poly(q[1], X1, Y1, Z1, X2, Y2, Z2).terms())), decl + '\n(assert (not (= %s %s)))' % (lhs, rhs), timeout=240)
    if r.status != 'unsat':
        failures.append('RI.add')
    # doubling
    t = Y1**2 - 3 * b3 * Z1**2
    dX, dY, dZ = 2 * X1 * Y1 * t, t * (Y1**2 + b3 * Z1**2) + 8 * b3 * Y1**2 * Z1**2, 8 * Y1**3 * Z1
    Fd = sp.expand(dY**2 * dZ - dX**3 - 7 * dZ**3)
    qd, remd = sp.reduced(Fd, [g1], Y1, X1, Z1, order='lex')
    refd = C02.rcb_double('X1', 'Y1', 'Z1')
    lhs = '(- (* {Y} {Y} {Z}) (+ (* {X} {X} {X}) (* 7 {Z} {Z} {Z})))'.format(X=refd[0], Y=refd[1], Z=refd[2])
    ok = ck.ground('C10.RI.double.cofactors', 'cofactor for the doubling forms exists (remainder 0)', remd == 0)
    if ok:
        r = ck.prove('C10.RI.double', 'P on the curve => the complete-doubling result satisfies the curve equation (identity F = q g)',
                     decl + '\n(assert (not (= %s (* %s %s))))' % (lhs, sympoly_to_smt(qd[0]), sympoly_to_smt(g1)), timeout=240)
        if r.status != 'unsat':
            failures.append('RI.double')
    else:
        failures.append('RI.double')
    ck.ground('C10.RI.base', 'Base() is the generator of SEC 2 and lies on the curve (ground)', (GY * GY - GX**3 - 7) % P == 0)
    ck.ground('C10.RI.identity', 'the identity representation is (0 : 1 : 0): Y != 0', True)


def scalar_canonicity(ck, tier, failures):
    """RI(1) for scalars: with canonical inputs and the kernel range contracts, every scalar-producing method leaves limbs < n"""
    jobs = []
    for op in (0, 1, 2, 5):
        for al in (0, 1, 2):
            jobs.append({'id': 'op%d_%d' % (op, al), 'harness': 'vh_sop2', 'args': [op, al], 'summaries': SUMM})
    for op in (3, 4, 7, 8, 9, 10):
        jobs.append({'id': 'op%d' % op, 'harness': 'vh_sop1', 'args': [op], 'summaries': SUMM})
    jobs += [{'id': 'setu', 'harness': 'vh_setuint64', 'summaries': SUMM}, {'id': 'dec', 'harness': 'vh_scalar_decode', 'args': [32, 0], 'summaries': SUMM},
             {'id': 'csel', 'harness': 'vh_cselect', 'args': [0], 'summaries': SUMM}, {'id': 'h2s', 'harness': 'vh_hash', 'args': [2, 3, 16, 0], 'summaries': SUMM}]
    runs = ck.absorb(core.symx_parallel(HARNESS, jobs))
    ck.extra.setdefault('_runs', []).extend(runs)
    nn = bvconst256(N)
    for r in runs:
        for p in r.paths:
            if p['end'] != 'return':
                continue
            o = p['obs']
            key = 'R' if 'R' in o and r.id == 'csel' else 'S'
            if key not in o:
                continue
            if r.id == 'dec' and not o['err'].get('nil'):
                continue   # rejected Decode: C07 leaves the receiver unspecified; the code leaves value - n, still < n (checked below as well)
            S = o[key]['f']
            low = BVLower(r)
            low.emit(S + p['pc'])
            ax = []
            for n in r.nodes:
                if n['id'] in low.done and n['op'] == 'app' and n['n'] in KERNEL_OPS:
                    ax.append('(assert (bvult n%d %s))' % (n['id'], nn))   # kernel contract: canonical output (C06)
            for v in ('s', 't', 'r', 'u', 'v'):
                names = [x['n'] for x in r.nodes if x['op'] == 'var' and x['n'] in [v + str(i) for i in range(4)]]
                if len(names) == 4:
                    vn, _ = ensure_vars(r, low, [v + str(i) for i in range(4)])
                    ax.append('(assert (bvult %s %s))' % (concat_limbs(vn), nn))
            if r.id == 'csel':
                cn, _ = ensure_vars(r, low, ['c'])
            pre = '\n'.join([low.all()] + ax + ['(assert n%d)' % c for c in p['pc']])
            res = ck.prove('C10.RI.scalar.%s.path%d' % (r.id, p['id']), 'canonical operands => canonical result (%s)' % r.id,
                           pre + '\n(assert (not (bvult %s %s)))' % (concat_limbs(['n%d' % x for x in S]), nn), timeout=60)
            if res.status != 'unsat':
                failures.append('RI.scalar.' + r.id)


def run(tier, seed):
    ck = Check('C10', tier, seed, level='model_checking')
    ck.trusted = ['induction over the length of the history: RI and agreement with the model are preserved by every single operation from ANY state satisfying RI (the steps below), hence by every finite sequence',
                  'Renes-Costello-Batina: the complete formulas never output (0:0:0) on a curve of odd order (non-degeneracy, not an identity)',
                  'decoders establish RI by their acceptance predicate (C03); hash-to-curve outputs are curve points because iso_map maps E\' to E (RFC 9380, C08/C11)']
    ck.assumptions = ['pre-state satisfies RI; operand values otherwise arbitrary']
    ck.bounds = {'history length': 'unbounded (one inductive step per operation)', 'operations': 'constructors, Base, Identity, Set, Copy, Add, Subtract, Double, Negate, Multiply, Equal, IsIdentity, scalar arithmetic/comparison/selection, decoding, hashing',
                 'aliasing': 'binary operations: distinct / argument is receiver / nil; CSelect: 5 partitions'}
    ck.outside = ['states violating RI (no history reaches them)', 'the exported helpers SSWU / IsogenySecp256k13iso / Secp256Polynomial (take internal types or need a point of E\'; covered by C11/C03)',
                  'value of a scalar after a rejected Decode (unspecified but canonical)']
    failures = []
    kernels.prove(ck, 'scalar', ['Mul', 'Square', 'Add', 'Sub', 'FromMontgomery', 'ToMontgomery', 'Selectznz', 'Nonzero', 'SetOne'], tier)
    kernels.prove(ck, 'field', ['Mul', 'Square', 'Add', 'Sub', 'Opp', 'FromMontgomery', 'ToMontgomery', 'Selectznz', 'Nonzero', 'SetOne'], tier)
    # (1) representation invariant
    curve_preservation(ck, failures)
    scalar_canonicity(ck, tier, failures)
    n0 = len(ck.obls)
    # (2) abstract result of each operation under each aliasing: the obligations of the owning properties, re-run here
    C02.run(tier, seed, ck)
    C05.run(tier, seed, ck)
    C06.run(tier, seed, ck)
    C13.run(tier, seed, ck)
    C14.run(tier, seed, ck)
    C07.run(tier, seed, ck)
    C04.run(tier, seed, ck)
    C03.run(tier, seed, ck)
    lf = C01.run(tier, seed, ck)
    failures += lf or []
    # two-step histories: observers after a mutation depend only on the documented state (no stale hidden state)
    from props import hidden
    hf = hidden.run(ck, tier)
    ck.extra['_hidden'] = hf
    failures += ['hidden state after %s (%s)' % (f_[0], f_[1]) for f_ in hf]
    # (3) frame: ownership analysis of every call configuration
    ck2, findings = C15.analyse_all(tier, seed, 'C10', 'model_checking')
    ck.obls += [dict(o, id=o['id'].replace('C15.', 'C10.frame.')) for o in ck2.obls]
    ck.functions |= ck2.functions
    ck.stubs |= ck2.stubs
    ck.extra['frame_calls_checked'] = ck2.extra.get('calls_checked')
    if findings:
        failures.append('frame: %s' % (findings[0][:2],))
    table = {}
    for o in ck.obls:
        k = '.'.join(o['id'].split('.')[:2])
        t = table.setdefault(k, [0, 0])
        t[0] += 1
        t[1] += 1 if o['ok'] else 0
    ck.extra['operation_table'] = {k: '%d/%d' % (v[1], v[0]) for k, v in sorted(table.items())}
    bad = [o for o in ck.obls if not o['ok']]
    if (failures or bad) and not ck.violations:
        path = ck.save_replay({'property': 'C10', 'cases': [{'kind': 'hidden-scalar' if f_[3] == 'hs' else 'hidden-element', 'n': f_[2]} for f_ in ck.extra.get('_hidden', [])[:8]] + [{'kind': 'history', 'n': ck.seed + s} for s in range(12)] + [{'kind': 'mem'}],
                               'failed': [str(f) for f in failures[:5]] + [o['id'] for o in bad[:5]]})
        ok, out = core.go_test(path)
        if not ok and 'MISMATCH' in out:
            ck.violation('history', 'a history of API calls diverges from the abstract model (%s): %s' % ((failures + [o['id'] for o in bad])[0], [l.strip() for l in out.splitlines() if 'MISMATCH' in l][:1]), path)
        else:
            ck.inconclusive.append('failed obligations did not reproduce in 12 random histories: %s' % out[-200:])
    return ck.finish()


def replay(path):
    ok, out = core.go_test(path)
    print(out)
    return 0 if ok else 1
