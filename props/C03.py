"""C03 - element decoders accept exactly the canonical encodings of curve points.

Decode / DecodeCompressed / DecodeUncompressed / DecodeCoordinates / DecodeHex / UnmarshalBinary
are executed from /repo's SSA with every input byte symbolic, per input length.  The path
condition of each accepting (rejecting) path must imply (refute) the SEC1 predicate, written
independently over the same contract-level functions (parser flag = [value < p], sqrt_ratio flag =
[x^3+7 is a square], zero test); accepted inputs must set the receiver to exactly that point; every
rejecting path leaves the receiver untouched; no path panics."""
from vf import core, smt, kernels
from vf.core import Check
from vf.poly import PolyLower, FIELD_SUMM, SQRT_SUMM, val_term
from vf.dag import ensure_vars
from vf.params import *
from props.C02 import coords

HARNESS = ['root_intrinsics.go', 'root_element.go']
SUMM = FIELD_SUMM + [SQRT_SUMM]
ERR = 'err:invalid point encoding'
VIA = {0: 'Decode', 1: 'DecodeCompressed', 2: 'DecodeUncompressed', 3: 'UnmarshalBinary'}


def asserts(ids):
    return '\n'.join('(assert n%d)' % c for c in ids)


def pack_be(names):
    """term for pack(args) of byte nodes given in slice order (symx convention: first byte least significant)"""
    return names[0] if len(names) == 1 else '(concat %s)' % ' '.join(reversed(names))


def spec_terms(low, bn, n, form):
    """returns (ACC, X, Y, Z): acceptance predicate and the decoded point for n input bytes `bn`;
    form: 'any' | 'compressed' | 'uncompressed'"""
    isz = low.uf_decl('isz', ['Int'], 'Bool')
    sgn = low.uf_decl('sgn', ['Int'], 'Bool')
    fb = low.uf_decl('ffrombytes', ['(_ BitVec 256)'], 'Int')
    fbok = low.uf_decl('ffrombytes_ok', ['(_ BitVec 256)'], 'Bool')
    sq = low.uf_decl('fsqrt', ['Int', 'Int'], 'Int')
    sqok = low.uf_decl('fsqrt_ok', ['Int', 'Int'], 'Bool')
    if n == 1 and form == 'any':
        return '(= %s #x00)' % bn[0], '0', '1', '0'
    if n == 33 and form in ('any', 'compressed'):
        xb = pack_be(bn[1:33])
        x = '(%s %s)' % (fb, xb)
        rhs = '(+ (* %s %s %s) 7)' % (x, x, x)
        r = '(%s %s 1)' % (sq, rhs)
        acc = '(and (or (= {b} #x02) (= {b} #x03)) ({ok} {xb}) ({sqok} {rhs} 1))'.format(b=bn[0], ok=fbok, xb=xb, sqok=sqok, rhs=rhs)
        odd = '(= ((_ extract 0 0) %s) #b1)' % bn[0]
        y = '(ite (= (%s %s) %s) %s (- %s))' % (sgn, r, odd, r, r)
        return acc, x, y, '1'
    if n == 65 and form in ('any', 'uncompressed'):
        xb, yb = pack_be(bn[1:33]), pack_be(bn[33:65])
        x, y = '(%s %s)' % (fb, xb), '(%s %s)' % (fb, yb)
        acc = '(and (= {b} #x04) ({ok} {xb}) ({ok} {yb}) ({isz} (- (+ (* {x} {x} {x}) 7) (* {y} {y}))))'.format(b=bn[0], ok=fbok, xb=xb, yb=yb, isz=isz, x=x, y=y)
        return acc, x, y, '1'
    return 'false', None, None, None


def decode_obligations(ck, r, tag, n, form, bytevars, failures, rt_only=False):
    rets = [p for p in r.paths if p['end'] == 'return']
    bad = [p for p in r.paths if p['end'] != 'return']
    ok = ck.ground(tag + '.nopanic', 'every path returns: no panic for any content', not bad, str([(p['end'], p.get('panic') or p.get('err')) for p in bad][:2]))
    if not ok:
        failures.append(tag)
    goals = []
    low = PolyLower(r)
    roots = [c for p in rets for c in p['pc']]
    low.emit(roots)
    bn, _ = ensure_vars(r, low, bytevars, 8)
    acc, X, Y, Z = spec_terms(low, bn, n, form)
    for p in rets:
        o = p['obs']
        pt = '%s.path%d' % (tag, p['id'])
        accepted = bool(o['err'].get('nil'))
        okf = True
        if not rt_only:
            okf = ck.ground(pt + '.frame', 'input bytes are never written, no state outside the receiver is touched', not p['writes'], str(p['writes'][:1]))
            if not okf:
                failures.append(pt + '.frame')
        if accepted:
            got = coords(low, o, 'E')
            if acc == 'false':
                goals.append((pt + '.reject', 'no input of this length/form is accepted', asserts(p['pc'])))
                continue
            if not rt_only:
                goals.append((pt + '.accept-only-if', 'accepted only if the input is a canonical SEC1 encoding of a curve point', asserts(p['pc']) + '\n(assert (not %s))' % acc))
            goals.append((pt + '.point', 'accepted: receiver = (x : root with the prefix parity : 1) resp. (x : y : 1) resp. the identity',
                          asserts(p['pc']) + '\n(assert (not (and (= %s %s) (= %s %s) (= %s %s))))' % (got[0], X, got[1], Y, got[2], Z)))
        else:
            lab = o['err'].get('label', '')
            e_ok = all(o['E.' + c]['f'] == o['E0.' + c]['f'] for c in 'xyz')
            if not rt_only and (not ck.ground(pt + '.unchanged', 'rejected: error returned and receiver left unchanged', e_ok and (lab == ERR or lab.startswith('fmt.Errorf')), lab) or not okf):
                failures.append(pt)
            if acc != 'false':
                goals.append((pt + '.reject-only-if', 'rejected only if the input is not a canonical encoding', asserts(p['pc']) + '\n(assert %s)' % acc))
    pre = low.all()
    ans = ck.prove_batch(pre, goals, timeout=60)
    for (oid, d, g), a in zip(goals, ans):
        if a != 'unsat':
            failures.append(oid)
    if acc != 'false':
        accp = [p for p in rets if p['obs']['err'].get('nil')]
        ck.ground(tag + '.has-accept', 'an accepting path exists for this length', len(accp) >= 1)
        if not accp:
            failures.append(tag + '.has-accept')
        for p in accp[:1]:
            ck.prove(tag + '.reach', 'accepting path reachable', pre + '\n' + asserts(p['pc']), expect='sat', timeout=30)


def run(tier, seed, ck=None):
    own = ck is None
    ck = ck or Check('C03', tier, seed, level='model_checking')
    lens0 = [0, 1, 2, 32, 33, 34, 64, 65, 66, 257, 289, 321] if tier == 'quick' else list(range(0, 131)) + [256, 257, 288, 289, 290, 320, 321, 322, 65537, 65569, 65601]   # 1/33/65 + 256, + 65536: lengths that alias a valid one under a narrowing conversion
    lensx = [0, 1, 33, 65, 66, 289, 321] if tier == 'quick' else [0, 1, 2, 32, 33, 34, 64, 65, 66, 97, 98, 130, 257, 289, 321, 65569, 65601]
    hexl = [0, 1, 2, 66, 67, 130, 132, 578, 642] if tier == 'quick' else [0, 1, 2, 3, 64, 65, 66, 67, 68, 129, 130, 131, 132, 196, 260, 514, 578, 642, 131138]
    jobs = []
    for via, lens in ((0, lens0), (1, lensx), (2, lensx), (3, lensx)):
        for n in lens:
            jobs.append({'id': 'dec%d_%d' % (via, n), 'harness': 'vh_el_decode', 'args': [n, via], 'summaries': SUMM})
        jobs.append({'id': 'decnil%d' % via, 'harness': 'vh_el_decode_nil', 'args': [via], 'summaries': SUMM})
    jobs.append({'id': 'coords', 'harness': 'vh_el_decodecoords', 'summaries': SUMM})
    for n in hexl:
        jobs.append({'id': 'hex%d' % n, 'harness': 'vh_el_decodehex', 'args': [n], 'summaries': SUMM})
    runs = ck.absorb(core.symx_parallel(HARNESS, jobs, chunks=10))
    ck.extra.setdefault('_runs', []).extend(runs)
    R_ = {r.id: r for r in runs}
    ck.trusted += ['go/ssa + symx translation', 'SMT solvers',
                  'contracts of field.Element methods (C12): FromBytesWithReduce flag = [OS2IP < p] and value = OS2IP mod p; SqrtRatio(a,1) flag = [a is a square], root r with r^2 = a; Equals/IsZero exact',
                  'the two square roots of a non-zero square have opposite parity and no curve point has y = 0 (odd group order): "root with the prefix parity" is well defined',
                  'encoding/hex contract (see C07)']
    ck.assumptions += ['receiver is any coordinate triple before the call']
    ck.bounds.update({'Decode input lengths': lens0, 'form-specific decoders / UnmarshalBinary lengths': lensx, 'hex string lengths': hexl, 'contents': 'all byte values'})
    ck.outside += ['input lengths outside the tables (they take the same default/length-mismatch branch)']
    from props import C12
    C12.run(tier, seed, ck, which=['FromBytesWithReduce', 'Square', 'Multiply', 'Add', 'SqrtRatio', 'Sgn0', 'Negate', 'CMove', 'One', 'Set', 'Equals'])   # contracts of the field.Element methods used as summaries are re-proved on the current tree
    failures = []
    for via, lens in ((0, lens0), (1, lensx), (2, lensx), (3, lensx)):
        form = {0: 'any', 1: 'compressed', 2: 'uncompressed', 3: 'any'}[via]
        for n in lens:
            decode_obligations(ck, R_['dec%d_%d' % (via, n)], 'C03.%s%d' % (VIA[via], n), n, form, ['in_%d' % i for i in range(n)], failures)
        r = R_['decnil%d' % via]
        okn = len(r.paths) == 1 and r.paths[0]['end'] == 'return' and r.paths[0]['obs']['err'].get('label') == ERR and all(
            r.paths[0]['obs']['E.' + c]['f'] == r.paths[0]['obs']['E0.' + c]['f'] for c in 'xyz')
        if not ck.ground('C03.%s.nil' % VIA[via], 'nil input rejected, receiver unchanged, no panic', okn):
            failures.append('nil')
    # DecodeCoordinates: same predicate as the 65-byte form without the prefix
    r = R_['coords']
    low = PolyLower(r)
    rets = [p for p in r.paths if p['end'] == 'return']
    if not ck.ground('C03.DecodeCoordinates.nopanic', 'every path returns', len(rets) == len(r.paths)):
        failures.append('coords')
    low.emit([c for p in rets for c in p['pc']])
    xn, _ = ensure_vars(r, low, ['x_%d' % i for i in range(32)], 8)
    yn, _ = ensure_vars(r, low, ['y_%d' % i for i in range(32)], 8)
    acc, X, Y, Z = spec_terms(low, ['#x04'] + xn + yn, 65, 'uncompressed')
    goals = []
    for p in rets:
        o = p['obs']
        pt = 'C03.DecodeCoordinates.path%d' % p['id']
        if o['err'].get('nil'):
            got = coords(low, o, 'E')
            goals.append((pt + '.accept-only-if', 'accepted only if x,y < p and y^2 = x^3+7', asserts(p['pc']) + '\n(assert (not %s))' % acc))
            goals.append((pt + '.point', 'accepted: receiver = (x : y : 1)', asserts(p['pc']) + '\n(assert (not (and (= %s %s) (= %s %s) (= %s %s))))' % (got[0], X, got[1], Y, got[2], Z)))
        else:
            if not ck.ground(pt + '.unchanged', 'rejected: receiver unchanged', all(o['E.' + c]['f'] == o['E0.' + c]['f'] for c in 'xyz') and o['err'].get('label') == ERR):
                failures.append(pt)
            goals.append((pt + '.reject-only-if', 'rejected only if not (x,y < p and on curve)', asserts(p['pc']) + '\n(assert %s)' % acc))
    ans = ck.prove_batch(low.all(), goals, timeout=60)
    failures += [g[0] for g, a in zip(goals, ans) if a != 'unsat']
    # DecodeHex
    for n in hexl:
        r = R_['hex%d' % n]
        tag = 'C03.DecodeHex%d' % n
        badp = [p for p in r.paths if p['end'] == 'return' and (p['obs']['err'].get('label') or '').startswith('fmt.Errorf')]
        rest = [p for p in r.paths if p not in badp]
        if not ck.ground(tag + '.invalid', 'undecodable hex: error, receiver unchanged', len(badp) >= 1 and all(all(p['obs']['E.' + c]['f'] == p['obs']['E0.' + c]['f'] for c in 'xyz') for p in badp)):
            failures.append(tag)
        if n % 2 == 1:
            if not ck.ground(tag + '.odd', 'odd-length string never accepted', all(p['end'] == 'return' and not p['obs']['err'].get('nil') for p in r.paths)):
                failures.append(tag)
            continue
        hb = sorted([x['n'] for x in r.nodes if x['op'] == 'var' and x['n'].startswith('hexbyte!')], key=lambda s: int(s.split('!')[1]))
        sub = type(r)(dict(r.d, paths=rest))
        decode_obligations(ck, sub, tag, n // 2, 'any', hb, failures)
    if failures and not ck.violations:
        battery(ck, failures)
    return ck.finish() if own else None


def roundtrip(tier, seed, ck):
    """the part of the decoder specification that Decode(Encode(P)) = P relies on (used by C04): Decode, on the three lengths an
    encoder can produce, never panics, does not reject a canonical encoding, and an accepted input gives exactly that point"""
    jobs = [{'id': 'rt_dec%d' % n, 'harness': 'vh_el_decode', 'args': [n, 0], 'summaries': SUMM} for n in (1, 33, 65)]
    runs = ck.absorb(core.symx_parallel(HARNESS, jobs, chunks=3))
    ck.extra.setdefault('_runs', []).extend(runs)
    from props import C12
    C12.run(tier, seed, ck, which=['FromBytesWithReduce', 'Square', 'Multiply', 'Add', 'SqrtRatio', 'Sgn0', 'Negate', 'CMove', 'One', 'Set', 'Equals'])
    failures = []
    for r in runs:
        n = int(r.id[6:])
        decode_obligations(ck, r, 'C03rt.Decode%d' % n, n, 'any', ['in_%d' % i for i in range(n)], failures, rt_only=True)
    return failures


def battery(ck, failures):
    """boundary / adversarial encodings replayed against a SEC1 oracle"""
    cases = adversarial_cases(ck.seed)
    path = ck.save_replay({'property': ck.pid, 'cases': cases, 'failed': failures[:10]})
    ok, out = core.go_test(path)
    if not ok and 'MISMATCH' in out:
        ck.violation('decode', 'decoder deviates from canonical SEC1 (%s): %s' % (failures[0], [l.strip() for l in out.splitlines() if 'MISMATCH' in l][:1]), path)
    else:
        ck.inconclusive.append('failed obligations %s did not reproduce on adversarial encodings: %s' % (failures[:3], out[-200:]))


def adversarial_cases(seed):
    import random
    rng = random.Random(seed + 5)
    G = (GX, GY)
    def dbl(Pt):
        x, y = Pt
        l = 3 * x * x * pow(2 * y, -1, P) % P
        x3 = (l * l - 2 * x) % P
        return x3, (l * (x - x3) - y) % P
    pts = [G, dbl(G), dbl(dbl(G))]
    cases = ['00', '01', '02', '', '0000', '04']
    for (x, y) in pts:
        X, Y = '%064x' % x, '%064x' % y
        pre = '%02x' % (2 + (y & 1))
        wrong = '%02x' % (3 - (y & 1))
        cases += [pre + X, wrong + X, '04' + X + Y, '04' + X + '%064x' % ((P - y) % P), '06' + X + Y, '07' + X + Y, '05' + X, '00' + X, '04' + X, pre + X + Y, '02' + X + '00', pre + X[:-2],
                  '04' + X + Y + '00', '04' + X + '%064x' % ((y + 1) % P), '00' + X + Y]
        if x + P < 2**256:
            cases += [pre + '%064x' % (x + P), '04' + '%064x' % (x + P) + Y]
        if y + P < 2**256:
            cases += ['04' + X + '%064x' % (y + P)]
    # a small x with x+p < 2^256 and x on the curve
    for x in range(1, 2**32 + 977 - 1):
        rhs = (x * x * x + 7) % P
        if pow(rhs, (P - 1) // 2, P) == 1:
            y = pow(rhs, (P + 1) // 4, P)
            cases += ['%02x' % (2 + (y & 1)) + '%064x' % (x + P), '%02x' % (2 + (y & 1)) + '%064x' % x, '04' + '%064x' % (x + P) + '%064x' % y, '04' + '%064x' % x + '%064x' % y]
            break
    for x in range(2, 40):   # non-square rhs
        if pow((x * x * x + 7) % P, (P - 1) // 2, P) != 1:
            cases += ['02' + '%064x' % x, '03' + '%064x' % x]
            break
    cases += ['02' + '%064x' % P, '02' + '%064x' % (P - 1), '03' + 'ff' * 32, '04' + 'ff' * 64, '02' + '00' * 32, '04' + '00' * 64, '04' + '00' * 32 + '%064x' % 1]
    for _ in range(10):
        cases.append(rng.choice(['02', '03', '04', '00']) + ''.join('%02x' % rng.getrandbits(8) for _ in range(rng.choice([32, 64]))))
    # consecutive decodes of both prefixes for the same x (order matters for stateful decoders)
    X = '%064x' % GX
    cases += ['02' + X, '03' + X, '02' + X, '03' + X, '03' + X, '02' + X]
    return [{'kind': 'el-decode', 'a': c} for c in cases]


def replay(path):
    ok, out = core.go_test(path)
    print(out)
    return 0 if ok else 1
