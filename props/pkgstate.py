"""Package-state analysis of the whole API, shared by all checks.

Every check decides statements about calls that start from the initial package state.  They extend to arbitrary
programs only if NO exported function changes package-level state or hands package-level storage to its caller -
including functions the check itself never runs (a `MinusOne` that edits a shared constant breaks `Random`).  The
analysis executes the C15 call table (every exported function, all slice layouts) symbolically and collects stores
into objects reachable from package-level variables and returned slices backed by them, each with the label of the
package-level object, so that a check can select the findings about state its own functions read.  It is a function of the
tree only, so its result is stored under a key derived from the content of /repo's sources, the harnesses and the
engine, and recomputed whenever any of them changes."""
import hashlib, json, os, time, glob
from vf import core


def tree_key():
    h = hashlib.sha256()
    files = []
    for root, dirs, fs in os.walk(core.REPO):
        dirs[:] = [d for d in dirs if not d.startswith('.')]
        for f in fs:
            if f.endswith('.go') and not f.endswith('_test.go'):
                files.append(os.path.join(root, f))
    files += glob.glob(os.path.join(core.VERIF, 'harness', '*.go')) + [os.path.join(core.VERIF, 'bin', 'symx'), os.path.join(core.VERIF, 'props', 'C15.py'),
                                                                      os.path.join(core.VERIF, 'props', 'pkgstate.py')]
    for f in sorted(files):
        h.update(os.path.relpath(f, core.REPO if f.startswith(core.REPO) else core.VERIF).encode())
        try:
            with open(f, 'rb') as fh:
                h.update(fh.read())
        except OSError:
            h.update(b'?')
    return h.hexdigest()


def analysis():
    key = tree_key()
    work = os.path.join(core.VERIF, 'work')
    os.makedirs(work, exist_ok=True)
    path = os.path.join(work, 'pkgstate_%s.json' % key[:24])
    if os.path.exists(path):
        try:
            d = json.load(open(path))
            d['reused'] = True
            return d
        except ValueError:
            pass
    from props import C15
    t0 = time.time()
    jobs, meta, ds, ms = C15.jobs_for('quick')
    runs = core.symx_parallel(C15.HARNESS, jobs, chunks=14)
    findings, errors, npaths = [], [], 0
    for r in runs:
        if r.error:
            errors.append((meta.get(r.id, r.id), str(r.error)[:160]))
            continue
        for p in r.paths:
            npaths += 1
            if p['end'] == 'error':
                errors.append((meta.get(r.id, r.id), str(p.get('err'))[:160]))
                continue
            for w in p.get('writes', []):
                if w.get('tag') == 'Global':
                    findings.append((meta.get(r.id, r.id), 'store into %s at %s' % (w.get('label'), w.get('at')), w.get('label')))
            for k, v in p['obs'].items():
                if k.startswith('ret') and isinstance(v, dict) and v.get('k') in ('slice', 'ptr') and v.get('tag') == 'Global' and not v.get('nil') and v.get('len', 1) != 0:
                    findings.append((meta.get(r.id, r.id), 'returns package-level storage %s' % v.get('label'), v.get('label')))
    findings = sorted(set(findings))
    d = {'key': key, 'calls': len(jobs), 'paths': npaths, 'findings': findings[:40], 'errors': sorted(set(errors))[:10], 'secs': round(time.time() - t0, 1),
         'at': time.strftime('%Y-%m-%dT%H:%M:%S'), 'reused': False}
    tmp = path + '.%d.tmp' % os.getpid()
    json.dump(d, open(tmp, 'w'))
    os.replace(tmp, path)
    # keep the scratch directory small
    old = sorted(glob.glob(os.path.join(work, 'pkgstate_*.json')), key=os.path.getmtime)
    for f in old[:-60]:
        try:
            os.remove(f)
        except OSError:
            pass
    return d
