"""C18 - Random: first 32-byte block whose value mod n is non-zero, reduced; panic on a failing source.

Decided by ONE inductive iteration of the real loop from an arbitrary loop-header state
(symx cut point with havoc of the loop's write set) plus a bounded unrolling as reachability
witness.  crypto/rand.Reader + io.ReadFull are a stub returning 32 arbitrary bytes or failing."""
from vf import core, smt, kernels
from vf.core import Check
from vf.dag import BVLower, ensure_vars, varid
from vf.uf import MontUF, concat_limbs, concat_bytes_be
from vf.params import *

HARNESS = ['root_intrinsics.go', 'root_scalar.go']
SUMM = kernel_summaries('scalar', 's')
FN = '(*github.com/bytemare/secp256k1.Scalar).Random'


def asserts(ids):
    return '\n'.join('(assert n%d)' % c for c in ids)


def cells(o):
    return o['cells']


def battery(ck, key, why, extra=()):
    """replay of boundary entropy streams (scripted reader) after a failed obligation"""
    z, nblk, v1 = '00' * 32, '%064x' % N, '%064x' % (N + 5)
    streams = list(extra) + [z + nblk + v1, v1, '%064x' % (N - 1), z, nblk + z, 'ff' * 32, z + 'ff' * 32, '', z + z + z + nblk, '%064x' % 1]
    cases = [{'kind': 'random', 'a': s} for s in streams]
    # the same streams delivered in pieces (an io.Reader may return short reads), and a source failing mid-block
    cases += [{'kind': 'random', 'a': s, 'n': ch} for s in streams for ch in (16, 1, 31)] + [{'kind': 'random', 'a': v1[:40], 'n': 7}, {'kind': 'random', 'a': z + v1[:20]}]
    path = ck.save_replay({'property': 'C18', 'cases': cases, 'obligation': key})
    ok, out = core.go_test(path)
    if not ok and 'MISMATCH' in out:
        ck.violation('random:' + key, '%s: %s' % (why, [l.strip() for l in out.splitlines() if 'MISMATCH' in l][:1]), path)
        return True
    ck.inconclusive.append('%s: counterexample did not reproduce' % key)
    return False


def run(tier, seed):
    ck = Check('C18', tier, seed, level='model_checking')
    draws = 3 if tier == 'quick' else 6
    jobs = [{'id': 'step', 'harness': 'vh_random', 'summaries': SUMM, 'cut': {'fn': FN, 'loop': 0, 'mode': 'havoc'}},
            {'id': 'unroll', 'harness': 'vh_random', 'summaries': SUMM, 'cut': {'fn': FN, 'loop': 0, 'mode': 'stop', 'stop': draws + 2}}]
    runs = ck.absorb(core.symx(HARNESS, jobs))
    ck.extra['_runs'] = runs
    step, unroll = runs
    ck.trusted = ['go/ssa + symx translation', 'SMT solvers', 'io.ReadFull(rand.Reader, buf) either fills all 32 bytes with arbitrary values and returns nil, or returns n < 32 and a non-nil error (documented contract)',
                  'induction over loop iterations: the per-iteration facts below compose to the statement for entropy streams of any length']
    ck.assumptions = ['loop-header state arbitrary (havoc of every object the loop body writes: the block buffer and the candidate m)',
                      'To/FromMontgomery uninterpreted with contracts proved below on the real kernels']
    ck.bounds = {'inductive step': 'one iteration from any header state, all 2^256 blocks, both read outcomes', 'unrolling (witness only)': '%d draws' % draws}
    ck.outside = ['internals of io.ReadFull / crypto/rand behind the stub']
    kernels.prove(ck, 'scalar', ['ToMontgomery', 'FromMontgomery', 'Nonzero'], tier)

    r = step
    pan = [p for p in r.paths if p['end'] == 'panic']
    cut = [p for p in r.paths if p['end'] == 'cut']
    ret = [p for p in r.paths if p['end'] == 'return']
    ck.ground('C18.shape', 'one iteration has exactly three outcomes: read failure -> panic, new candidate -> loop header, candidate non-zero -> return',
              len(pan) == 1 and len(cut) == 1 and len(ret) == 1 and len(r.paths) == 3, str([(p['end'], p.get('panic')) for p in r.paths]))
    if not (len(pan) == 1 and len(cut) == 1 and len(ret) == 1):
        battery(ck, 'shape', 'loop iteration does not have the three required outcomes')
        return ck.finish()
    pan, cut, ret = pan[0], cut[0], ret[0]
    ent = cut['obs']['cut:entry']
    objs = {k: v for k, v in ent.items()}
    hvset = {n['id'] for n in r.nodes if n['op'] == 'var' and n['n'].startswith('hv')}
    # 4-limb objects in the (over-approximated) write set: the candidate is the one the body really rewrites; the receiver, written once
    # after the loop, may be listed too
    mobj = [k for k, v in objs.items() if len(cells(v)) == 4 and not set(cells(cut['obs']['cut:next'][k])) <= hvset]
    other4 = [k for k, v in objs.items() if len(cells(v)) == 4 and k not in mobj]
    bobj = [k for k, v in objs.items() if len(cells(v)) == 32]
    ck.ground('C18.writeset', 'the loop writes exactly the 32-byte block buffer and the 4-limb candidate (the receiver, written after the loop, may be listed)',
              len(mobj) == 1 and len(bobj) == 1 and len(objs) == 2 + len(other4) and len(other4) <= 1, str({k: v['label'] for k, v in objs.items()}))
    if len(mobj) != 1 or len(bobj) != 1:
        battery(ck, 'shape', 'the loop does not rewrite one candidate from one block buffer')
        return ck.finish()
    mk, bk = mobj[0], bobj[0]
    ck.ground('C18.entry', 'on entry the candidate is 0 (so the loop body runs at least once)',
              all(r.nodes[c]['op'] == 'const' and r.nodes[c]['v'] == '0' for c in cells(ent[mk])))
    ck.ground('C18.panic', 'a failing read ends in panic(err) and nothing else', pan['panic'] == 'err:io-read-failure')
    readvars = {n['id'] for n in r.nodes if n['op'] == 'var' and n['n'].startswith('readn')}
    ck.ground('C18.nofallthrough', 'no returning or continuing path follows a failed read',
              not (readvars & set(r.cone(cut['pc'] + ret['pc']))))
    hv_m = cells(cut['obs']['cut:havoc'][mk])
    nx_m = cells(cut['obs']['cut:next'][mk])
    # pre-tested loop (for m == 0 { draw }): the test is on the header state and the header state is returned;
    # post-tested loop (for { draw; if m != 0 { break } }): the test is on the new candidate and the new candidate is returned
    post_tested = list(ret['obs']['S']['f']) != list(hv_m)
    ck.extra['loop_form'] = 'post-tested (draw, then test the new candidate)' if post_tested else 'pre-tested (test the header state, then draw)'
    if post_tested:
        hv_ids0 = {n['id'] for n in r.nodes if n['op'] == 'var' and n['n'].startswith('hv')}
        ck.ground('C18.entry-irrelevant', 'post-tested loop: what is returned and tested does not depend on the state at the loop header', not (hv_ids0 & set(r.cone(list(ret['obs']['S']['f']) + ret['pc'] + cut['pc']))))
    nx_b = cells(cut['obs']['cut:next'][bk])
    hv_ids = {n['id'] for n in r.nodes if n['op'] == 'var' and n['n'].startswith('hv')}
    ck.ground('C18.independent', 'the new candidate and buffer depend only on the freshly read block, not on the previous state',
              not (hv_ids & set(r.cone(nx_m + nx_b))))
    low = BVLower(r)
    roots = cut['pc'] + ret['pc'] + pan['pc'] + hv_m + nx_m + nx_b + ret['obs']['S']['f']
    low.emit(roots)
    mu = MontUF(low, 's')
    rb, _ = ensure_vars(r, low, ['rand0_%d' % i for i in range(32)], 8)
    Bv = concat_bytes_be(rb)
    Mx = concat_limbs(['n%d' % x for x in hv_m])
    stos = [n for n in r.nodes if n['op'] == 'app' and n['n'] == 'sto' and n['id'] in set(r.cone(nx_m))]
    ck.ground('C18.to', 'new candidate is one ToMontgomery application', len(stos) == 1)
    arg = 'n%d' % stos[0]['a'][0]
    nn = bvconst256(N)
    pre = '\n'.join([low.all(), mu.axioms_for(r, roots, []), '(define-fun blk () (_ BitVec 256) %s)' % Bv,
                     '(declare-const xx (_ BitVec 256))', mu.inst_to('xx')])
    Sx = concat_limbs(['n%d' % x for x in ret['obs']['S']['f']])
    Nx = concat_limbs(['n%d' % x for x in nx_m])
    if post_tested:
        stos_r = [n for n in r.nodes if n['op'] == 'app' and n['n'] == 'sto' and n['id'] in set(r.cone(list(ret['obs']['S']['f'])))]
        ck.ground('C18.to-ret', 'returned candidate is one ToMontgomery application', len(stos_r) == 1)
        arg_r = 'n%d' % stos_r[0]['a'][0] if stos_r else arg
        test_goals = [
            ('C18.looptest', 'the loop repeats only if the new candidate = 0', asserts(cut['pc']) + '\n(assert (not (= %s (_ bv0 256))))' % Nx),
            ('C18.exittest', 'the loop exits only if the new candidate != 0', asserts(ret['pc']) + '\n(assert (= %s (_ bv0 256)))' % Sx),
            ('C18.reduce-ret', 'returned candidate = ToMontgomery(block mod n)', asserts(ret['pc']) + '\n(assert (not (and (= %s (ite (bvult blk %s) blk (bvsub blk %s))) (= %s (%s %s)))))' % (arg_r, nn, nn, Sx, mu.to, arg_r))]
    else:
        test_goals = [
            ('C18.looptest', 'loop repeats iff candidate = 0', '(assert (not (= (and %s) (= %s (_ bv0 256)))))' % (' '.join('n%d' % c for c in cut['pc']), Mx)),
            ('C18.exittest', 'loop exits iff candidate != 0', '(assert (not (= (and %s) (not (= %s (_ bv0 256))))))' % (' '.join('n%d' % c for c in ret['pc']), Mx))]
    goals = test_goals + [
        ('C18.reduce', 'new candidate = ToMontgomery(block mod n) for every 32-byte block (one conditional subtraction suffices: 2^256 < 2n)',
         asserts(cut['pc']) + '\n(assert (not (= %s (ite (bvult blk %s) blk (bvsub blk %s)))))' % (arg, nn, nn)),
        ('C18.limbs', 'candidate limbs are exactly the limbs of that ToMontgomery value',
         asserts(cut['pc']) + '\n(assert (not (= %s (%s %s))))' % (concat_limbs(['n%d' % x for x in nx_m]), mu.to, arg)),
        ('C18.result', 'returned scalar = the candidate that passed the test; receiver returned',
         (asserts(ret['pc']) + '\n(assert (not (and %s)))' % ' '.join('(= n%d n%d)' % (a, b) for a, b in zip(ret['obs']['S']['f'], hv_m))) if not post_tested else '(assert false)'),
        ('C18.zero-iff', 'ToMontgomery(x) = 0 iff x = 0 for x < n (so blocks 0 and n, and only those, are skipped)',
         '(assert (bvult xx %s))(assert (not (= (= (%s xx) (_ bv0 256)) (= xx (_ bv0 256)))))' % (nn, mu.to)),
        ('C18.range', 'value of the result = From(To(x)) = x in [1,n-1] and canonical',
         '(assert (bvult xx %s))(assert (not (= xx (_ bv0 256))))(assert (not (and (= (%s (%s xx)) xx) (bvult (%s xx) %s))))' % (nn, mu.frm, mu.to, mu.to, nn)),
        ('C18.mod-range', 'block mod n < n', '(assert (not (bvult (ite (bvult blk %s) blk (bvsub blk %s)) %s)))' % (nn, nn, nn)),
    ]
    same = r.nodes[ret['obs']['same']['n']]
    ck.ground('C18.receiver', 'Random returns its receiver', same['op'] == 'const' and same['v'] == '1')
    ans = ck.prove_batch(pre, goals, timeout=60)
    for p, nm in ((cut, 'continue'), (ret, 'return'), (pan, 'panic')):
        ck.prove('C18.reach.' + nm, 'outcome %s reachable' % nm, pre + '\n' + asserts(p['pc']), expect='sat', timeout=30)
    if 'sat' in ans:
        i = ans.index('sat')
        m, _ = smt.get_model(pre + '\n' + goals[i][2], rb)
        streams = []
        if m:
            streams.append(''.join('%02x' % m[b] for b in rb))
        # the candidate limbs the solver chose at the loop head, turned into the block that produces them: value = limbs * 2^-256 mod n
        m2, _ = smt.get_model(pre + '\n' + goals[i][2], ['n%d' % x for x in hv_m])
        if m2:
            Sm = unlimbs([m2['n%d' % x] for x in hv_m])
            if Sm < N:
                v = Sm * pow(R, -1, N) % N
                for blk in (v, v + N if v + N < 2**256 else v):
                    streams.append('%064x' % blk + '%064x' % 5)
                    streams.append('00' * 32 + '%064x' % blk + '%064x' % 7)
        for k_ in (1, 2**63, 2**64 - 1):   # candidates whose Montgomery form is a single high / low limb
            for sh in (192, 128, 64, 0):
                v = (k_ << sh) % N * pow(R, -1, N) % N
                if v:
                    streams.append('%064x' % v + '%064x' % 9)
        battery(ck, goals[i][0].split('.')[1], goals[i][1] + ' fails', streams)

    # ---- bounded unrolling: reachability witness for k draws ----
    r = unroll
    rets = [p for p in r.paths if p['end'] == 'return']
    pans = [p for p in r.paths if p['end'] == 'panic']
    # (a post-tested loop reaches the header once less per draw: one more draw fits into the same unrolling bound)
    ck.ground('C18.unroll.shape', 'unrolling at least %d draws: one return and one panic outcome per draw' % draws, len(rets) in (draws, draws + 1) and len(pans) in (len(rets), len(rets) + 1),
              '%d returns %d panics' % (len(rets), len(pans)))
    for p in rets:
        low = BVLower(r)
        low.emit(p['pc'] + p['obs']['S']['f'])
        ck.prove('C18.unroll.ret%d' % p['id'], 'a stream whose first %d blocks are 0 or n and whose next block is usable is accepted' % (len(p['pc']) - 1),
                 low.all() + '\n' + asserts(p['pc']), expect='sat', timeout=30)
    if any(not o['ok'] for o in ck.obls) and not ck.violations:
        battery(ck, 'structure', 'a structural obligation failed: ' + [o['id'] for o in ck.obls if not o['ok']][0])
    return ck.finish()


def replay(path):
    ok, out = core.go_test(path)
    print(out)
    return 0 if ok else 1
