"""C08 - HashToGroup / EncodeToGroup conform to RFC 9380 for every message and DST.

Per (message length, DST length): the whole call is executed from /repo's SSA with all message and
DST bytes symbolic and SHA-256 an uninterpreted function per input length.  (i) the bytes fed to
hash_to_field equal expand_message_xmd of RFC 9380 5.3.1, built independently over the same SHA
symbols (decided by congruence: every hash input must agree byte for byte, including DST', the
oversize-DST rule, l_i_b_str and the block counter); (ii) the output is iso(sswu(u0) + sswu(u1))
resp. iso(sswu(u0)) with '+' the affine chord rule on E' and iso = RFC E.1."""
from vf import core, smt, kernels
from vf.core import Check
from vf.poly import PolyLower, FIELD_SUMM, SQRT_SUMM, val_term
from vf.dag import ensure_vars
from vf.xmd import expand_message_xmd
from vf.params import *
from props.C02 import coords
from props.C11 import iso_reference

HARNESS = ['root_intrinsics.go', 'root_element.go', 'root_map.go', 'root_hash.go']
SSWU_S = {'fn': MOD + '.SSWU', 'op': 'sswu', 'params': ['in'], 'results': ['new']}
SUMM = FIELD_SUMM + [SQRT_SUMM, SSWU_S]
NAMES = {0: 'HashToGroup', 1: 'EncodeToGroup'}
PROBE = '(*' + MOD + '.Element).addAffine3Iso2'
PROBE_FN = MOD + '.addAffine3Iso2'      # the same addition written as a function of two elements
TWICE = [(3, 16), (3, 300)]   # second of two consecutive calls (fresh buffers / first DST buffer overwritten in place)
LAYCOMBOS = [(3, 16), (0, 1), (64, 255), (3, 256)]   # extra buffer layouts: spare capacity, window, message and DST adjacent in one frame (both orders)


def asserts(ids):
    return '\n'.join('(assert n%d)' % c for c in ids)


class HLower(PolyLower):
    """adds projections of the opaque SSWU result (a 12-limb abstract value) to PolyLower"""

    def body(self, i, n):
        if n['op'] == 'pack' and len(n['a']) == 4:
            kids = [self.run.nodes[x] for x in n['a']]
            if all(k['op'] == 'limb' and k.get('k') == 12 for k in kids) and len({k['a'][0] for k in kids}) == 1:
                j0 = kids[0].get('i', 0)
                if j0 % 4 == 0 and [k.get('i', 0) for k in kids] == [j0, j0 + 1, j0 + 2, j0 + 3]:
                    f, d = self.uf('sswu_' + 'xyz'[j0 // 4], ['Int'], 'Int')
                    return d, '(%s %s)' % (f, self.name(kids[0]['a'][0]))
        if n['op'] == 'app' and n['n'] == 'sswu':
            f, d = self.uf('sswu', ['Int'], 'Int')
            return d, '(%s %s)' % (f, self.name(n['a'][0]))
        return super().body(i, n)


def byte_names(m, d, lay):
    if lay == 1:
        return ['msgbuf_%d' % i for i in range(m)], ['dstbuf_%d' % i for i in range(d)]
    if lay == 2:
        return ['msgbuf_%d' % (3 + i) for i in range(m)], ['dstbuf_%d' % (2 + i) for i in range(d)]
    if lay == 3:
        return ['frame_%d' % i for i in range(m)], ['frame_%d' % (m + i) for i in range(d)]
    if lay == 4:
        return ['frame_%d' % (d + i) for i in range(m)], ['frame_%d' % i for i in range(d)]
    return ['msg_%d' % i for i in range(m)], ['dst_%d' % i for i in range(d)]


def check_one(ck, r, fn, m, d, failures, lay=0, label=''):
    tag = 'C08.%s.m%d.d%d' % (NAMES[fn], m, d) + ('.layout%d' % lay if lay else '') + ('.' + label if label else '')
    ok = len(r.paths) == 1 and r.paths[0]['end'] == 'return'
    if not ck.ground(tag + '.shape', 'single returning path: no content-dependent branch, no panic', ok, str([(p['end'], p.get('panic') or p.get('err')) for p in r.paths][:2])):
        failures.append(tag)
        return
    p = r.paths[0]
    o = p['obs']
    low = HLower(r)
    ocone = set(r.cone([x for c_ in 'xyz' for x in o['E.' + c_]['f']]))   # only what the observed result depends on
    h2f = [n for n in r.nodes if n['op'] == 'app' and n['n'] == 'fh2f' and n['id'] in ocone]
    want = 2 if fn == 0 else 1
    if not ck.ground(tag + '.h2f', '%d hash_to_field reductions over 48-byte windows' % want, len(h2f) == want and all(len(r.nodes[n['a'][0]]['a']) == 48 for n in h2f)):
        failures.append(tag)
        return
    for n in h2f:
        low.emit([n['id']])
    mnames, dnames = byte_names(m, d, lay)
    mn, _ = ensure_vars(r, low, mnames, 8)
    dn, _ = ensure_vars(r, low, dnames, 8)
    ref = expand_message_xmd(low, mn, dn, 48 * want)
    goals = []
    for k, n in enumerate(h2f):
        codebytes = ['n%d' % x for x in r.nodes[n['a'][0]]['a']]
        low.emit(r.nodes[n['a'][0]]['a'])
        conj = ' '.join('(= %s %s)' % (a, b) for a, b in zip(codebytes, ref[48 * k:48 * k + 48]))
        goals.append((tag + '.xmd%d' % k, 'u%d is reduced from bytes %d..%d of expand_message_xmd(msg, DST, %d) (RFC 9380 5.3.1%s)' % (
            k, 48 * k, 48 * k + 47, 48 * want, ', oversize-DST rule' if d > 255 else ''), '(assert (not (and %s)))' % conj))
    ans = ck.prove_batch(low.all(), goals, timeout=90)
    failures += [g[0] for g, a in zip(goals, ans) if a != 'unsat']
    # ---- map: iso(sswu(u0) [+ sswu(u1)]) ----
    def sswu_coord_nodes(base):
        out = {}
        for n in r.nodes:
            if n['op'] == 'pack' and len(n['a']) == 4:
                kids = [r.nodes[x] for x in n['a']]
                if all(k['op'] == 'limb' and k.get('k') == 12 and k['a'][0] == base for k in kids):
                    j0 = kids[0].get('i', 0)
                    if j0 % 4 == 0 and [k.get('i', 0) for k in kids] == [j0, j0 + 1, j0 + 2, j0 + 3]:
                        out['xyz'[j0 // 4]] = n['id']
        return out
    sw = [n['id'] for n in r.nodes if n['op'] == 'app' and n['n'] == 'sswu' and n['id'] in ocone]
    uids = [n['id'] for n in h2f]
    okm = len(sw) == want and sorted(r.nodes[s]['a'][0] for s in sw) == sorted(uids)
    if okm:
        sw = sorted(sw, key=lambda s_: uids.index(r.nodes[s_]['a'][0]))     # Q0 = map(u0), Q1 = map(u1), whichever is computed first
    if not ck.ground(tag + '.sswu', 'SSWU is applied to u0%s (each once; the order of the two independent evaluations is immaterial)' % (' and u1' if fn == 0 else ''), okm):
        failures.append(tag + '.sswu')
        return
    q = [sswu_coord_nodes(s) for s in sw]
    if fn == 0:
        pk = sorted(k for k in o if k.startswith('probe:') and 'addAffine3Iso2' in k)[-1:]   # the last call's addition
        if not ck.ground(tag + '.addcall', 'the two images are combined by one affine addition on E\'', len(pk) == 1):
            failures.append(tag + '.add')
            return
        cells = o[pk[0]]['cells']
        def base_of(ids):
            ns = [r.nodes[x] for x in ids]
            return ns[0]['a'][0] if all(n['op'] == 'limb' for n in ns) and len({n['a'][0] for n in ns}) == 1 else None
        X3n, Y3n = base_of(cells[0:4]), base_of(cells[4:8])
        if X3n is None or Y3n is None or any(c not in qq for qq in q for c in 'xy'):
            ck.ground(tag + '.addshape', 'addition result is a pair of abstract field values', False)
            failures.append(tag + '.add')
            return
        cuts = {q[0]['x'], q[0]['y'], q[1]['x'], q[1]['y']}
        la = HLower(r, cuts=cuts)
        la.emit([X3n, Y3n])
        inv = la.uf_decl('finv', ['Int'], 'Int')
        x0, y0, x1, y1 = ('n%d' % q[0]['x'], 'n%d' % q[0]['y'], 'n%d' % q[1]['x'], 'n%d' % q[1]['y'])
        la.lines += ['(define-fun c_dx () Int (- %s %s))' % (x1, x0),
                     '(define-fun c_l () Int (* (- %s %s) (%s c_dx)))' % (y1, y0, inv),
                     '(define-fun c_x3 () Int (- (- (* c_l c_l) %s) %s))' % (x0, x1),
                     '(assert (= (%s (- c_dx)) (- (%s c_dx))))' % (inv, inv)]   # 1/(-t) = -(1/t), also for t = 0
        g2 = [(tag + '.chordX', 'x(Q0+Q1) = lambda^2 - x0 - x1, lambda = (y1-y0)/(x1-x0): the affine chord rule on E\' (images with distinct x)', '(assert (not (= n%d c_x3)))' % X3n),
              (tag + '.chordY', 'y(Q0+Q1) = lambda (x_i - x3) - y_i for i = 0 or i = 1 (both are the chord rule)',
               '(assert (not (or (= n%d (- (* c_l (- %s c_x3)) %s)) (= n%d (- (* c_l (- %s c_x3)) %s)))))' % (Y3n, x0, y0, Y3n, x1, y1))]
        a2 = ck.prove_batch(la.all(), g2, timeout=90)
        failures += [g[0] for g, a in zip(g2, a2) if a != 'unsat']
        cutn = {X3n, Y3n}
        qx, qy = 'n%d' % X3n, 'n%d' % Y3n
    else:
        if any(c not in q[0] for c in 'xy'):
            ck.ground(tag + '.mapshape', 'isogeny is applied to the SSWU image', False)
            failures.append(tag + '.map')
            return
        cutn = {q[0]['x'], q[0]['y']}
        qx, qy = 'n%d' % q[0]['x'], 'n%d' % q[0]['y']
    lb = HLower(r, cuts=cutn)
    got = coords(lb, o, 'E')
    lb.emit(list(cutn))
    ref_pt = iso_reference(lb, qx, qy)
    g3 = []
    for c_, g, w in zip('XYZ', got, ref_pt):
        g3.append((tag + '.iso%s' % c_, '%s-coordinate = RFC 9380 E.1 iso_map of that point of E\' (for all values of its coordinates)' % c_, '(assert (not i_id))(assert (not (= %s %s)))' % (g, w)))
    for ci, c_ in enumerate(sorted(set(lb.cmov_conds))):
        lb.emit([c_])
        g3.append((tag + '.cond%d' % ci, 'conditional-move condition is 0 or 1', '(assert (not (bvule n%d (_ bv1 64))))' % c_))
    a3 = ck.prove_batch(lb.all(), g3, timeout=90)
    failures += [g[0] for g, a in zip(g3, a3) if a != 'unsat']
    inputs = {n['n'].rsplit('_', 1)[0] for n in r.nodes if n['op'] == 'var' and n['id'] in ocone}
    if not ck.ground(tag + '.deterministic', 'the result depends on nothing but msg and DST bytes (no other input, no global state read)', inputs <= {'msg', 'dst', 'msgbuf', 'dstbuf', 'frame'}, str(inputs)):
        failures.append(tag)
    if not ck.ground(tag + '.fresh', 'a fresh element is returned; msg and DST are not written', bool(o['efresh'].get('fresh')) and not p['writes'], str(p['writes'][:1])):
        failures.append(tag + '.write')


# message lengths at which the b_0 input Z_pad || msg || l_i_b || 0 || DST' (64 + m + 3 + d + 1 bytes) reaches 128 / 256 bytes, for two DST lengths,
# and an oversize DST (DST' is 33 bytes): where an implementation that assembles msg' in a fixed buffer or counts blocks changes behaviour
BOUNDARY = [(T - 68 - d, d) for d in (16, 49) for T in (127, 128, 129, 255, 256, 257)] + [(T - 68 - 32, 300) for T in (255, 256, 257)]
# thorough: every message length 0..320 for four DST lengths (short, suite-sized, longest short, oversize)
SWEEP = [(m, d) for d in (21, 49, 255, 300) for m in range(0, 321)]


def run(tier, seed):
    ck = Check('C08', tier, seed, level='model_checking')
    if tier == 'quick':
        ms, ds = [0, 1, 3, 16, 64, 128], [1, 2, 15, 16, 17, 254, 255, 256, 257, 300]
        combos = [(m, d) for m in ms for d in ds if (m in (0, 3, 64) or d in (1, 16, 255, 256, 300))] + [(1, 65536)]   # a DST whose length does not fit 16 bits
        combos += BOUNDARY
    else:
        ms, ds = [0, 1, 2, 3, 4, 5, 6, 7, 8, 55, 56, 63, 64, 65, 128, 512], list(range(1, 301))
        combos = [(m, d) for d in ds for m in ((0, 3, 64) if d not in (1, 16, 255, 256, 300) else ms)] + [(1, 65535), (1, 65536), (1, 65537), (0, 65791), (2, 131072)]
        combos += SWEEP
        combos = list(dict.fromkeys(combos))
    jobs = []
    for fn in (0, 1):
        for (m, d) in combos:
            jobs.append({'id': 'h%d_%d_%d' % (fn, m, d), 'harness': 'vh_hash', 'args': [fn, m, d, 0], 'summaries': SUMM, 'probes': [PROBE, PROBE_FN]})
        for lay in (1, 2, 3, 4):
            for (m, d) in LAYCOMBOS:
                jobs.append({'id': 'h%d_%d_%d_L%d' % (fn, m, d, lay), 'harness': 'vh_hash', 'args': [fn, m, d, lay], 'summaries': SUMM, 'probes': [PROBE, PROBE_FN]})
        for mode in (0, 1, 2, 3, 4):
            for (m, d) in (TWICE if mode < 4 else [(3, 33)]):
                jobs.append({'id': 'tw%d_%d_%d_%d' % (fn, m, d, mode), 'harness': 'vh_hash_twice', 'args': [fn, m, d, mode], 'summaries': SUMM, 'probes': [PROBE, PROBE_FN]})
        for isnil in (0, 1):
            jobs.append({'id': 'nodst%d_%d' % (fn, isnil), 'harness': 'vh_hash_nodst', 'args': [fn, 3, isnil], 'summaries': SUMM})
        jobs.append({'id': 'nilmsg%d' % fn, 'harness': 'vh_hash_nilmsg', 'args': [fn, 16], 'summaries': SUMM})
        jobs.append({'id': 'empty%d' % fn, 'harness': 'vh_hash', 'args': [fn, 0, 16, 0], 'summaries': SUMM})
    runs = ck.absorb(core.symx_parallel(HARNESS, jobs, chunks=12))
    ck.extra['_runs'] = runs
    R_ = {r.id: r for r in runs}
    ck.trusted = ['go/ssa + symx translation', 'SMT solvers', 'SHA-256 is a function of its input bytes (uninterpreted, one symbol per input length); hash.Hash Reset/Write/Sum contract',
                  'RFC 9380: iso_map is a homomorphism, so iso(Q0\' + Q1\') = iso(Q0\') + iso(Q1\') as section 3 defines hash_to_curve; clear_cofactor is the identity (h = 1)',
                  'SSWU = RFC F.2 (C11), HashToFieldElement = OS2IP mod p (C12), field contracts (C12)']
    ck.assumptions = ['message and DST contents arbitrary; lengths from the table']
    ck.bounds = {'buffer layouts': 'len=cap for every pair; spare capacity / window / msg+DST adjacent in one frame (both orders) for %s' % LAYCOMBOS, '(msg length, DST length) pairs': len(combos), 'msg lengths': ms, 'DST lengths': ds if tier == 'quick' else '1..300'}
    ck.outside = ['lengths outside the table', 'SHA-256 internals',
                  'inputs whose two SSWU images share an x-coordinate (affine chord formula degenerate): reachable only through a SHA-256 output nobody can exhibit; the polynomial identity holds there too but the chord rule is then not the group law']
    from props import C12
    C12.run(tier, seed, ck, which=['HashToFieldElement', 'Square', 'Multiply', 'Add', 'Subtract', 'One', 'IsZero', 'Negate', 'CMove', 'SqrtRatio', 'Sgn0', 'IsEqual', 'Invert', 'Set'])   # contracts of the field.Element methods used as summaries are re-proved on the current tree
    failures = []
    with core.ThreadPoolExecutor(max_workers=4) as ex:
        list(ex.map(lambda a: check_one(ck, R_['h%d_%d_%d' % (a[0], a[1][0], a[1][1])], a[0], a[1][0], a[1][1], failures), [(fn, c) for fn in (0, 1) for c in combos]))
    for fn in (0, 1):
        for lay in (1, 2, 3, 4):
            for (m, d) in LAYCOMBOS:
                check_one(ck, R_['h%d_%d_%d_L%d' % (fn, m, d, lay)], fn, m, d, failures, lay)
    for fn in (0, 1):
        for mode in (0, 1, 2, 3, 4):
            for (m, d) in (TWICE if mode < 4 else [(3, 33)]):
                check_one(ck, R_['tw%d_%d_%d_%d' % (fn, m, d, mode)], fn, m, d, failures, lay=0, label='second-call%d' % mode)
    for fn in (0, 1):
        for isnil in (0, 1):
            r = R_['nodst%d_%d' % (fn, isnil)]
            okp = len(r.paths) == 1 and r.paths[0]['end'] == 'panic' and r.paths[0]['panic'] == 'err:zero-length DST' and not any(n['op'] == 'sha256' for n in r.nodes)
            if not ck.ground('C08.%s.nodst%d' % (NAMES[fn], isnil), '%s DST panics with errZeroLenDST before anything is hashed' % ('nil' if isnil else 'empty'), okp):
                failures.append('nodst')
        ra, rb = R_['nilmsg%d' % fn], R_['empty%d' % fn]

        def canon(run, roots):
            memo = {}
            for i in run.cone(roots):
                n = run.nodes[i]
                memo[i] = hash((n['op'], n.get('w'), n.get('v'), n.get('n'), n.get('i'), n.get('k'), tuple(memo[x] for x in n['a'])))
            return [memo[x] for x in roots]
        same = len(ra.paths) == 1 and len(rb.paths) == 1 and all(
            canon(ra, ra.paths[0]['obs']['E.' + c_]['f']) == canon(rb, rb.paths[0]['obs']['E.' + c_]['f']) for c_ in 'xyz')
        if not ck.ground('C08.%s.nilmsg' % NAMES[fn], 'nil message behaves exactly as the empty message (identical term graphs)', same):
            failures.append('nilmsg')
    if failures and not ck.violations:
        battery(ck, failures, combos)
    return ck.finish()


def battery(ck, failures, combos):
    from props import fallback
    cases = fallback.length_cases('C08', failures, ck.seed) + fallback.cases_for('C08', ck.seed)
    path = ck.save_replay({'property': ck.pid, 'cases': cases, 'failed': failures[:10]})
    ok, out = core.go_test(path)
    if ok:
        path = ck.save_replay({'property': ck.pid, 'cases': fallback.first_oversize('C08', ck.seed) + cases, 'failed': failures[:10], 'note': 'fresh process whose first hashing call uses an oversize DST'})
        ok, out = core.go_test(path)
    if not ok and 'MISMATCH' in out:
        ck.violation('h2c', 'hash-to-curve deviates from RFC 9380 (%s): %s' % (failures[0], [l.strip() for l in out.splitlines() if 'MISMATCH' in l][:1]), path)
    else:
        ck.inconclusive.append('failed obligations %s did not reproduce: %s' % (failures[:3], out[-200:]))


def replay(path):
    ok, out = core.go_test(path)
    print(out)
    return 0 if ok else 1
