"""C02 - Add, Double, Subtract, Negate implement the group law with no exceptional cases.

The real point formulas are executed from /repo's SSA over a commutative ring (field.Element
methods replaced by their C12 contracts) and compared, as polynomial identities over Z decided
by the solver, with the Renes-Costello-Batina complete formulas for a = 0 (b3 = 21).  All
receiver/argument aliasings and the nil argument are separate runs."""
import itertools
from vf import core, smt, kernels
from vf.core import Check
from vf.poly import PolyLower, FIELD_SUMM, val_term
from vf.dag import varid as varid_, ensure_vars
from vf.params import *

HARNESS = ['root_intrinsics.go', 'root_element.go']
B3 = 21


def rcb_add(X1, Y1, Z1, X2, Y2, Z2, b3='21'):
    m = lambda *a: '(* %s)' % ' '.join(a)
    p = lambda *a: '(+ %s)' % ' '.join(a)
    s = lambda a, b: '(- %s %s)' % (a, b)
    y1y2, z1z2, x1x2 = m(Y1, Y2), m(Z1, Z2), m(X1, X2)
    xy = p(m(X1, Y2), m(X2, Y1))
    yz = p(m(Y1, Z2), m(Y2, Z1))
    xz = p(m(X1, Z2), m(X2, Z1))
    X3 = s(m(xy, s(y1y2, m(b3, z1z2))), m(b3, yz, xz))
    Y3 = p(m(p(y1y2, m(b3, z1z2)), s(y1y2, m(b3, z1z2))), m('3', b3, x1x2, xz))
    Z3 = p(m(yz, p(y1y2, m(b3, z1z2))), m('3', x1x2, xy))
    return X3, Y3, Z3


def rcb_double(X, Y, Z, b3='21'):
    m = lambda *a: '(* %s)' % ' '.join(a)
    y2, z2 = m(Y, Y), m(Z, Z)
    t = '(- %s %s)' % (y2, m('3', b3, z2))               # Y^2 - 9b Z^2
    X3 = m('2', X, Y, t)
    Y3 = '(+ %s %s)' % (m(t, '(+ %s %s)' % (y2, m(b3, z2))), m('8', b3, y2, z2))   # 24 b Y^2 Z^2 = 8*b3
    Z3 = m('8', Y, Y, Y, Z)
    return X3, Y3, Z3


def fold_boundary_scalings():
    """projective scalings whose Montgomery form w makes c*w land just below / at a multiple of 2^256 for the small
    constants of the formulas (3, 3b = 21, 9b = 63, 24b = 168): the inputs on which a hand-rolled multiply-by-constant
    or its 2^256-fold can lose a carry"""
    Ri = pow(R, -1, P)
    out = []
    for cst in (21, 3, 63, 168):
        for h in list(range(1, min(cst, 8))) + [cst - 1]:
            for d in (0, 1):
                w = ((h + 1) * 2**256 - 1) // cst + d
                if w >= P:
                    continue
                lam = w * Ri % P
                out.append(lam)
                if pow(lam, (P - 1) // 2, P) == 1:      # a Z whose square has that Montgomery form
                    out.append(pow(lam, (P + 1) // 4, P))
    cases = []
    for lam in out[:40]:
        cases.append({'kind': 'el-scaled', 'a': '%064x' % lam, 'b': '%064x' % 1})
        cases.append({'kind': 'el-scaled', 'a': '%064x' % 1, 'b': '%064x' % lam})
    return cases



def coords(low, o, name):
    return [val_term(low, o['%s.%s' % (name, c)]['f']) for c in 'xyz']


def run(tier, seed, ck=None, only=None, on_fail=None):
    """only: job ids to include when embedded (e.g. {'op2_0_0', 'op1_2'}: Add on distinct operands and Double, what the ladder uses);
    on_fail(key, why, extra_cases): the embedding check replays through ITS OWN property instead of C02's battery"""
    own = ck is None
    ck = ck or Check('C02', tier, seed, level='proof')
    jobs = []
    for op in (0, 1):
        for al in (0, 1, 2):
            jobs.append({'id': 'op2_%d_%d' % (op, al), 'harness': 'vh_el_op2', 'args': [op, al], 'summaries': FIELD_SUMM})
    for op in (2, 3):
        jobs.append({'id': 'op1_%d' % op, 'harness': 'vh_el_op1', 'args': [op], 'summaries': FIELD_SUMM})
    if only is not None:
        jobs = [j for j in jobs if j['id'] in only]
    inc = lambda jid: only is None or jid in only
    runs = ck.absorb(core.symx_parallel(HARNESS, jobs))
    ck.extra.setdefault('_runs', []).extend(runs)
    R_ = {r.id: r for r in runs}
    ck.trusted += ['go/ssa + symx translation', 'SMT solvers',
                  'Renes-Costello-Batina 2015, Thm 1/Alg. 7, 9: for a = 0 the closed forms below are the group law on every pair of points of a curve without points of order 2 (secp256k1 has prime order), including P = Q, P = -Q and the identity (0:Y:0)',
                  'contracts of field.Element methods (C12); an identity over Z[constants] holds in F_p']
    ck.assumptions += ['coordinates are arbitrary field values (the identities do not even need the curve equation)']
    ck.bounds.update({'operands': 'all coordinate 6-tuples as ring elements', 'aliasing': 'distinct / argument is receiver / nil'})
    from props import C12
    C12.run(tier, seed, ck, which=['Add', 'Subtract', 'Multiply', 'Negate', 'Square', 'Set', 'IsZero', 'One'] if only is None else ['Add', 'Subtract', 'Multiply', 'Square', 'Set'])   # contracts of the field.Element methods used as summaries are re-proved on the current tree

    def replay_battery(key, why, extra=()):
        if on_fail is not None:
            return on_fail(key, why, list(extra))
        path = ck.save_replay({'property': ck.pid, 'cases': list(extra) + fold_boundary_scalings() + [{'kind': 'el-battery', 'op': 'group', 'n': ck.seed}]})
        ok, out = core.go_test(path)
        if not ok and 'MISMATCH' in out:
            ck.violation(key, '%s: %s' % (why, [l.strip() for l in out.splitlines() if 'MISMATCH' in l][:1]), path)
        else:
            ck.inconclusive.append('%s: failed obligation did not reproduce on on-curve operands: %s' % (key, out[-200:]))

    for op, nm in ((0, 'Add'), (1, 'Subtract')):
        for al in (0, 1, 2):
            if not inc('op2_%d_%d' % (op, al)):
                continue
            r = R_['op2_%d_%d' % (op, al)]
            tag = 'C02.%s.alias%d' % (nm, al)
            ok = len(r.paths) >= 1 and all(p_['end'] == 'return' for p_ in r.paths)
            ck.ground(tag + '.shape', 'every path returns: no panic (%d path%s%s)' % (len(r.paths), '' if len(r.paths) == 1 else 's',
                      '' if len(r.paths) == 1 else ': the code branches on operand values, each branch is checked under its path condition'), ok,
                      str([(p_['end'], p_.get('panic') or p_.get('err')) for p_ in r.paths][:3]))
            if not ok:
                continue
            for p in r.paths:
                o = p['obs']
                pt = tag if len(r.paths) == 1 else '%s.path%d' % (tag, p['id'])
                ck.ground(pt + '.ret', 'returns the receiver', r.nodes[o['same']['n']].get('v') == '1')
                if al == 2:
                    ck.ground(pt + '.nil', 'nil argument leaves the receiver unchanged', all(o['P.' + c]['f'] == o['P0.' + c]['f'] for c in 'xyz') and not p['writes'])
                    continue
                low = PolyLower(r)
                got = coords(low, o, 'P')
                P0 = coords(low, o, 'P0')
                Q = coords(low, o, 'Q') if al == 0 else P0
                if al == 0:
                    ck.ground(pt + '.frame', 'argument element is never written', not p['writes'], str(p['writes'][:1]))
                X2, Y2, Z2 = Q
                if op == 1:
                    Y2 = '(- %s)' % Y2
                ref = rcb_add(P0[0], P0[1], P0[2], X2, Y2, Z2)
                pre = low.all()
                limbvars = []
                if p['pc']:
                    # a branch on operand values: its condition is over Montgomery limbs; link limbs and field value by the
                    # two facts a correct fast path may rely on (the representation is injective): limbs = M(1) <=> value = 1, limbs = 0 <=> value = 0
                    low.emit(p['pc'])
                    links = []
                    for fe, ids in list(low.invars.items()):
                        pass
                    for nm_ in ('p', 'q'):
                        for cc in 'xyz':
                            ids = [varid_(r, '%s%s%d' % (nm_, cc, j)) for j in range(4)]
                            if any(i is not None and i in low.done for i in ids):
                                fe = low.fe(nm_ + cc)
                                lv, _ = ensure_vars(r, low, ['%s%s%d' % (nm_, cc, j) for j in range(4)])
                                limbvars.append((nm_ + cc, lv))
                                one = limbs(R % P)
                                links.append('(assert (= (and %s) (= %s 1)))' % (' '.join('(= %s (_ bv%d 64))' % (l, o_) for l, o_ in zip(lv, one)), fe))
                                links.append('(assert (= (and %s) (= %s 0)))' % (' '.join('(= %s (_ bv0 64))' % l for l in lv), fe))
                    pre = low.all() + '\n' + '\n'.join(links) + '\n' + '\n'.join('(assert n%d)' % c_ for c_ in p['pc'])
                    ck.prove(pt + '.reach', 'branch reachable', pre, expect='sat', timeout=30)
                goals = [(pt + '.%s3' % c, '%s: %s-coordinate equals the complete-addition closed form (polynomial identity over Z%s)' % (nm, c, ', under the branch condition' if p['pc'] else ''),
                          '(assert (not (= %s %s)))' % (g, w)) for c, g, w in zip('XYZ', got, ref)]
                ans = ck.prove_batch(pre, goals, timeout=60)
                if 'sat' in ans and p['pc']:
                    # a shortcut branch may return another REPRESENTATION of the same point.  Specialise the inputs the branch
                    # condition forces to zero (a substitution instance: sound), add the invariant that a point with Z = 0 is (0:Y:0),
                    # and ask for projective equality (cross products) instead of coordinate equality.
                    isz = low.uf_decl('isz', ['Int'], 'Bool')
                    subst = []
                    for nm_ in ('p', 'q'):
                        zv = low.fe(nm_ + 'z')
                        r_ = smt.check(pre + '\n(assert (not (%s %s)))' % (isz, zv), timeout=30)
                        if r_.status == 'unsat':
                            subst += ['(assert (= %s 0))' % zv, '(assert (= %s 0))' % low.fe(nm_ + 'x')]
                    if subst:
                        pre2 = low.all() + '\n' + '\n'.join(subst)
                        g2 = [(pt + '.proj%d' % k, '%s: result is projectively equal to the complete-addition result when %s is the identity (0:Y:0) (cross products, polynomial identity)' % (nm, 'an operand'),
                               '(assert (not (= (* %s %s) (* %s %s))))' % (got[i], ref[j], ref[i], got[j])) for k, (i, j) in enumerate(((0, 2), (1, 2), (0, 1)))]
                        a2 = ck.prove_batch(pre2, g2, timeout=60)
                        if all(a == 'unsat' for a in a2):
                            # the coordinate-equality obligations are superseded on this branch
                            with ck.lock:
                                for o_ in ck.obls:
                                    if o_['id'] in [g_[0] for g_ in goals] and not o_['ok']:
                                        o_['ok'] = True
                                        o_['desc'] += ' [not coordinate-wise, but projectively equal: see %s.proj*]' % pt
                            ans = ['unsat'] * len(ans)
                if 'sat' in ans:
                    extra = []
                    if limbvars:
                        # bit-vector-only query: limbs that satisfy the branch condition without being the representation of 1 (or 0)
                        one = limbs(R % P)
                        for nm_, lv0 in limbvars:
                            if not nm_.endswith('z'):
                                continue
                            lowb = PolyLower(r)
                            lowb.emit(p['pc'])
                            lv, _ = ensure_vars(r, lowb, ['%s%d' % (nm_, j) for j in range(4)])
                            q_ = '\n'.join([lowb.all()] + ['(assert n%d)' % c_ for c_ in p['pc']] + [
                                '(assert (bvult (concat %s) %s))' % (' '.join(reversed(lv)), bvconst256(P)),
                                '(assert (not (and %s)))' % ' '.join('(= %s (_ bv%d 64))' % (l, o_) for l, o_ in zip(lv, one)),
                                '(assert (not (and %s)))' % ' '.join('(= %s (_ bv0 64))' % l for l in lv)])
                            m, _ = smt.get_model(q_, lv, timeout=30)
                            if m:
                                sc = unlimbs([m[v] for v in lv]) * pow(R, -1, P) % P
                                extra.append({'kind': 'el-scaled', 'a': '%064x' % (sc if nm_ == 'pz' else 1), 'b': '%064x' % (sc if nm_ == 'qz' else 1)})
                    replay_battery('group:' + nm, '%s differs from the complete addition formula' % nm, extra)
    # Double
    r = R_.get('op1_2')
    ok = r is not None and len(r.paths) == 1 and r.paths[0]['end'] == 'return'
    if r is not None:
        ck.ground('C02.Double.shape', 'single returning path', ok)
    if ok:
        o = r.paths[0]['obs']
        low = PolyLower(r)
        got = coords(low, o, 'P')
        P0 = coords(low, o, 'P0')
        ref = rcb_double(*P0)
        goals = [('C02.Double.%s3' % c, 'Double: %s-coordinate equals the complete-doubling closed form' % c, '(assert (not (= %s %s)))' % (g, w)) for c, g, w in zip('XYZ', got, ref)]
        ans = ck.prove_batch(low.all(), goals, timeout=60)
        ck.ground('C02.Double.ret', 'returns the receiver', r.nodes[o['same']['n']].get('v') == '1')
        if 'sat' in ans:
            replay_battery('group:Double', 'Double differs from the complete doubling formula')
    # Negate
    r = R_.get('op1_3')
    rets = [p for p in r.paths if p['end'] == 'return'] if r is not None else []
    if r is not None:
        ck.ground('C02.Negate.shape', 'every path returns (%d: a branch on the identity test, or a branch-free selection), no panic' % len(rets), len(rets) >= 1 and len(rets) == len(r.paths))
    for p in rets:
        o = p['obs']
        low = PolyLower(r)
        got = coords(low, o, 'P')
        P0 = coords(low, o, 'P0')
        low.emit(p['pc'])
        isz = low.uf_decl('isz', ['Int'], 'Bool')
        pre = low.all() + '\n' + '\n'.join('(assert n%d)' % c for c in p['pc'])
        goals = [('C02.Negate.path%d' % p['id'], 'Negate: (X : -Y : Z) unless Z = 0, in which case the identity is returned unchanged',
                  '(assert (not (and (= %s %s) (= %s %s) (= %s (ite (%s %s) %s (- %s))))))' % (got[0], P0[0], got[2], P0[2], got[1], isz, P0[2], P0[1], P0[1]))]
        ans = ck.prove_batch(pre, goals, timeout=30)
        ck.prove('C02.Negate.reach%d' % p['id'], 'path reachable', pre, expect='sat', timeout=30)
        if 'sat' in ans:
            replay_battery('group:Negate', 'Negate wrong')
    if tier == 'thorough':
        reference_validation(ck)
    if any(not o['ok'] for o in ck.obls) and not ck.violations:
        replay_battery('group:structure', 'a structural obligation failed: ' + [o['id'] for o in ck.obls if not o['ok']][0])
    return ck.finish() if own else None


def reference_validation(ck):
    """T5: the transcribed closed forms are themselves checked: bihomogeneity (solver), and exhaustive
    agreement with the affine chord-tangent law on y^2 = x^3 + 7 over small prime fields of odd curve order."""
    V = ['X1', 'Y1', 'Z1', 'X2', 'Y2', 'Z2', 'l', 'm']
    decl = '\n'.join('(declare-const %s Int)' % v for v in V)
    F = rcb_add('X1', 'Y1', 'Z1', 'X2', 'Y2', 'Z2')
    G = rcb_add('(* l X1)', '(* l Y1)', '(* l Z1)', '(* m X2)', '(* m Y2)', '(* m Z2)')
    goals = [('C02.ref.bihom%s' % c, 'reference addition is bihomogeneous of degree (2,2): independent of the projective scaling', '(assert (not (= %s (* l l m m %s))))' % (g, f)) for c, f, g in zip('XYZ', F, G)]
    D = rcb_double('X1', 'Y1', 'Z1')
    D2 = rcb_double('(* l X1)', '(* l Y1)', '(* l Z1)')
    goals += [('C02.ref.dhom%s' % c, 'reference doubling is homogeneous of degree 4', '(assert (not (= %s (* l l l l %s))))' % (g, f)) for c, f, g in zip('XYZ', D, D2)]
    ck.prove_batch(decl, goals, timeout=120)
    # exhaustive small fields
    def ev(expr, env, q):
        toks = expr.replace('(', ' ( ').replace(')', ' ) ').split()
        def parse(i):
            if toks[i] == '(':
                op = toks[i + 1]; i += 2; args = []
                while toks[i] != ')':
                    v, i = parse(i); args.append(v)
                if op == '+': r = sum(args)
                elif op == '*':
                    r = 1
                    for a in args: r = r * a
                elif op == '-': r = -args[0] if len(args) == 1 else args[0] - sum(args[1:])
                return r % q, i + 1
            t = toks[i]
            return (env[t] if t in env else int(t)) % q, i + 1
        return parse(0)[0]
    checked = 0
    for q in [11, 13, 23, 31, 43, 47, 59, 61, 67, 71, 73, 79]:
        if q % 3 != 1 and q % 3 != 2:
            continue
        pts = [(x, y) for x in range(q) for y in range(q) if (y * y - x * x * x - 7) % q == 0]
        order = len(pts) + 1
        if order % 2 == 0:
            continue
        def aff_add(Pp, Qq):
            if Pp is None: return Qq
            if Qq is None: return Pp
            (x1, y1), (x2, y2) = Pp, Qq
            if x1 == x2 and (y1 + y2) % q == 0: return None
            lam = (3 * x1 * x1 * pow(2 * y1, -1, q)) % q if Pp == Qq else ((y2 - y1) * pow(x2 - x1, -1, q)) % q
            x3 = (lam * lam - x1 - x2) % q
            return (x3, (lam * (x1 - x3) - y1) % q)
        allp = [None] + pts
        for Pp in allp:
            for Qq in allp:
                e = {}
                e['X1'], e['Y1'], e['Z1'] = (0, 1, 0) if Pp is None else (Pp[0], Pp[1], 1)
                e['X2'], e['Y2'], e['Z2'] = (0, 1, 0) if Qq is None else (Qq[0], Qq[1], 1)
                X3, Y3, Z3 = (ev(f, e, q) for f in F)
                w = aff_add(Pp, Qq)
                if w is None:
                    ok = X3 == 0 and Z3 == 0 and Y3 != 0
                else:
                    ok = Z3 != 0 and (X3 * pow(Z3, -1, q)) % q == w[0] and (Y3 * pow(Z3, -1, q)) % q == w[1]
                checked += 1
                if not ok:
                    ck.ground('C02.ref.small', 'reference closed form agrees with the chord-tangent law over F_%d' % q, False, 'P=%s Q=%s' % (Pp, Qq))
                    return
            e = {}
            e['X1'], e['Y1'], e['Z1'] = (0, 1, 0) if Pp is None else (Pp[0], Pp[1], 1)
            X3, Y3, Z3 = (ev(f, e, q) for f in D)
            w = aff_add(Pp, Pp)
            ok = (X3 == 0 and Z3 == 0 and Y3 != 0) if w is None else (Z3 != 0 and (X3 * pow(Z3, -1, q)) % q == w[0] and (Y3 * pow(Z3, -1, q)) % q == w[1])
            if not ok:
                ck.ground('C02.ref.small', 'reference doubling agrees with the tangent law over F_%d' % q, False, 'P=%s' % (Pp,))
                return
    ck.ground('C02.ref.small', 'reference closed forms agree with the affine chord-tangent law on y^2=x^3+7 exhaustively over small fields of odd curve order (%d pairs)' % checked, checked > 0)


def replay(path):
    ok, out = core.go_test(path)
    print(out)
    return 0 if ok else 1
