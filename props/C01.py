"""C01 - scalar multiplication equals k-fold addition for every scalar and point.

Multiply/multiply are executed from /repo's SSA with Element.Add/Double/copy/set/newElement replaced
by their C02 contracts over the DLog abstraction (an element is an integer multiple of the input
point) and Scalar.Bits executed for real over FromMontgomery as an uninterpreted function.  The ladder
loop is cut at its header: from an ARBITRARY state satisfying the invariant r1 = r0 + P, one iteration
for each concrete index i re-establishes it with r0' = 2 r0 + bit_i on both arms of the bit test
(256 inductive checkpoints); entry establishes it, exit returns r0.  Induction gives [sum bit_i 2^i]P
for all 2^256 bit patterns and every P."""
from vf import core, smt, kernels
from vf.core import Check
from vf.dlog import DLogLower, ELEMENT_SUMM, ladder_orientation
from vf.dag import ensure_vars
from vf.uf import concat_limbs
from vf.params import *

HARNESS = ['root_intrinsics.go', 'root_scalar.go', 'root_element.go']
SUMM = ELEMENT_SUMM + kernel_summaries('scalar', 's')
CUT = {'fn': '(*' + MOD + '.Element).multiply', 'loop': 0, 'mode': 'havoc'}


def asserts(ids):
    return '\n'.join('(assert n%d)' % c for c in ids)


def cells_point(low, cells):
    """Int term of the element whose 12 limb cells are given"""
    r = low.run
    ns = [r.nodes[x] for x in cells]
    if all(n['op'] == 'limb' and n.get('k') == 12 for n in ns) and len({n['a'][0] for n in ns}) == 1:
        b = ns[0]['a'][0]
        low.emit([b])
        return low.name(b)
    pk = [n['id'] for n in r.nodes if n['op'] == 'pack' and n['a'] == cells]
    if pk:
        low.emit(pk)
        return low.name(pk[0])
    if all(n['op'] == 'var' for n in ns):
        names = [n['n'] for n in ns]
        if names[0].startswith('hv'):
            return low.point_var('dl_' + names[0].split('_')[0])
        return low.point_var('dl_' + names[0][:-2])
    if all(n['op'] == 'const' for n in ns):
        from vf.dlog import IDENTITY_LIMBS
        if [int(n['v']) for n in ns] == IDENTITY_LIMBS:
            return '0'
    raise core.EngineError('cells do not form one element value')


def is_identity(r, cells):
    ns = [r.nodes[x] for x in cells]
    if all(n['op'] == 'limb' for n in ns) and len({n['a'][0] for n in ns}) == 1:
        b = r.nodes[ns[0]['a'][0]]
        return b['op'] == 'app' and b['n'] == 'pzero'
    if all(n['op'] == 'const' for n in ns):
        from vf.dlog import IDENTITY_LIMBS
        return [int(n['v']) for n in ns] == IDENTITY_LIMBS
    return False


def run(tier, seed, ck=None):
    own = ck is None
    ck = ck or Check('C01', tier, seed, level='model_checking')
    idxs = list(range(255, -1, -1))
    # direction and name of the loop counter are read from the code: the induction runs over counter values 255..0 or 0..255, iteration with
    # counter value c consumes bit c resp. 255 - c of the canonical value (most significant bit first either way)
    ORI, _first, EXITV, CN = ladder_orientation(HARNESS, SUMM)
    ck.extra['ladder_loop'] = 'counter %s counts %s' % (CN, '255..0' if ORI == 'down' else '0..255 (bit index 255 - counter)')
    jobs = [{'id': 'it%d' % k, 'harness': 'vh_multiply', 'summaries': SUMM, 'cut': dict(CUT, phis={CN: k})} for k in idxs]
    jobs.append({'id': 'exit', 'harness': 'vh_multiply', 'summaries': SUMM, 'cut': dict(CUT, phis={CN: EXITV})})
    jobs.append({'id': 'nil', 'harness': 'vh_multiply_nil', 'summaries': SUMM})
    runs = ck.absorb(core.symx_parallel(HARNESS, jobs, chunks=14))
    ck.extra.setdefault('_runs', []).extend(runs)
    R_ = {r.id: r for r in runs}
    ck.trusted += ['go/ssa + symx translation', 'SMT solvers', 'Element.Add/Double are the group law on every representation (C02: polynomial identity + RCB completeness); copy/set preserve the point',
                   'induction over the 256 loop iterations (each step is solver-checked from an arbitrary invariant state)',
                   'FromMontgomery(S) is the canonical value (C06); Encode serialises the same value (C07)']
    ck.assumptions += ['P is any group element in any valid representation; the scalar has arbitrary canonical limbs']
    ck.bounds.update({'scalars': 'all 2^256 bit patterns (in particular all k in [0,n))', 'points': 'all (abstract base point)', 'ladder iterations': '256 inductive checkpoints, i = 255..0, both arms'})
    ck.outside += ['multiplication algorithms of a different shape (more accumulators, windows) would be INCONCLUSIVE, not a violation']
    if own:
        kernels.prove(ck, 'scalar', ['FromMontgomery'], tier)
        # the ladder is checked over the CONTRACT of Add/Double; that contract is re-proved on the current tree (C02's obligations)
        from props import C02

        def group_law_failed(key, why, extra):
            # replayed through the property itself: [k]P for points whose projective scaling comes from the failing obligation's model or
            # sits at the fold boundaries of the small-constant multiplications
            scal = [int(c_[f_], 16) for c_ in extra if c_.get('kind') == 'el-scaled' for f_ in ('a', 'b') if int(c_[f_], 16) > 1]
            scal += [int(c_['a'], 16) for c_ in C02.fold_boundary_scalings()[:24] if int(c_['a'], 16) > 1]
            ks = [N - 1, 2**255 + 12345, 3, (N - 1) // 2, 0x5555555555555555555555555555555555555555555555555555555555555555 % N]
            cases = [{'kind': 'multiply', 'a': '%064x' % k, 'b': '%064x' % j, 'c': '%064x' % l} for l in list(dict.fromkeys(scal))[:16] for k in ks[:3] for j in (1, 5)]
            cases += [{'kind': 'multiply', 'a': '%064x' % k, 'b': '%064x' % j, 'c': '%064x' % 7} for k in ks for j in (1, 5, 0)]
            path = ck.save_replay({'property': 'C01', 'cases': cases, 'reason': '%s: %s' % (key, why)})
            ok, out = core.go_test(path)
            if not ok and 'MISMATCH' in out:
                ck.violation('group-law', 'the addition/doubling used by the ladder is wrong (%s): %s' % (why, [l.strip() for l in out.splitlines() if 'MISMATCH' in l][:1]), path)
            else:
                ck.inconclusive.append('%s: the Add/Double contract the ladder proof relies on fails, but no scalar multiplication in the battery is wrong' % key)
        try:
            C02.run(tier, seed, ck, only={'op2_0_0', 'op1_2'}, on_fail=group_law_failed)   # Add on distinct operands and Double: what the ladder calls
        except (ValueError, core.EngineError) as e:
            ck.record('C01.group-law', 'Add/Double formulas could not be encoded (%s)' % str(e)[:120], 'unknown', 'symx', 0.0, 'unsat')
            group_law_failed('group-law', 'not encodable: %s' % str(e)[:120], [])
    failures = []
    LASTV = 0 if ORI == 'down' else 255     # counter value of the last iteration
    rotated = [False]

    def step(k):
        r = R_['it%d' % k]
        tag = 'C01.iter%d' % k
        cuts = [p for p in r.paths if p['end'] == 'cut']
        rets = [p for p in r.paths if p['end'] == 'return']
        rot = False
        if not cuts and k == LASTV:
            # a rotated loop (exit test in the latch): the arms of the last iteration run on through e.set(r0) and return
            cuts = [p for p in rets if 'cut:havoc' in p['obs']]
            rets = [p for p in rets if 'cut:havoc' not in p['obs']]
            rot = True
            rotated[0] = True
        if not ck.ground(tag + '.shape', 'iteration %d: two arms reach the loop header again; the only other path is the documented k = 1 shortcut' % k,
                         len(cuts) == 2 and len(rets) == 1 and len(r.paths) == 3, str([(p['end'], p.get('panic') or p.get('err')) for p in r.paths][:3])):
            failures.append(tag)
            return
        ent = cuts[0]['obs']['cut:entry']
        if not ck.ground(tag + '.writeset', 'the loop writes exactly the two accumulators', len(ent) == 2 and all(len(v['cells']) == 12 for v in ent.values()), str({k_: v['label'] for k_, v in ent.items()})):
            failures.append(tag)
            return
        low = DLogLower(r)
        # which accumulator is r0: the one that is the identity on entry
        names = {}
        for oid, v in ent.items():
            names[oid] = cells_point(low, v['cells'])
        r0 = [o for o, v in ent.items() if is_identity(r, v['cells'])]
        if not ck.ground(tag + '.entry', 'on entry r0 = identity and r1 = copy of P (invariant r1 = r0 + P holds initially)', len(r0) == 1):
            failures.append(tag)
            return
        r0 = r0[0]
        r1 = [o for o in names if o != r0][0]
        Pt = names[r1]
        # bit k of the canonical value
        frm = [n for n in r.nodes if n['op'] == 'app' and n['n'] == 'sfrom']
        if not ck.ground(tag + '.from', 'bits come from one FromMontgomery application on the scalar limbs', len(frm) == 1):
            failures.append(tag)
            return
        low.emit([frm[0]['id']])
        goals = []
        for p in cuts:
            hv0 = cells_point(low, p['obs']['cut:havoc'][r0]['cells'])
            hv1 = cells_point(low, p['obs']['cut:havoc'][r1]['cells'])
            if rot:
                # last iteration of a rotated loop: the returned receiver is r0 after this step
                res = cells_point(low, p['obs']['P.x']['f'] + p['obs']['P.y']['f'] + p['obs']['P.z']['f'])
                low.emit(p['pc'])
                bi = k if ORI == 'down' else 255 - k
                bit = '(ite (= ((_ extract %d %d) n%d) #b1) 1 0)' % (bi, bi, frm[0]['id'])
                goals.append(('%s.arm%d' % (tag, p['id']), 'last step, from any state with r1 = r0 + P: the receiver is set to 2 r0 + bit_%d(value) P and returned' % bi,
                              asserts(p['pc']) + '\n(assert (= %s (+ %s %s)))\n(assert (not (= %s (+ (* 2 %s) (* %s %s)))))' % (hv1, hv0, Pt, res, hv0, bit, Pt)))
                ck.ground('%s.arm%d.same' % (tag, p['id']), 'Multiply returns its receiver', r.nodes[p['obs']['same']['n']].get('v') == '1')
                continue
            nx0 = cells_point(low, p['obs']['cut:next'][r0]['cells'])
            nx1 = cells_point(low, p['obs']['cut:next'][r1]['cells'])
            low.emit(p['pc'])
            bi = k if ORI == 'down' else 255 - k
            bit = '(ite (= ((_ extract %d %d) n%d) #b1) 1 0)' % (bi, bi, frm[0]['id'])
            goals.append(('%s.arm%d' % (tag, p['id']), 'from any state with r1 = r0 + P: r0\' = 2 r0 + bit_%d(value) and r1\' = r0\' + P' % bi,
                          asserts(p['pc']) + '\n(assert (= %s (+ %s %s)))\n(assert (not (and (= %s (+ (* 2 %s) (* %s %s))) (= %s (+ %s %s)))))' % (hv1, hv0, Pt, nx0, hv0, bit, Pt, nx1, nx0, Pt)))
            nxt = r.nodes[p['obs']['cut:next_phis'][CN]]
            if not ck.ground('%s.arm%d.counter' % (tag, p['id']), 'loop counter moves by one towards the exit', nxt['op'] == 'const' and signed64(int(nxt['v'])) == (k - 1 if ORI == 'down' else k + 1)):
                failures.append(tag)
        ans = ck.prove_batch(low.all(), goals, timeout=60)
        failures.extend(g[0] for g, a in zip(goals, ans) if a != 'unsat')
        if k in (255, 0, 128):
            for p in cuts:
                ck.prove('%s.arm%d.reach' % (tag, p['id']), 'arm reachable', low.all() + '\n' + asserts(p['pc']), expect='sat', timeout=30)
    with core.ThreadPoolExecutor(max_workers=5) as ex:
        list(ex.map(step, idxs))

    # ---- exit and shortcut ----
    r = R_['exit'] if not rotated[0] else R_['it%d' % LASTV]
    ex_paths = [p for p in r.paths if p['end'] == 'return' and 'cut:havoc' in p['obs']]
    sc_paths = [p for p in r.paths if p['end'] == 'return' and 'cut:havoc' not in p['obs']]
    if rotated[0]:
        okx = ck.ground('C01.exit.shape', 'the loop exits in the latch of the last iteration (its two arms return; checked with that iteration) and the only other path is the shortcut', len(ex_paths) == 2 and len(sc_paths) == 1 and len(r.paths) == 3)
    else:
        okx = ck.ground('C01.exit.shape', 'after the last iteration the loop exits (unwinding: counter -1 fails the loop test) and the function returns', len(ex_paths) == 1 and len(sc_paths) == 1 and len(r.paths) == 2)
    if not okx:
        failures.append('exit')
    else:
        if not rotated[0]:
            p = ex_paths[0]
            low = DLogLower(r)
            ent = p['obs']['cut:entry']
            names = {oid: cells_point(low, v['cells']) for oid, v in ent.items()}
            r0 = [o for o, v in ent.items() if is_identity(r, v['cells'])][0]
            hv0 = cells_point(low, p['obs']['cut:havoc'][r0]['cells'])
            res = cells_point(low, p['obs']['P.x']['f'] + p['obs']['P.y']['f'] + p['obs']['P.z']['f'])
            low.emit(p['pc'])
            ans = ck.prove_batch(low.all(), [('C01.exit.result', 'the receiver is set to r0 and returned', asserts(p['pc']) + '\n(assert (not (= %s %s)))' % (res, hv0))], timeout=30)
            failures.extend(['exit'] if ans[0] != 'unsat' else [])
            ck.ground('C01.exit.same', 'Multiply returns its receiver', r.nodes[p['obs']['same']['n']].get('v') == '1')
        # shortcut k = 1
        q = sc_paths[0]
        low2 = DLogLower(r)
        low2.emit(q['pc'] + q['obs']['S']['f'])
        sn, _ = ensure_vars(r, low2, ['s%d' % i for i in range(4)])
        unchanged = all(q['obs']['P.' + c]['f'] == q['obs']['P0.' + c]['f'] for c in 'xyz')
        ck.ground('C01.shortcut.unchanged', 'shortcut path returns P unchanged', unchanged)
        goal = asserts(q['pc']) + '\n(assert (not (= %s %s)))' % (concat_limbs(sn), bvconst256(R % N))
        ans = ck.prove_batch(low2.all(), [('C01.shortcut.iff', 'the shortcut is taken only for the scalar 1 (Montgomery form of 1)', goal)], timeout=30)
        failures.extend(['shortcut'] if ans[0] != 'unsat' or not unchanged else [])
        if ans[0] == 'sat':
            # a canonical scalar other than 1 that takes the shortcut: ask the solver for one and keep it for the replay
            m, _ = smt.get_model(low2.all() + '\n(assert (bvult %s %s))\n' % (concat_limbs(sn), bvconst256(N)) + goal, sn)
            if m:
                ck.extra.setdefault('_steer', []).append(unlimbs([m[x] for x in sn]) * pow(R, -1, N) % N)
    r = R_['nil']
    okn = len(r.paths) == 1 and r.paths[0]['end'] == 'return'
    if not ck.ground('C01.nil.shape', 'Multiply(nil): single returning path', okn):
        failures.append('nil')
    else:
        low = DLogLower(r)
        o = r.paths[0]['obs']
        t = cells_point(low, o['P.x']['f'] + o['P.y']['f'] + o['P.z']['f'])
        ans = ck.prove_batch(low.all(), [('C01.nil', 'Multiply(nil) sets the receiver to the identity', '(assert (not (= %s 0)))' % t)], timeout=30)
        failures.extend(['nil'] if ans[0] != 'unsat' else [])
    ck.notes.append('composition: pre_255 = bit_255, pre_{i-1} = 2 pre_i + bit_{i-1}; after i = 0, r0 = (sum_i bit_i 2^i) P = [value(s)]P with bit_i = bit i of FromMontgomery(S) (bit extraction checked per index inside each step)')
    if failures and not ck.violations:
        battery(ck, failures)
    if own:
        return ck.finish()
    return failures


def signed64(v):
    return v - (1 << 64) if v >> 63 else v


def battery(ck, failures):
    import random
    rng = random.Random(ck.seed + 21)
    Ri_ = pow(R, -1, N)
    ks = list(ck.extra.get('_steer', [])) + [sp * Ri_ % N for sp in (1, 2**64 - 1, 2**64, 2**128, 2**191, 2**63)] + [0, 1, 2, 3, N - 1, N - 2, 2**255, 2**255 + 1, 2**254, (1 << 256) % N, 2**128, 2**64 - 1, (N - 1) // 2] + [rng.randrange(N) for _ in range(6)]
    import re
    for f in failures:
        m = re.match(r'C01\.iter(\d+)', f)
        if m:   # steer: scalars whose bit at the failing iteration is set / cleared
            b = int(m.group(1))
            ks += [x % N for x in ((1 << b), (1 << b) | 1, (N - 1) & ~(1 << b), (N - 1) | (1 << b), ((1 << b) - 1), (1 << b) | (1 << (b // 2)))]
    cases = []
    for k in ks:
        for j, l in ((1, 1), (5, 7), (0, 3), (N - 1, 9)):
            cases.append({'kind': 'multiply', 'a': '%064x' % k, 'b': '%064x' % j, 'c': '%064x' % l})
    cases.append({'kind': 'multiply-nil'})
    path = ck.save_replay({'property': 'C01', 'cases': cases, 'failed': failures[:8]})
    ok, out = core.go_test(path)
    if not ok and 'MISMATCH' in out:
        ck.violation('ladder', 'scalar multiplication wrong (%s): %s' % (failures[0], [l.strip() for l in out.splitlines() if 'MISMATCH' in l][:1]), path)
    else:
        ck.inconclusive.append('failed obligations %s did not reproduce: %s' % (failures[:3], out[-200:]))


def replay(path):
    ok, out = core.go_test(path)
    print(out)
    return 0 if ok else 1
