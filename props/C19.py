"""C19 - scalar multiplication follows a scalar-independent schedule of field operations.

multiply is executed from /repo's SSA with every call into the two internal packages appended to a
trace (kernels are opaque summaries), the scalar symbolic, the ladder cut at its loop header.  For
each of the 256 iterations both arms of the bit test are feasible (solver) and produce IDENTICAL
trace segments; the only branches whose condition depends on the scalar are the documented k = 1
shortcut and the per-bit test; no loop bound, slice length or call target depends on the scalar."""
from vf import core, smt, kernels, instr
from vf.core import Check
from vf.dag import BVLower
from vf.params import *

HARNESS = ['root_intrinsics.go', 'root_scalar.go', 'root_element.go']
KS = kernel_summaries('scalar', 's') + kernel_summaries('field', 'f')
CUT = {'fn': '(*' + MOD + '.Element).multiply', 'loop': 0, 'mode': 'havoc'}
MULT = '(*secp256k1.Element).multiply'


def asserts(ids):
    return '\n'.join('(assert n%d)' % c for c in ids)


def run(tier, seed):
    ck = Check('C19', tier, seed, level='proof')
    idxs = list(range(255, -1, -1))
    from vf.dlog import ladder_orientation
    ORI, _first, EXITV, CN = ladder_orientation(HARNESS, KS)   # name and direction of the loop counter, read from the code
    ck.extra['ladder_loop'] = 'counter %s counts %s' % (CN, '255..0' if ORI == 'down' else '0..255')
    jobs = [{'id': 'it%d' % k, 'harness': 'vh_multiply', 'summaries': KS, 'traceall': True, 'cut': dict(CUT, phis={CN: k})} for k in idxs]
    jobs.append({'id': 'exit', 'harness': 'vh_multiply', 'summaries': KS, 'traceall': True, 'cut': dict(CUT, phis={CN: EXITV})})
    runs = ck.absorb(core.symx_parallel(HARNESS, jobs, chunks=14))
    ck.extra['_runs'] = runs
    R_ = {r.id: r for r in runs}
    ck.trusted = ['go/ssa + symx translation', 'SMT solvers', 'granularity is the property\'s: order and number of calls into internal/field and internal/scalar, not machine timing',
                  'the Fiat kernels themselves are straight-line (each is executed as one path in C12/C06)']
    ck.assumptions = ['point arbitrary; scalar limbs arbitrary']
    ck.bounds = {'iterations': 'all 256, both arms', 'scalars': 'all 2^256 bit patterns except the shortcut k = 1'}
    ck.outside = ['micro-architectural timing; memory access patterns inside a field operation']
    failures = []
    body_ref = [None]
    allowed_pos = set()
    fnset = set()

    LASTV = 0 if ORI == 'down' else 255     # counter value of the last iteration
    rotated = [False]

    def step(k):
        r = R_['it%d' % k]
        tag = 'C19.iter%d' % k
        cuts = [p for p in r.paths if p['end'] == 'cut']
        last_rotated = False
        if not cuts and k == LASTV:
            # a rotated loop (exit test in the latch): the arms of the last iteration run on through the suffix and return
            cuts = [p for p in r.paths if p['end'] == 'return' and 'cut:havoc' in p['obs']]
            last_rotated = True
            rotated[0] = True
        if not ck.ground(tag + '.shape', 'iteration %d: exactly two continuing arms (plus the k = 1 shortcut before the loop)' % k, len(cuts) == 2 and len(r.paths) == 3,
                         str([(p['end'], p.get('panic') or p.get('err')) for p in r.paths][:4])):
            failures.append(tag)
            return
        a, b = cuts
        same = a['trace'] == b['trace']
        if not ck.ground(tag + '.trace', 'both arms execute the same sequence of %d internal-package calls' % len(a['trace']), same,
                         '' if same else 'first difference at %d' % next((i for i, (x, y) in enumerate(zip(a['trace'], b['trace'])) if x != y), min(len(a['trace']), len(b['trace'])))):
            failures.append(tag + '.trace')
        # feasibility of both arms is the solver's verdict
        low = BVLower(r)
        low.emit(a['pc'] + b['pc'])
        ans = ck.prove_batch(low.all(), [(tag + '.arm0', 'bit = 0 arm feasible', asserts(a['pc'])), (tag + '.arm1', 'bit = 1 arm feasible', asserts(b['pc']))], timeout=30, expect='sat')
        if ans != ['sat', 'sat']:
            failures.append(tag + '.feasible')
        for p in cuts:
            for br in p['branches']:
                fnset.add(br['fn'])
                allowed_pos.add((br['fn'], br['at']))
        # body segment = trace after the common prefix (the prefix is the same run prefix in every iteration)
        return None if last_rotated else a['trace']
    with core.ThreadPoolExecutor(max_workers=5) as ex:
        traces = list(ex.map(step, idxs))
    traces = [t for t in traces if t is not None]
    if traces:
        ok = all(t == traces[0] for t in traces)
        if not ck.ground('C19.iterations-equal', 'all %d iterations that return to the loop header execute the same call sequence (prefix + one ladder step of %d calls)' % (len(traces), len(traces[0])), ok and len(traces) >= 255):
            failures.append('iterations')
        ck.extra['calls_per_run_prefix_plus_one_step'] = len(traces[0])
    # the shortcut test and the bit test, in multiply or in a helper of the group layer it calls; never inside internal/field or internal/scalar
    ok = all(not fn_.startswith(('field.', 'scalar.', '(*field.', '(*scalar.', '(field.', '(scalar.')) and 'internal/' not in fn_ for fn_ in fnset)
    if not ck.ground('C19.branches', 'the only scalar-dependent branches are the shortcut test and the bit test, in the group layer (none inside the field / scalar packages): %s' % sorted(allowed_pos), ok and len(allowed_pos) <= 2, str(sorted(allowed_pos))):
        failures.append('branches')
    r = R_['exit']
    ex_paths = [p for p in r.paths if p['end'] == 'return' and 'cut:havoc' in p['obs']]
    if rotated[0]:
        ck.ground('C19.exit', 'the loop exits in the latch of the last iteration on a concrete counter: both arms of that iteration run the same straight-line suffix (checked as part of that iteration)', True)
    elif not ck.ground('C19.exit', 'after 256 iterations the loop exits on a concrete counter (no scalar-dependent early exit) and the suffix is straight-line', len(ex_paths) == 1 and len(r.paths) == 2):
        failures.append('exit')
    ck.extra['loops_unrolled'] = r.loops
    # the schedule of a call must not depend on earlier calls either: Multiply keeps nothing in package-level state
    gw = [(r_.id, w['label'], w['at']) for r_ in runs for p in r_.paths for w in p.get('writes', []) if w.get('tag') == 'Global']
    if not ck.ground('C19.pkgstate', 'no path of Multiply (prefix, any iteration, suffix) writes package-level state', not gw, str(gw[:2])):
        failures.append('pkgstate')
    if failures and not ck.violations:
        d, ov, n = instr.instrument_field()
        try:
            ks = [0, 2, 3, N - 1, 2**255, 2**64, (1 << 200) + 5, 0x5555555555555555555555555555555555555555555555555555555555555555 % N, N - 2, 6]
            path = ck.save_replay({'property': 'C19', 'cases': [{'kind': 'schedule', 'a': ','.join('%064x' % k for k in ks)}], 'failed': failures[:8], 'instrumented_functions': n})
            ok, out = core.go_test(path, extra_overlay=ov)
        finally:
            instr.cleanup(d)
        if not ok and 'MISMATCH' in out:
            ck.violation('schedule', 'field-operation schedule depends on the scalar (%s): %s' % (failures[0], [l.strip() for l in out.splitlines() if 'MISMATCH' in l][:1]), path)
        else:
            ck.inconclusive.append('failed obligations %s did not reproduce: %s' % (failures[:3], out[-300:]))
    return ck.finish()


def replay(path):
    d, ov, n = instr.instrument_field()
    try:
        ok, out = core.go_test(path, extra_overlay=ov)
    finally:
        instr.cleanup(d)
    print(out)
    return 0 if ok else 1
