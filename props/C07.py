"""C07 - scalar encodings are canonical 32-byte big-endian; decoding rejects everything else.

Encoded in QF_UFBV from /repo's SSA: Scalar.Encode/Decode/Hex/DecodeHex/MarshalBinary/
UnmarshalBinary, scalar.ReduceBytes, Reduce, BytesToNonMontgomery, NonMontgomeryToBytes and
encoding/binary.BigEndian.* executed for real on symbolic bytes; To/FromMontgomery as UFs with
their contracts (re-proved on the real kernels)."""
import re
from vf import core, smt, kernels
from vf.core import Check
from vf.dag import BVLower, ensure_vars, varid
from vf.uf import MontUF, concat_limbs, concat_bytes_be
from vf.params import *

HARNESS = ['root_intrinsics.go', 'root_scalar.go']
SUMM = kernel_summaries('scalar', 's')
ERR = {'nil': 'err:nil or empty scalar', 'len': 'err:invalid scalar length', 'big': 'err:scalar too big'}


def asserts(ids):
    return '\n'.join('(assert n%d)' % c for c in ids)


def errlabel(o):
    return None if o.get('nil') else o.get('label', o.get('type'))


def decode_obligations(ck, r, tag, nbytes, bytevars, replay_len=None):
    """obligations for one run of a decoder on `nbytes` symbolic bytes (names in bytevars)"""
    rets = [p for p in r.paths if p['end'] == 'return']
    ck.ground(tag + '.nopanic', 'no path panics; every path returns', len(rets) == len(r.paths), str([(p['end'], p.get('panic')) for p in r.paths if p['end'] != 'return'][:2]))
    for p in rets:
        ck.ground(tag + '.frame.%d' % p['id'], 'input slice is not written', not p['writes'], str(p['writes'][:1]))
    if nbytes != 32:
        want = ERR['nil'] if nbytes == 0 else ERR['len']
        ok = len(rets) == 1 and errlabel(rets[0]['obs']['err']) == want and rets[0]['obs']['S']['f'] == rets[0]['obs']['S0']['f']
        ck.ground(tag + '.reject', 'length %d: rejected with %s, receiver untouched, independent of contents' % (nbytes, want), ok)
        return
    acc = [p for p in rets if p['obs']['err'].get('nil')]
    rej = [p for p in rets if not p['obs']['err'].get('nil')]
    ck.ground(tag + '.shape', 'length 32: accepting and rejecting paths exist', len(acc) >= 1 and len(rej) >= 1)
    if not acc or not rej:
        cex_values(ck, 'decode:shape', 'Decode of 32 bytes has no %s path' % ('accepting' if not acc else 'rejecting'), STEER + [0, N, N + 1, 2**256 - 1])
        return
    ck.ground(tag + '.rejerr', 'rejection error is errParamScalarTooBig', all(errlabel(p['obs']['err']) == ERR['big'] for p in rej))
    low = BVLower(r)
    roots = [c_ for p in rets for c_ in p['pc']] + [x for p in acc for x in p['obs']['S']['f']]
    low.emit(roots)
    mu = MontUF(low, 's')
    bn, _ = ensure_vars(r, low, bytevars, 8)
    inval = concat_bytes_be(bn)
    pre = low.all() + '\n(define-fun inval () (_ BitVec 256) %s)' % inval
    nn = bvconst256(N)
    goals = []
    for p in acc:
        goals.append(('%s.accept-iff.%d' % (tag, p['id']), 'accepting path taken only if OS2IP(in) < n', asserts(p['pc']) + '\n(assert (not (bvult inval %s)))' % nn))
        S = p['obs']['S']['f']
        for i in range(4):
            goals.append(('%s.value%d.%d' % (tag, i, p['id']), 'accepted: receiver limb %d = limb %d of ToMontgomery(OS2IP(in))' % (i, i),
                          asserts(p['pc']) + '\n(assert (not (= n%d ((_ extract %d %d) (%s inval)))))' % (S[i], 64 * i + 63, 64 * i, mu.to)))
    for p in rej:
        goals.append(('%s.reject-iff.%d' % (tag, p['id']), 'rejecting path taken only if OS2IP(in) >= n', asserts(p['pc']) + '\n(assert (bvult inval %s))' % nn))
    # contracts needed when the code distinguishes cases on the reduced value (To(0) = 0 etc.)
    pre += '\n' + mu.ground()
    ans = ck.prove_batch(pre, goals, timeout=60)
    ck.prove(tag + '.reach-accept', 'accepting path reachable', pre + '\n' + asserts(acc[0]['pc']), expect='sat', timeout=30)
    ck.prove(tag + '.reach-reject', 'rejecting path reachable', pre + '\n' + asserts(rej[0]['pc']), expect='sat', timeout=30)
    for (oid, desc, g), a in zip(goals, ans):
        if a == 'sat':
            m, _ = smt.get_model(pre + '\n' + g, bn)
            cases = []
            for pre_v in (5, N - 3):
                if m:
                    cases.append({'kind': 'scalar-decode', 'a': ''.join('%02x' % m[b] for b in bn), 'b': '%064x' % pre_v})
                for v in [N - 1, N, N + 1, 2**256 - 1, 0, 1]:
                    cases.append({'kind': 'scalar-decode', 'a': '%064x' % v, 'b': '%064x' % pre_v})
            path = ck.save_replay({'property': 'C07', 'cases': cases, 'obligation': oid})
            ok, out = core.go_test(path)
            if not ok and 'MISMATCH' in out:
                ck.violation('decode:' + oid.split('.')[2], '%s fails: %s' % (desc, [l.strip() for l in out.splitlines() if 'MISMATCH' in l][:1]), path)
            else:
                ck.inconclusive.append('%s: counterexample did not reproduce' % oid)
            break


def cex_values(ck, key, desc, values):
    """replays Decode/Encode on canonical values after a failed Encode-side obligation"""
    cases = [{'kind': 'scalar-decode', 'a': '%064x' % (v % N), 'b': '%064x' % 7} for v in values]
    path = ck.save_replay({'property': 'C07', 'cases': cases, 'obligation': key})
    ok, out = core.go_test(path)
    if not ok and 'MISMATCH' in out:
        ck.violation(key, '%s fails: %s' % (desc, [l.strip() for l in out.splitlines() if 'MISMATCH' in l][:1]), path)
    else:
        ck.inconclusive.append('%s: counterexample did not reproduce' % key)


STEER = [1, 2**64, 2**128 + 5, 2**192 + 2**64 * 3 + 9, N - 1, 0x0102030405060708090a0b0c0d0e0f101112131415161718191a1b1c1d1e1f20]


def run(tier, seed, ck=None):
    own = ck is None
    ck = ck or Check('C07', tier, seed, level='model_checking')
    lens = [0, 1, 31, 32, 33, 64, 256, 288] if tier == 'quick' else list(range(0, 67)) + [255, 256, 257, 287, 288, 289, 544, 65568]   # 32 + k*256, 32 + 65536: lengths that alias 32 under a narrowing conversion
    hexlens = [0, 1, 2, 63, 64, 65, 66, 576] if tier == 'quick' else list(range(0, 70)) + [128, 129, 512, 576, 577, 131136]
    jobs = []
    for l in lens:
        for via in (0, 1):
            jobs.append({'id': 'dec%d_%d' % (l, via), 'harness': 'vh_scalar_decode', 'args': [l, via], 'summaries': SUMM})
    jobs.append({'id': 'decnil', 'harness': 'vh_scalar_decode_nil', 'summaries': SUMM})
    for via in (0, 1):
        jobs.append({'id': 'enc%d' % via, 'harness': 'vh_scalar_encode', 'args': [via], 'summaries': SUMM})
    jobs += [{'id': 'rt', 'harness': 'vh_scalar_roundtrip', 'summaries': SUMM}, {'id': 'rt2', 'harness': 'vh_scalar_roundtrip2', 'summaries': SUMM},
             {'id': 'hexrt', 'harness': 'vh_scalar_hex_roundtrip', 'summaries': SUMM}]
    for l in hexlens:
        jobs.append({'id': 'dechex%d' % l, 'harness': 'vh_scalar_decodehex', 'args': [l], 'summaries': SUMM})
    runs = ck.absorb(core.symx_parallel(HARNESS, jobs))
    ck.extra.setdefault('_runs', []).extend(runs)
    R_ = {r.id: r for r in runs}
    ck.trusted += ['go/ssa + symx translation', 'SMT solvers (raced, cross-checked)',
                  'encoding/hex contract: DecodeString(EncodeToString(b)) = b; an arbitrary string either fails to decode or decodes to len/2 arbitrary bytes']
    ck.assumptions += ['receiver limbs arbitrary; for Encode-side statements canonical (< n), the representation invariant (C10)',
                      'To/FromMontgomery uninterpreted with contracts proved below on the real kernels']
    ck.bounds = {'decoder input lengths': lens, 'hex string lengths': hexlens, 'contents': 'all byte values',
                 'other lengths': 'take the same default branch: the executor follows no content-dependent branch before the length switch'}
    ck.outside += ['input lengths not listed in bounds (same `default:` path by inspection of the length switch)',
                  'receiver value after a rejected 32-byte input (C07 does not promise it; the code leaves value-n there)']
    kernels.prove(ck, 'scalar', ['FromMontgomery', 'ToMontgomery'], tier)

    for l in lens:
        for via in (0, 1):
            decode_obligations(ck, R_['dec%d_%d' % (l, via)], 'C07.%s%d' % ('decode' if via == 0 else 'unmarshal', l), l, ['in_%d' % i for i in range(l)])
    r = R_['decnil']
    ck.ground('C07.decode.nil', 'Decode(nil) = errParamNilScalar', len(r.paths) == 1 and errlabel(r.paths[0]['obs']['err']) == ERR['nil'])

    # ---- Encode ----
    for via in (0, 1):
        r = R_['enc%d' % via]
        tag = 'C07.%s' % ('encode' if via == 0 else 'marshal')
        p = r.paths[0]
        o = p['obs']
        ck.ground(tag + '.shape', 'single path; 32 bytes; fresh buffer; nil error; receiver unchanged',
                  len(r.paths) == 1 and p['end'] == 'return' and o['out']['len'] == 32 and o['out']['fresh'] and o['err'].get('nil') and o['S']['f'] == o['S0']['f'])
        low = BVLower(r)
        low.emit(o['out']['elems'] + o['S']['f'])
        mu = MontUF(low, 's')
        sn, _ = ensure_vars(r, low, ['s%d' % i for i in range(4)])
        pre = low.all() + '\n(define-fun val () (_ BitVec 256) (%s %s))' % (mu.frm, concat_limbs(sn))
        goals = [(tag + '.byte%d' % j, 'Encode()[%d] = byte %d of I2OSP(FromMontgomery(S), 32)' % (j, j),
                  '(assert (not (= n%d ((_ extract %d %d) val))))' % (o['out']['elems'][j], 255 - 8 * j, 248 - 8 * j)) for j in range(min(32, len(o['out']['elems'])))]
        ans = ck.prove_batch(pre, goals, timeout=60)
        if 'sat' in ans:
            m, _ = smt.get_model(pre + '\n' + goals[ans.index('sat')][2], sn)
            vals = list(STEER)
            if m:
                vals.insert(0, unlimbs([m[x] for x in sn]) * pow(R, -1, N) % N)
            cex_values(ck, 'encode', 'Encode = 32-byte big-endian of the canonical value', vals)

    # ---- round trips ----
    def roundtrip(r, tag, what):
        acc = [p for p in r.paths if p['end'] == 'return' and p['obs']['err'].get('nil')]
        oth = [p for p in r.paths if p not in acc]
        ck.ground(tag + '.shape', 'one accepting path', len(acc) == 1)
        low = BVLower(r)
        roots = [c for p in r.paths for c in p['pc']] + acc[0]['obs']['S']['f'] + acc[0]['obs']['T']['f']
        low.emit(roots)
        mu = MontUF(low, 's')
        sn, _ = ensure_vars(r, low, ['s%d' % i for i in range(4)])
        Sx = concat_limbs(sn)
        pre = '\n'.join([low.all(), mu.axioms_for(r, roots, [Sx]), '(assert (bvult %s %s))' % (Sx, mu.M())])
        goals = [(tag + '.noerr%d' % p['id'], '%s never fails for a canonical scalar (path %s infeasible)' % (what, p['end']), asserts(p['pc'])) for p in oth]
        goals.append((tag + '.same', '%s gives back the same scalar' % what, asserts(acc[0]['pc']) + '\n(assert (not (and %s)))' % ' '.join(
            '(= n%d n%d)' % (a, b) for a, b in zip(acc[0]['obs']['S']['f'], acc[0]['obs']['T']['f']))))
        ans = ck.prove_batch(pre, goals, timeout=60)
        if 'sat' in ans:
            cex_values(ck, 'roundtrip', what + ' round trip', STEER)
        ck.prove(tag + '.reach', 'round trip reachable', pre + '\n' + asserts(acc[0]['pc']), expect='sat', timeout=30)
    roundtrip(R_['rt'], 'C07.roundtrip', 'Decode(Encode(s))')
    roundtrip(R_['hexrt'], 'C07.hexroundtrip', 'DecodeHex(Hex(s))')
    r = R_['rt2']
    acc = [p for p in r.paths if p['end'] == 'return' and p['obs']['err'].get('nil')]
    ck.ground('C07.roundtrip2.shape', 'one accepting path', len(acc) == 1)
    if acc:
        p = acc[0]
        low = BVLower(r)
        roots = p['pc'] + p['obs']['out']['elems']
        low.emit(roots)
        mu = MontUF(low, 's')
        bn, _ = ensure_vars(r, low, ['in_%d' % i for i in range(32)], 8)
        pre = '\n'.join([low.all(), mu.axioms_for(r, roots, []), asserts(p['pc'])])
        goals = [('C07.roundtrip2.byte%d' % j, 'Encode(Decode(b))[%d] = b[%d] for every accepted b' % (j, j),
                  '(assert (not (= n%d %s)))' % (p['obs']['out']['elems'][j], bn[j])) for j in range(32)]
        ans = ck.prove_batch(pre, goals, timeout=60)
        if 'sat' in ans:
            cex_values(ck, 'roundtrip2', 'Encode(Decode(b)) = b', STEER)

    # ---- DecodeHex on arbitrary strings ----
    for l in hexlens:
        r = R_['dechex%d' % l]
        tag = 'C07.decodehex%d' % l
        bad = [p for p in r.paths if p['end'] == 'return' and (p['obs']['err'].get('label') or '').startswith('fmt.Errorf')]
        rest = [p for p in r.paths if p not in bad]
        ck.ground(tag + '.invalid', 'undecodable hex string: error returned, receiver untouched',
                  len(bad) >= 1 and all(p['obs']['S']['f'] == p['obs']['S0']['f'] for p in bad))
        if l % 2 == 1:
            ck.ground(tag + '.odd', 'odd-length string is never accepted', all(not p['obs']['err'].get('nil') for p in r.paths if p['end'] == 'return') and all(p['end'] == 'return' for p in r.paths))
            continue
        hb = sorted([n['n'] for n in r.nodes if n['op'] == 'var' and n['n'].startswith('hexbyte!')], key=lambda s: int(s.split('!')[1]))
        sub = type(r)(dict(r.d, paths=rest))
        decode_obligations(ck, sub, tag, l // 2, hb)
    if any(not o['ok'] for o in ck.obls if o['id'].startswith('C07.')) and not ck.violations:
        # a failed obligation without a model-driven witness (wrong-length inputs, views): the property's boundary battery
        from props import fallback
        path = ck.save_replay({'property': 'C07', 'cases': fallback.cases_for('C07', seed), 'failed': [o['id'] for o in ck.obls if not o['ok']][:8]})
        ok, out = core.go_test(path)
        if not ok and 'MISMATCH' in out:
            ck.violation('battery', 'scalar encodings/decoders deviate from the canonical 32-byte big-endian form: %s' % [l.strip() for l in out.splitlines() if 'MISMATCH' in l][:1], path)
            ck.inconclusive[:] = []
    if own:
        # the verdicts above are about single calls from the initial package state: histories (observe, scribble on returned slices, mutate, observe) must not change them
        from props import hidden
        hidden.embed(ck, tier, ('scalar',), 'C07', 'a scalar encoding', observers=['enc'])
    return ck.finish() if own else None


def replay(path):
    ok, out = core.go_test(path)
    print(out)
    return 0 if ok else 1
