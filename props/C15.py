"""C15 - API calls never write to caller-owned memory and return fresh buffers.

Every exported function that takes or returns a byte slice or pointer is executed from /repo's SSA
with concrete addresses and symbolic contents: slice arguments in three layouts (len = cap, spare
capacity, window of a larger buffer).  Argument objects are frozen: the executor records every
Store / copy / in-place append that lands in one (anywhere in the backing array).  The solver decides
which paths are feasible; on every feasible path the write set must be empty and every returned
slice / pointer must be backed by an object allocated during the call."""
from vf import core, smt, kernels
from vf.core import Check
from vf.dag import BVLower
from vf.params import *

HARNESS = ['root_intrinsics.go', 'root_scalar.go', 'root_element.go', 'root_mem.go']
KS = kernel_summaries('scalar', 's') + kernel_summaries('field', 'f')
CUTM = {'fn': '(*' + MOD + '.Element).multiply', 'loop': 0, 'mode': 'havoc'}
CUTR = {'fn': '(*' + MOD + '.Scalar).Random', 'loop': 0, 'mode': 'havoc'}
API = {0: ('Scalar.Decode', [0, 1, 32, 33]), 1: ('Scalar.UnmarshalBinary', [0, 32, 33]), 2: ('Scalar.Encode', [0]), 3: ('Scalar.MarshalBinary', [0]),
       4: ('Scalar.Add', [0]), 5: ('Scalar.Subtract', [0]), 6: ('Scalar.Multiply', [0]), 7: ('Scalar.Set', [0]), 8: ('Scalar.Pow', [0]), 9: ('Scalar.Equal', [0]),
       10: ('Scalar.LessOrEqual', [0]), 11: ('Scalar.CSelect', [0]), 12: ('Scalar.Copy', [0]),
       13: ('Element.Decode', [0, 1, 33, 65, 66]), 14: ('Element.DecodeCompressed', [1, 33, 65]), 15: ('Element.DecodeUncompressed', [1, 33, 65]),
       16: ('Element.UnmarshalBinary', [1, 33, 65]), 17: ('Element.Encode', [0]), 18: ('Element.EncodeUncompressed', [0]), 19: ('Element.XCoordinate', [0]),
       20: ('Element.MarshalBinary', [0]), 21: ('Element.Add', [0]), 22: ('Element.Subtract', [0]), 23: ('Element.Equal', [0]), 24: ('Element.Set', [0]),
       25: ('Element.Copy', [0]), 26: ('Element.Multiply', [0]), 27: ('Order', [0]), 28: ('Base', [0]), 29: ('NewElement', [0]), 30: ('NewScalar', [0]),
       31: ('Scalar.Bits', [0]), 32: ('Element.Negate/Double/Identity/Base/IsIdentity', [0]), 33: ('Scalar.Random', [0]),
       34: ('Scalar.Square/Invert/Zero/One/MinusOne/SetUInt64/IsZero/IsOne', [0])}
SLICE_APIS = {0, 1, 13, 14, 15, 16}
_LADDER = None
HASHFN = {0: 'HashToGroup', 1: 'EncodeToGroup', 2: 'HashToScalar'}


def jobs_for(tier):
    global _LADDER
    if _LADDER is None:
        from vf.dlog import ladder_orientation
        _LADDER = ladder_orientation(['root_intrinsics.go', 'root_scalar.go', 'root_element.go'], KS)   # (direction, first, exit value, name) of the ladder's counter
    jobs, meta = [], {}
    layouts = [0, 1, 2]
    for a, (nm, lens) in API.items():
        for n in lens:
            for lay in (layouts if a in SLICE_APIS else [0]):
                cfgs = [{}]
                if a == 26:
                    cfgs = [{'cut': dict(CUTM, phis={_LADDER[3]: 255})}, {'cut': dict(CUTM, phis={_LADDER[3]: 0})}, {'cut': dict(CUTM, phis={_LADDER[3]: _LADDER[2]})}]
                if a == 33:
                    cfgs = [{'cut': CUTR}]
                for ci, cf in enumerate(cfgs):
                    jid = 'api%d_%d_%d_%d' % (a, n, lay, ci)
                    jobs.append(dict({'id': jid, 'harness': 'vh_mem', 'args': [a, n, lay], 'summaries': KS, 'concretize': {'slice': [1, 33, 65]}}, **cf))
                    meta[jid] = ('%s(len=%d, layout=%d)' % (nm, n, lay) if a in SLICE_APIS else nm)
    ds = [1, 16, 255, 256, 300] if tier == 'quick' else [1, 2, 15, 16, 17, 128, 254, 255, 256, 257, 300, 513]
    ms = [0, 1, 64] if tier == 'quick' else [0, 1, 31, 32, 33, 64, 65, 200]
    for fn in HASHFN:
        for d in ds:
            for m in ms:
                for lay in layouts:
                    jid = 'hash%d_%d_%d_%d' % (fn, m, d, lay)
                    jobs.append({'id': jid, 'harness': 'vh_mem_hash', 'args': [fn, m, d, lay], 'summaries': KS})
                    meta[jid] = '%s(|msg|=%d, |dst|=%d, layout=%d)' % (HASHFN[fn], m, d, lay)
    for api, nm in ((0, 'Scalar.DecodeHex'), (1, 'Element.DecodeHex')):
        for n in (0, 2, 64, 66, 130):
            jid = 'hex%d_%d' % (api, n)
            jobs.append({'id': jid, 'harness': 'vh_mem_hex', 'args': [api, n], 'summaries': KS})
            meta[jid] = '%s(len=%d)' % (nm, n)
    for api, nm in ((2, 'Scalar.Hex'), (3, 'Element.Hex')):
        jid = 'hex%d' % api
        jobs.append({'id': jid, 'harness': 'vh_mem_hex', 'args': [api, 0], 'summaries': KS, 'concretize': {'slice': [1, 33, 65]}})
        meta[jid] = nm
    jobs.append({'id': 'coords', 'harness': 'vh_mem_coords', 'summaries': KS})
    meta['coords'] = 'Element.DecodeCoordinates'
    return jobs, meta, ds, ms


def analyse(ck, r, what, findings, table):
    """returns nothing; appends (what, write record, run id) to findings for feasible writes / non-fresh results"""
    npaths = nfeas = 0
    for p in r.paths:
        npaths += 1
        suspicious = list(p['writes'])
        stale = []
        for k, v in p['obs'].items():
            if k.startswith('ret') and isinstance(v, dict) and v.get('k') in ('slice', 'ptr') and not v.get('nil'):
                if v.get('len', 1) == 0 and v.get('k') == 'slice':
                    continue  # empty slice carries no memory
                if not v.get('fresh') or v.get('tag') != 'Fresh':
                    stale.append((k, v.get('label'), v.get('tag')))
        tag = 'C15.%s.path%d' % (r.id, p['id'])
        if not suspicious and not stale:
            ck.record(tag, '%s: no store into a caller-owned object; results fresh' % what, 'unsat', 'symx', 0.0, 'unsat', kind='ground')
            continue
        # feasibility of the offending path is the solver's call
        low = BVLower(r)
        try:
            low.emit(p['pc'])
            res = smt.check(low.all() + '\n' + '\n'.join('(assert n%d)' % c for c in p['pc']), timeout=60)
            status = res.status
        except ValueError:
            status = 'sat'
        if status == 'unsat':
            ck.record(tag, '%s: offending path is infeasible' % what, 'unsat', res.solver, res.secs, 'unsat')
            continue
        nfeas += 1
        desc = '; '.join(['store into %s[%d] (%s) at %s' % (w['label'], w['off'], w['tag'], w['at']) for w in suspicious[:2]] + ['result %s not fresh (%s, %s)' % s for s in stale[:2]])
        ck.record(tag, '%s: %s on a feasible path' % (what, desc), 'sat' if status == 'sat' else status, 'symx+' + str(getattr(res, 'solver', None)), 0.0, 'unsat')
        findings.append((what, desc, suspicious[:1], r.id))
        # inputs on which some recorded store really changes a caller-owned word (the solver's model drives the replay)
        net = {}
        for w in suspicious:   # net effect per word: content before the first store vs. content after the last one
            if w.get('val', -1) >= 0 and w.get('old', -1) >= 0:
                k_ = (w['obj'], w['off'])
                net[k_] = {'old': net[k_]['old'] if k_ in net else w['old'], 'val': w['val']}
        eff = [w for w in net.values() if w['val'] != w['old']]
        if eff and r.id.startswith('api'):
            try:
                low2 = BVLower(r)
                pre2 = low2.emit(p['pc'] + [w['val'] for w in eff] + [w['old'] for w in eff])
                q2 = pre2 + '\n' + '\n'.join('(assert n%d)' % c for c in p['pc']) + '\n(assert (or %s))' % ' '.join('(not (= n%d n%d))' % (w['val'], w['old']) for w in eff[:64])
                names = {r.nodes[i]['n']: low2.name(i) for i in low2.done if r.nodes[i]['op'] == 'var'}
                mm, slv = smt.get_model(q2, list(names.values()), timeout=30)
                ck.record(tag + '.effective', '%s: some store changes the content of a caller-owned word (model for the replay)' % what, 'sat' if mm else 'unknown', slv, 0.0, 'sat' if mm else 'unknown')
                if mm:
                    ck.extra.setdefault('_mem_cases', []).append(mem_case(r, what, {nm: mm.get(sym, 0) for nm, sym in names.items()}))
            except ValueError:
                pass
    # which of the explored paths are feasible at all is the solver's verdict (also the non-vacuity witness of this run)
    sym = [p for p in r.paths if p['pc']]
    feas = None
    if sym:
        low = BVLower(r)
        try:
            low.emit([c for p in sym for c in p['pc']])
            goals = [('C15.%s.feasible%d' % (r.id, p['id']), '%s: path %d (%s) feasibility' % (what, p['id'], p['end']), '\n'.join('(assert n%d)' % c for c in p['pc'])) for p in sym]
            parts = [low.all()] + ['(push 1)\n%s\n(check-sat)\n(pop 1)' % g[2] for g in goals]
            ans, solver, secs, per = smt.race('\n'.join(parts), len(goals), 30)
            feas = sum(1 for a in ans if a == 'sat')
            for g, a in zip(goals, ans):
                if a == 'unknown':
                    a2 = 'sat'   # treated as feasible (conservative: its write set was already required to be empty)
                    ck.record(g[0], g[1] + ': undecided, treated as feasible', a2, solver, 0.0, a2)
                else:
                    ck.record(g[0], g[1] + ': ' + ('feasible' if a == 'sat' else 'infeasible'), a, solver, secs / len(goals), a, sample=g[2])
        except ValueError as e:
            ck.notes.append('%s: path conditions not lowered (%s); all paths treated as feasible' % (what, e))
    table.append({'call': what, 'paths': npaths, 'symbolic_paths': len(sym), 'feasible_symbolic_paths': feas, 'offending_feasible_paths': nfeas})


def mem_case(r, what, vals):
    """replay case for one API call from a model (variable name -> value)"""
    a, n, lay = (int(x) for x in r.id[3:].split('_')[:3])
    X = {}
    for pf in ('s', 't', 'u', 'px', 'py', 'pz', 'qx', 'qy', 'qz'):
        if any((pf + str(i)) in vals for i in range(4)):
            X[pf] = '%064x' % unlimbs([vals.get(pf + str(i), 0) for i in range(4)])
    blen = n + {0: 0, 1: 8, 2: 11}[lay]
    X['backing'] = ''.join('%02x' % (vals.get('in_%d' % i, 0) & 0xff) for i in range(blen))
    if 'c' in vals:
        X['c'] = '%x' % vals['c']
    return {'kind': 'mem-call', 'op': what, 'n': a, 'u': lay, 'x': X}


def run(tier, seed):
    ck, findings = analyse_all(tier, seed, 'C15', 'model_checking')
    report(ck, findings, 'C15')
    return ck.finish()


def analyse_all(tier, seed, pid, level):
    ck = Check(pid, tier, seed, level=level)
    jobs, meta, ds, ms = jobs_for(tier)
    runs = ck.absorb(core.symx_parallel(HARNESS, jobs, chunks=14))
    ck.extra['_runs'] = runs
    ck.trusted = ['go/ssa + symx translation, in particular the memory model: append writes in place iff capacity suffices, growth allocates exactly the needed length, copy/Store/ConstantTimeCopy executed from real SSA',
                  'SMT solvers (path feasibility)', 'hash.Hash stub: Write reads its argument, Sum(nil) returns a fresh slice; io.ReadFull writes only its buffer',
                  'Element and Scalar hold no reference-typed field (checked from go/types), so a fresh object cannot share storage with its source']
    ck.assumptions = ['contents of every buffer arbitrary']
    ck.bounds = {'layouts': 'len=cap / spare capacity 8 / window [3:3+n:3+n+2] of a larger buffer', 'slice lengths': {v[0]: v[1] for k, v in API.items() if k in SLICE_APIS},
                 'hash msg lengths': ms, 'hash DST lengths': ds, 'Multiply': 'prefix + one ladder iteration from an arbitrary state (i = 255, 0) + suffix (write sets are iteration independent)'}
    ck.outside = ['other layouts and lengths', 'memory behaviour inside SHA-256 / crypto/rand behind the stubs']
    findings, table = [], []
    byid = {r.id: r for r in runs}
    with core.ThreadPoolExecutor(max_workers=5) as ex:
        list(ex.map(lambda j: analyse(ck, byid[j['id']], meta[j['id']], findings, table), jobs))
    ck.extra['call_table'] = table[:400]
    ck.extra['calls_checked'] = len(table)
    # type-level fact: no reference-typed fields
    import subprocess
    src = open(core.REPO + '/element.go').read() + open(core.REPO + '/scalar.go').read()
    ck.notes.append('struct layouts read from the SSA types: Element{x,y,z field.Element{E [4]uint64}}, Scalar{S [4]uint64} (12 resp. 4 scalar slots, no pointers) - objects created by symx from go/types')
    return ck, findings


def report(ck, findings, pid):
    if findings:
        path = ck.save_replay({'property': pid, 'cases': ck.extra.get('_mem_cases', [])[:24] + [{'kind': 'prelude-then-sanity', 'op': 'all'}, {'kind': 'mem'}], 'symbolic_findings': [{'call': f[0], 'what': f[1]} for f in findings[:10]]})
        ok, out = core.go_test(path)
        if not ok and 'MISMATCH' in out:
            key = 'write:' + (findings[0][2][0]['at'] if findings[0][2] else findings[0][0])
            ck.violation(key, '%s: %s | replay: %s' % (findings[0][0], findings[0][1], [l.strip() for l in out.splitlines() if 'MISMATCH' in l][:1]), path)
        else:
            ck.inconclusive.append('symbolic write/freshness finding did not reproduce: %s' % (findings[0],))



def replay(path):
    ok, out = core.go_test(path)
    print(out)
    return 0 if ok else 1
