"""C12 - the base-field layer computes exact, canonical arithmetic in F_p.

Layer 1: every Fiat kernel of internal/field against its Montgomery contract (linear-integer
encoding + solver-checked modular certificate; bitwise kernels in QF_BV).  Layer 2: the
field.Element methods executed from /repo's SSA in QF_UFBV with kernels as uninterpreted
functions, in every receiver/argument aliasing.  Layer 3: inversion / (p-3)/4 chains in the
exponent domain; sqrt_ratio against RFC 9380 F.2.1.2 as a polynomial identity; the 48-byte
wide reduction as a structural identity plus ground constants."""
from vf import core, smt, kernels
from vf.core import Check
from vf.dag import BVLower, ensure_vars, varid
from vf.uf import MontUF, concat_limbs, concat_bytes_be, BV256
from vf.poly import PolyLower, FIELD_SUMM
from vf.params import *
from props.C06 import exponent_script, limbs_eq, const_limbs, asserts

HARNESS = ['field_intrinsics.go', 'field_wrappers.go']


def cex(ck, r, low, pre, goal, op, an, bn=None):
    """solver model of a failed wrapper obligation -> replay case on explicit Montgomery limbs (canonical operands)"""
    from vf.dag import ensure_vars
    names, _ = ensure_vars(r, low, [an + str(i) for i in range(4)] + ([bn + str(i) for i in range(4)] if bn else []))
    A = concat_limbs(names[:4])
    extra = '\n(assert (bvult %s %s))' % (A, bvconst256(P))
    if bn:
        extra += '\n(assert (bvult %s %s))' % (concat_limbs(names[4:]), bvconst256(P))
    m, _ = smt.get_model(low.all() + '\n' + pre + extra + '\n' + goal, names, timeout=30)
    if m:
        case = {'kind': 'field-limbs', 'op': op, 'a': '%064x' % unlimbs([m[x] for x in names[:4]]), 'b': '%064x' % (unlimbs([m[x] for x in names[4:]]) if bn else 0)}
        ck.extra.setdefault('_cex', []).append(case)

KS = kernel_summaries('field', 'f')
C2 = None


_embedded = {}


METHOD_KERNELS = {'Add': ['Add'], 'Subtract': ['Sub'], 'Multiply': ['Mul'], 'Negate': ['Opp', 'Sub'], 'Square': ['Square', 'Mul'], 'Set': [], 'Sgn0': ['FromMontgomery'],
                  'IsZero': ['Nonzero'], 'Equals': ['Nonzero'], 'Bytes': ['FromMontgomery'], 'One': ['SetOne'], 'IsEqual': ['Nonzero'], 'CMove': ['Selectznz'],
                  'Reduce': [], 'FromBytesWithReduce': ['ToMontgomery'], 'FromBytesNoReduce': ['ToMontgomery'], 'HashToFieldElement': ['ToMontgomery', 'Mul', 'Add'],
                  'Invert': ['Mul', 'Square'], 'expPMin3Div4': ['Mul', 'Square'], 'SqrtRatio': ['Mul', 'Square', 'Selectznz', 'Nonzero']}
ALL_METHODS = sorted(METHOD_KERNELS)


def run(tier, seed, ck=None, which=None):
    """with ck given, the contracts of the field.Element methods listed in `which` (those the embedding check replaces by
    summaries) are re-proved on the current tree inside that check (once per process and method)"""
    own = ck is None
    if not own:
        done = _embedded.setdefault(id(ck), set())
        which = [m for m in (which or ALL_METHODS) if m not in done]
        done.update(which)
        if not which:
            return
    wanted = set(which or ALL_METHODS)
    if 'SqrtRatio' in wanted:
        wanted |= {'expPMin3Div4'}
    if 'FromBytesWithReduce' in wanted:
        wanted |= {'Reduce'}

    def want(name):
        return name in wanted
    ck = ck or Check('C12', tier, seed, level='proof')
    jobs = []
    for op in range(3):
        for al in range(5):
            jobs.append({'id': 'op2_%d_%d' % (op, al), 'harness': 'vh_fe_op2', 'args': [op, al], 'summaries': KS})
    for op in range(3):
        for al in range(2):
            jobs.append({'id': 'op1_%d_%d' % (op, al), 'harness': 'vh_fe_op1', 'args': [op, al], 'summaries': KS})
    jobs.append({'id': 'misc', 'harness': 'vh_fe_misc', 'summaries': KS})
    for al in range(3):
        jobs.append({'id': 'cmove%d' % al, 'harness': 'vh_fe_cmove', 'args': [al], 'summaries': KS})
    jobs.append({'id': 'frombytes', 'harness': 'vh_fe_frombytes', 'summaries': KS})
    nrl = [0, 16, 24, 32] if tier == 'quick' else list(range(0, 33))
    for n in nrl:
        jobs.append({'id': 'nored%d' % n, 'harness': 'vh_fe_frombytes_noreduce', 'args': [n], 'summaries': KS})
    jobs.append({'id': 'h2f', 'harness': 'vh_fe_h2f', 'summaries': KS})
    jobs.append({'id': 'reduce', 'harness': 'vh_reduce', 'summaries': KS})
    for al in range(3):
        jobs.append({'id': 'sqrt%d' % al, 'harness': 'vh_fe_sqrtratio', 'args': [al], 'summaries': FIELD_SUMM})
    for al in range(2):
        jobs.append({'id': 'inv%d' % al, 'harness': 'vh_fe_invert', 'args': [al], 'summaries': KS})
    jobs.append({'id': 'exp0', 'harness': 'vh_fe_exp', 'args': [0], 'summaries': KS})
    JOBMETH = {'op2_0': 'Add', 'op2_1': 'Subtract', 'op2_2': 'Multiply', 'op1_0': 'Negate', 'op1_1': 'Square', 'op1_2': 'Set', 'cmove': 'CMove', 'frombytes': 'FromBytesWithReduce',
               'nored': 'FromBytesNoReduce', 'h2f': 'HashToFieldElement', 'reduce': 'Reduce', 'sqrt': 'SqrtRatio', 'inv': 'Invert', 'exp0': 'expPMin3Div4'}

    def job_wanted(jid):
        if jid == 'misc':
            return bool(wanted & {'Sgn0', 'IsZero', 'Equals', 'Bytes', 'One', 'IsEqual'})
        for k, mth in JOBMETH.items():
            if jid.startswith(k):
                return want(mth)
        return True
    jobs = [j for j in jobs if job_wanted(j['id'])]
    # embedded: the contract of a method is needed for the receiver patterns the embedding check's code uses.  The executor reports them
    # (alias / zero / dirty) for every summarised call; unless some call passes a receiver holding an unrelated value ("dirty"), the
    # distinct-receiver obligations are proved for a freshly constructed receiver, which is all the embedding proof relies on.
    fresh = set()
    if not own:
        for k, mth in JOBMETH.items():
            pats = ck.usage.get('(*field.Element).' + mth)
            if pats is not None and 'dirty' not in pats:
                fresh.add(mth)
        for j in jobs:
            mth = next((m_ for k_, m_ in JOBMETH.items() if j['id'].startswith(k_)), None)
            distinct = (j.get('args') or [0])[-1] == 0 or j['id'] in ('frombytes', 'h2f') or j['id'].startswith('nored')
            if mth in fresh and distinct and j['id'] != 'misc':
                j['flags'] = {'zero_receivers': True}
        if fresh:
            ck.notes.append('field contracts proved for fresh or aliased receivers only (no caller in the encoded code passes a receiver holding another value): %s' % sorted(fresh))
    ck.extra['_fresh_receivers'] = sorted(fresh)
    runs = ck.absorb(core.symx_parallel(HARNESS, jobs, pkg='field'))
    ck.extra.setdefault('_runs', []).extend(runs)
    R_ = {r.id: r for r in runs}
    ck.trusted += ['go/ssa + symx translation', 'SMT solvers', 'Fermat: x^(p-2) is the inverse of x != 0 modulo the prime p (0 -> 0)',
                  'x -> x*R mod p is a ring isomorphism (Montgomery form)', 'RFC 9380 F.2.1.2 (sqrt_ratio for q = 3 mod 4) is correct as published']
    ck.assumptions += ['operands canonical (< p), the representation invariant (C10); CMove condition in {0,1} as the property states']
    ck.bounds.update({'operands': 'all canonical limb vectors / all 32- and 48-byte strings', 'aliasing': 'receiver = either/both operands, operands equal',
                 'FromBytesNoReduce lengths': nrl})
    ck.outside += ['non-canonical limb vectors; CMove conditions other than 0/1; expPMin3Div4 with receiver aliasing its argument (unexported helper, never called that way)']
    kernels.prove(ck, 'field', sorted({k for mth in wanted for k in METHOD_KERNELS[mth]} | ({'FromMontgomery', 'ToMontgomery'} if own else set())), tier)

    def one_path(r, tag):
        ok = len(r.paths) == 1 and r.paths[0]['end'] == 'return'
        ck.ground(tag + '.shape', 'single returning path (no data-dependent branch, no panic)', ok, str([(p['end'], p.get('panic'), p.get('err')) for p in r.paths][:3]))
        return r.paths[0] if ok else None

    # ---- binary / unary wrappers ----
    for op, (nm, uf) in enumerate((('Add', 'fadd'), ('Subtract', 'fsub'), ('Multiply', 'fmul'))):
        for al in (range(5) if want(nm) else []):
            r = R_['op2_%d_%d' % (op, al)]
            tag = 'C12.%s.alias%d' % (nm, al)
            p = one_path(r, tag)
            if not p:
                continue
            o = p['obs']
            low = BVLower(r)
            low.emit(o['E']['f'] + o['U0']['f'] + o['V0']['f'] + o['U']['f'] + o['V']['f'])
            f, _ = low.declare_uf(uf, [BV256, BV256], BV256)
            goals = [(tag + '.kernel', '%s: receiver := %s(u, v) on exactly these operands; returns receiver' % (nm, uf),
                      '(assert (not %s))' % limbs_eq(o['E']['f'], '(%s %s %s)' % (f, concat_limbs(['n%d' % x for x in o['U0']['f']]), concat_limbs(['n%d' % x for x in o['V0']['f']]))))]
            ck.ground(tag + '.ret', 'returns the receiver', r.nodes[o['same']['n']].get('v') == '1')
            if al == 0:
                ck.ground(tag + '.frame', 'operands unchanged', o['U']['f'] == o['U0']['f'] and o['V']['f'] == o['V0']['f'])
            ans = ck.prove_batch(low.all(), goals, timeout=30)
            if ans[0] == 'sat' and al == 0:
                cex(ck, r, low, '', goals[0][2], nm, 'u', 'v')
    for op, (nm, uf) in enumerate((('Negate', 'fneg'), ('Square', 'fsq'), ('Set', None))):
        for al in (range(2) if want(nm) else []):
            r = R_['op1_%d_%d' % (op, al)]
            tag = 'C12.%s.alias%d' % (nm, al)
            p = one_path(r, tag)
            if not p:
                continue
            o = p['obs']
            if uf is None:
                ck.ground(tag + '.copy', 'Set copies the four limbs; argument unchanged', o['E']['f'] == o['U0']['f'] and o['U']['f'] == o['U0']['f'])
                continue
            low = BVLower(r)
            low.emit(o['E']['f'] + o['U0']['f'])
            f, _ = low.declare_uf(uf, [BV256], BV256)
            u0 = concat_limbs(['n%d' % x for x in o['U0']['f']])
            alts = [limbs_eq(o['E']['f'], '(%s %s)' % (f, u0))]
            # the same value through another proved kernel: -u as 0 - u, u^2 as u * u
            f2, _ = low.declare_uf('fsub' if nm == 'Negate' else 'fmul', [BV256, BV256], BV256)
            alts.append(limbs_eq(o['E']['f'], '(%s (_ bv0 256) %s)' % (f2, u0) if nm == 'Negate' else '(%s %s %s)' % (f2, u0, u0)))
            g1 = (tag + '.kernel', '%s: receiver := %s(u) (or the same value through %s)' % (nm, uf, 'fsub(0, u)' if nm == 'Negate' else 'fmul(u, u)'), '(assert (not (or %s)))' % ' '.join(alts))
            ans = ck.prove_batch(low.all(), [g1], timeout=30)
            if ans[0] == 'sat' and al == 0:
                cex(ck, r, low, '', g1[2], nm, 'u')

    # ---- Sgn0, IsZero, Equals, Bytes, One, IsEqual ----
    r = R_.get('misc')
    p = one_path(r, 'C12.misc') if r else None
    if p:
        o = p['obs']
        low = BVLower(r)
        roots = [o['sgn0']['n'], o['iszero']['n'], o['equals']['n'], o['isequal']['n']] + o['bytes']['elems'] + o['E0']['f'] + o['U']['f']
        low.emit(roots)
        mu = MontUF(low, 'f')
        en, _ = ensure_vars(r, low, ['e%d' % i for i in range(4)])
        un, _ = ensure_vars(r, low, ['u%d' % i for i in range(4)])
        wn, _ = ensure_vars(r, low, ['w1', 'w2'])
        Ex, Ux = concat_limbs(en), concat_limbs(un)
        pre = '\n'.join([low.all(), mu.axioms_for(r, roots, [Ex, Ux]), '(assert (bvult %s %s))' % (Ex, mu.M()), '(assert (bvult %s %s))' % (Ux, mu.M()),
                         '(define-fun ve () (_ BitVec 256) (%s %s))' % (mu.frm, Ex), '(define-fun vu () (_ BitVec 256) (%s %s))' % (mu.frm, Ux)])
        goals = [('C12.Sgn0', 'Sgn0 = parity of the canonical value, as 0/1', '(assert (not (= n%d ((_ zero_extend 63) ((_ extract 0 0) ve)))))' % o['sgn0']['n']),
                 ('C12.IsZero', 'IsZero = 1 iff value = 0, else 0', '(assert (not (= n%d (ite (= ve (_ bv0 256)) (_ bv1 64) (_ bv0 64)))))' % o['iszero']['n']),
                 ('C12.Equals', 'Equals = 1 iff values equal, else 0', '(assert (not (= n%d (ite (= ve vu) (_ bv1 64) (_ bv0 64)))))' % o['equals']['n']),
                 ('C12.IsEqual', 'IsEqual(w1,w2) = 1 iff words equal', '(assert (not (= n%d (ite (= %s %s) (_ bv1 64) (_ bv0 64)))))' % (o['isequal']['n'], wn[0], wn[1]))]
        for j in range(min(32, len(o['bytes']['elems']))):
            goals.append(('C12.Bytes.%d' % j, 'Bytes()[%d] = byte %d of the 32-byte big-endian canonical value' % (j, j),
                          '(assert (not (= n%d ((_ extract %d %d) ve))))' % (o['bytes']['elems'][j], 255 - 8 * j, 248 - 8 * j)))
        goals = [g for g in goals if want(g[0].split('.')[1])]
        ans = ck.prove_batch_par(pre, goals, timeout=60, chunks=3)
        for g, a in zip(goals, ans):
            if a == 'sat' and g[0] != 'C12.IsEqual':
                lowm = BVLower(r)
                lowm.emit(roots)
                MontUF(lowm, 'f')
                cex(ck, r, lowm, pre[len(low.all()):], g[2], g[0].split('.')[1], 'e', 'u')
        ck.prove('C12.misc.reach', 'assumptions satisfiable', pre, expect='sat', timeout=30)
        if want('Bytes'):
          ck.ground('C12.Bytes.shape', 'Bytes returns 32 fresh bytes and leaves the element unchanged', o['bytes']['len'] == 32 and o['bytes']['fresh'] and o['E']['f'] == o['E0']['f'])
        if want('One'):
          ck.ground('C12.One', 'One() = R mod p; New() = 0', const_limbs(r, o['one']['f']) == R % P and const_limbs(r, o['new']['f']) == 0)

    # ---- CMove ----
    for al in (range(3) if want('CMove') else []):
        r = R_['cmove%d' % al]
        tag = 'C12.CMove.alias%d' % al
        p = one_path(r, tag)
        if not p:
            continue
        o = p['obs']
        low = BVLower(r)
        low.emit(o['E']['f'] + o['U0']['f'] + o['V0']['f'] + o['U']['f'] + o['V']['f'])
        cn, _ = ensure_vars(r, low, ['c'])
        goals = [(tag + '.limb%d' % i, 'CMove limb %d = (c == 0 ? u : v) for c in {0,1}' % i,
                  '(assert (bvule %s (_ bv1 64)))(assert (not (= n%d (ite (= %s (_ bv0 64)) n%d n%d))))' % (cn[0], o['E']['f'][i], cn[0], o['U0']['f'][i], o['V0']['f'][i])) for i in range(4)]
        ck.prove_batch(low.all(), goals, timeout=30)

    # ---- Reduce, byte conversions ----
    r = R_.get('reduce')
    p = one_path(r, 'C12.Reduce') if r else None
    if p:
        o = p['obs']
        low = BVLower(r)
        low.emit([o['flag']['n']] + o['X']['f'] + o['X0']['f'])
        X0, X = concat_limbs(['n%d' % x for x in o['X0']['f']]), concat_limbs(['n%d' % x for x in o['X']['f']])
        pp = bvconst256(P)
        goals = [('C12.Reduce.flag', 'Reduce returns 1 iff input < p (all 2^256 inputs), else 0', '(assert (not (= n%d (ite (bvult %s %s) (_ bv1 64) (_ bv0 64)))))' % (o['flag']['n'], X0, pp)),
                 ('C12.Reduce.value', 'Reduce leaves input mod p (one conditional subtraction: 2^256 < 2p)', '(assert (not (= %s (ite (bvult %s %s) %s (bvsub %s %s)))))' % (X, X0, pp, X0, X0, pp))]
        ans_ = ck.prove_batch(low.all(), goals, timeout=60)
        if 'sat' in ans_:
            # the solver's own inputs become replay cases (raw 256-bit words fed to Reduce and, as 32 bytes, to FromBytesWithReduce);
            # further models with the top limb pinned to different values give the relying checks (decoders) several x / y candidates
            import random as _rnd
            from vf.dag import ensure_vars as _ev
            rg_ = _rnd.Random(7 + ck.seed)
            xn_ = ['n%d' % x for x in o['X0']['f']]
            for g_ in [g for g, a_ in zip(goals, ans_) if a_ == 'sat'][:1]:
                for pin_ in (None, rg_.getrandbits(63), rg_.getrandbits(64) | 1, rg_.getrandbits(62)):
                    extra_ = '' if pin_ is None else '\n(assert (= %s (_ bv%d 64)))' % (xn_[3], pin_)
                    m_, _s = smt.get_model(low.all() + extra_ + '\n' + g_[2], xn_, timeout=20)
                    if m_:
                        ck.extra.setdefault('_cex', []).append({'kind': 'field-reduce', 'op': 'Reduce', 'a': '%064x' % unlimbs([m_[x] for x in xn_]), 'b': '%064x' % 0})
    if r is not None and own:
        # the unexported byte <-> limb helpers observed directly (their own harness file: a tree that changes their signatures keeps the
        # end-to-end obligations on FromBytesWithReduce / FromBytesNoReduce / Bytes, which compose them)
        try:
            rb_ = ck.absorb(core.symx(HARNESS + ['field_bytes.go'], [{'id': 'bytes', 'harness': 'vh_bytes', 'summaries': KS}], pkg='field'))[0]
            pb_ = one_path(rb_, 'C12.bytes')
        except core.EngineError as e_:
            pb_ = None
            ck.notes.append('byte <-> limb helpers not observed directly (%s); covered through the exported parsers / serialiser' % str(e_)[:160])
        if pb_:
            o = pb_['obs']
            low = BVLower(rb_)
            low.emit(o['nm']['f'] + o['tobytes']['elems'] + o['Y']['f'])
            bn, _ = ensure_vars(rb_, low, ['in_%d' % i for i in range(32)], 8)
            ck.prove_batch(low.all(), [
                ('C12.bytesToInts', 'bytesToNonMontgomery = big-endian OS2IP as four limbs', '(assert (not (= %s %s)))' % (concat_limbs(['n%d' % x for x in o['nm']['f']]), concat_bytes_be(bn))),
                ('C12.intsToBytes', 'nonMontgomeryToBytes = 32-byte big-endian I2OSP', '(assert (not (= %s %s)))' % (concat_limbs(['n%d' % x for x in o['Y']['f']]), concat_bytes_be(['n%d' % x for x in o['tobytes']['elems']])))], timeout=60)

    # ---- FromBytesWithReduce ----
    r = R_.get('frombytes')
    p = one_path(r, 'C12.FromBytesWithReduce') if r else None
    if p:
        o = p['obs']
        low = BVLower(r)
        low.emit([o['reduced']['n']] + o['E']['f'])
        mu = MontUF(low, 'f')
        bn, _ = ensure_vars(r, low, ['in_%d' % i for i in range(32)], 8)
        iv = concat_bytes_be(bn)
        pp = bvconst256(P)
        goals = [('C12.FromBytesWithReduce.flag', 'flag = 1 iff OS2IP(input) < p, for all 32-byte strings', '(assert (not (= n%d (ite (bvult %s %s) (_ bv1 64) (_ bv0 64)))))' % (o['reduced']['n'], iv, pp)),
                 ('C12.FromBytesWithReduce.value', 'element := ToMontgomery(OS2IP(input) mod p)', '(assert (not %s))' % limbs_eq(o['E']['f'], '(%s (ite (bvult %s %s) %s (bvsub %s %s)))' % (mu.to, iv, pp, iv, iv, pp)))]
        ck.prove_batch(low.all(), goals, timeout=60)

    for n in (nrl if want('FromBytesNoReduce') else []):
        r = R_['nored%d' % n]
        tag = 'C12.FromBytesNoReduce.%d' % n
        p = one_path(r, tag)
        if not p:
            continue
        o = p['obs']
        low = BVLower(r)
        low.emit(o['E']['f'])
        mu = MontUF(low, 'f')
        bn, _ = ensure_vars(r, low, ['in_%d' % i for i in range(n)], 8)
        iv = '(_ bv0 256)' if n == 0 else (concat_bytes_be(bn) if n == 32 else '((_ zero_extend %d) %s)' % (256 - 8 * n, concat_bytes_be(bn)))
        ck.prove_batch(low.all(), [(tag, 'element := ToMontgomery(OS2IP(%d input bytes)); input not written' % n, '(assert (not %s))' % limbs_eq(o['E']['f'], '(%s %s)' % (mu.to, iv)))], timeout=30)
        ck.ground(tag + '.frame', 'input slice untouched', not p['writes'])

    # ---- wide reduction ----
    r = R_.get('h2f')
    p = one_path(r, 'C12.HashToFieldElement') if r else None
    if p:
        o = p['obs']
        low = BVLower(r)
        low.emit(o['E']['f'])
        mu = MontUF(low, 'f')
        fa, _ = low.declare_uf('fadd', [BV256, BV256], BV256)
        fm, _ = low.declare_uf('fmul', [BV256, BV256], BV256)
        bn, _ = ensure_vars(r, low, ['in_%d' % i for i in range(48)], 8)
        A = '((_ zero_extend 64) %s)' % concat_bytes_be(bn[24:])
        Bt = '((_ zero_extend 64) %s)' % concat_bytes_be(bn[:24])
        K192, K384 = pow(2, 192, P) * R % P, pow(2, 384, P) * R % P
        spec = '({fa} ({fa} ({to} {A}) ({fm} ({to} {B}) {k1})) ({fm} ({to} (_ bv0 256)) {k2}))'.format(fa=fa, fm=fm, to=mu.to, A=A, B=Bt, k1=bvconst256(K192), k2=bvconst256(K384))
        # the same value written without the vanishing third term, and with the two summands / factors in either order (Add and Mul are
        # commutative by their contracts): any of these term shapes is the reduction of a + b*2^192
        ta, tb = '({to} {A})'.format(to=mu.to, A=A), '({to} {B})'.format(to=mu.to, B=Bt)
        k1 = bvconst256(K192)
        k2 = bvconst256(K384)
        t0 = '({to} (_ bv0 256))'.format(to=mu.to)
        import itertools
        shapes = [spec]
        for pb in ('(%s %s %s)' % (fm, tb, k1), '(%s %s %s)' % (fm, k1, tb)):
            shapes += ['(%s %s %s)' % (fa, x_, y_) for x_, y_ in ((ta, pb), (pb, ta))]
            for pc in ('(%s %s %s)' % (fm, t0, k2), '(%s %s %s)' % (fm, k2, t0)):
                for x_, y_, z_ in itertools.permutations((ta, pb, pc)):
                    shapes += ['(%s (%s %s %s) %s)' % (fa, fa, x_, y_, z_), '(%s %s (%s %s %s))' % (fa, x_, fa, y_, z_)]
        ck.prove_batch(low.all(), [('C12.HashToFieldElement.structure',
                                    'e = To(a) + To(b)*M(2^192) [+ To(0)*M(2^384)] with a,b the low/high 24-byte windows (a,b < 2^192 < p) and M(.) the Montgomery forms of 2^192, 2^384 mod p computed independently',
                                    '(assert (not (or %s)))' % ' '.join(limbs_eq(o['E']['f'], sp) for sp in shapes))], timeout=60)
        ck.prove('C12.HashToFieldElement.split', 'OS2IP(48 bytes) = a + b*2^192 (so the value is OS2IP mod p by the kernel contracts)',
                 low.all() + '\n(assert (not (= %s (bvadd ((_ zero_extend 192) %s) (bvshl ((_ zero_extend 192) %s) (_ bv192 384))))))' % (
                     concat_bytes_be(bn), concat_bytes_be(bn[24:]), concat_bytes_be(bn[:24])), timeout=60)

    # ---- chains ----
    for rid, nm, target in (('inv0', 'Invert', P - 2), ('inv1', 'Invert(aliased)', P - 2), ('exp0', 'expPMin3Div4', (P - 3) // 4)):
        if rid not in R_:
            continue
        r = R_[rid]
        tag = 'C12.' + nm
        p = one_path(r, tag)
        if not p:
            continue
        o = p['obs']
        Z = o['Z']['f']
        roots = {r.nodes[x]['a'][0] for x in Z if r.nodes[x]['op'] == 'limb'}
        ok = len(roots) == 1 and all(r.nodes[x]['op'] == 'limb' and r.nodes[x].get('i', 0) == i for i, x in enumerate(Z))
        ck.ground(tag + '.tree', 'result is one product tree over the argument', ok)
        if ok:
            base = [n['id'] for n in r.nodes if n['op'] == 'pack' and n['a'] == o['X0']['f']]
            script, top, steps = exponent_script(r, roots.pop(), base[0] if base else -1, 'fmul', 'fsq')
            ck.prove(tag + '.exponent', 'addition chain (%d steps) computes x^%s' % (steps, 'p-2' if target == P - 2 else '(p-3)/4'), script + '\n(assert (not (= %s %d)))' % (top, target), timeout=60)

    # ---- sqrt_ratio vs RFC 9380 F.2.1.2 ----
    for al in ((range(3) if own else [0]) if want('SqrtRatio') else []):   # callers in the module always use a fresh receiver
        r = R_['sqrt%d' % al]
        tag = 'C12.SqrtRatio.alias%d' % al
        p = one_path(r, tag)
        if not p:
            continue
        o = p['obs']
        low = PolyLower(r)
        roots = o['E']['f'] + [o['ok']['n']] + o['U0']['f'] + o['V0']['f']
        packs = [n['id'] for n in r.nodes if n['op'] == 'pack' and n['a'] in (o['U0']['f'], o['V0']['f'])]
        eroot = {r.nodes[x]['a'][0] for x in o['E']['f'] if r.nodes[x]['op'] == 'limb'}
        ok = len(eroot) == 1
        ck.ground(tag + '.tree', 'result is one abstract field value', ok)
        if not ok:
            continue
        er = eroot.pop()
        low.emit([er, o['ok']['n']] + packs)
        pe = low.uf_decl('fexp', ['Int'], 'Int')
        isz = low.uf_decl('isz', ['Int'], 'Bool')
        u, v = low.fe('u'), low.fe('v')
        if al == 1:
            u = low.fe('e')
        if al == 2:
            v = low.fe('e')
        c2 = [nm for nm, val in low.consts.items() if val * val % P == 11]
        ck.ground(tag + '.c2', 'the constant multiplied in is c2 with c2^2 = -Z = 11 (mod p)', len(c2) == 1, str({k: hex(vv) for k, vv in low.consts.items()}))
        if not c2:
            continue
        y1 = '(* (%s (* %s (* %s (* %s %s)))) (* %s %s))' % (pe, u, v, v, v, u, v)
        isqr = '(%s (- (* (* %s %s) %s) %s))' % (isz, y1, y1, v, u)
        ref = '(ite %s %s (* %s %s))' % (isqr, y1, y1, c2[0])
        goals = [(tag + '.y', 'y = CMOV(y1*c2, y1, isQR) with y1 = (u v^3)^((p-3)/4) u v, as a polynomial identity over Z', '(assert (not (= n%d %s)))' % (er, ref)),
                 (tag + '.isQR', 'flag = (y1^2 v == u), as 0/1', '(assert (not (= n%d (ite %s (_ bv1 64) (_ bv0 64)))))' % (o['ok']['n'], isqr))]
        for ci, c in enumerate(low.cmov_conds):
            low.emit([c])
            goals.append((tag + '.cond%d' % ci, 'conditional-move condition is 0 or 1', '(assert (not (bvule n%d (_ bv1 64))))' % c))
        ck.prove_batch(low.all(), goals, timeout=60)
        if al == 0:
            ck.ground(tag + '.frame', 'operands unchanged', o['U']['f'] == o['U0']['f'] and o['V']['f'] == o['V0']['f'])
    if any(not o['ok'] and o['id'].startswith(('C12.', 'K.field')) for o in ck.obls) and not ck.violations:
        battery(ck, wanted)
    return ck.finish() if own else None


def battery(ck, wanted=None):
    names = sorted(wanted or ALL_METHODS) + (['AliasedSqrtRatio'] if ck.pid == 'C12' else [])
    path = ck.save_replay({'property': ck.pid, 'pkg': 'field', 'cases': ck.extra.get('_cex', []) + [{'kind': 'field-battery', 'op': str(ck.seed), 'b': ','.join(names), 'c': ','.join(ck.extra.get('_fresh_receivers', []))}]})
    ok, out = core.go_test(path, pkg='field')
    if not ok and 'MISMATCH' in out:
        wit = [int(c_[k_], 16) for c_ in ck.extra.get('_cex', []) for k_ in ('a', 'b') if c_.get(k_) and int(c_[k_], 16)]
        import re as _re
        wit += [int(h_, 16) for h_ in _re.findall(r'limbs ([0-9a-f]{64})', out)[:4]]
        # operands printed as VALUES by the battery ("Invert(2b..)", "Multiply(a,b)"): as limb vectors (value * 2^256 mod p)
        for h_ in _re.findall(r'[A-Za-z0-9]+\(([0-9a-f]{1,64})[,)]', ' '.join(l for l in out.splitlines() if 'MISMATCH' in l))[:6]:
            wit.append(int(h_, 16) % P * R % P)
        ck.dep_violation('field', 'field-api', 'field layer wrong on boundary/seeded operands: %s' % [l.strip() for l in out.splitlines() if 'MISMATCH' in l][:1], path, wit)
    else:
        ck.inconclusive.append('failed obligation did not reproduce on boundary/seeded operands: ' + out[-200:])


def replay(path):
    import json
    pkg = json.load(open(path)).get('pkg', 'field')
    ok, out = core.go_test(path, pkg=pkg)
    print(out)
    return 0 if ok else 1
