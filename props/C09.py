"""C09 - HashToScalar is RFC 9380 hash_to_field over the scalar field (L = 48, m = 1, count = 1).

Per (message length, DST length): HashToScalar is executed from /repo's SSA with all bytes
symbolic, SHA-256 uninterpreted, the scalar kernels as uninterpreted functions.  One obligation
ties the result to To(a) + To(b)*M(2^192) + To(0)*M(2^384) where a, b are the low/high 24-byte
windows of expand_message_xmd(msg, DST, 48) built independently (RFC 9380 5.3.1), and M(.) are the
independently computed Montgomery forms of 2^192, 2^384 mod n."""
from vf import core, smt, kernels
from vf.core import Check
from vf.dag import BVLower, ensure_vars
from vf.uf import MontUF, concat_bytes_be, BV256
from vf.xmd import expand_message_xmd
from vf.params import *
from props.C06 import limbs_eq

HARNESS = ['root_intrinsics.go', 'root_element.go', 'root_map.go', 'root_hash.go']
SUMM = kernel_summaries('scalar', 's')


from props.C08 import byte_names


def check_one(ck, r, m, d, failures, lay=0, label=''):
    tag = 'C09.m%d.d%d' % (m, d) + ('.layout%d' % lay if lay else '') + ('.' + label if label else '')
    ok = len(r.paths) == 1 and r.paths[0]['end'] == 'return'
    if not ck.ground(tag + '.shape', 'single returning path', ok, str([(p['end'], p.get('panic') or p.get('err')) for p in r.paths][:2])):
        failures.append(tag)
        return
    p = r.paths[0]
    o = p['obs']
    low = BVLower(r)
    low.emit(o['S']['f'])
    mu = MontUF(low, 's')
    fa, _ = low.declare_uf('sadd', [BV256, BV256], BV256)
    fm, _ = low.declare_uf('smul', [BV256, BV256], BV256)
    mnames, dnames = byte_names(m, d, lay)
    mn, _ = ensure_vars(r, low, mnames, 8)
    dn, _ = ensure_vars(r, low, dnames, 8)
    ub = expand_message_xmd(low, mn, dn, 48)
    A = '((_ zero_extend 64) %s)' % concat_bytes_be(ub[24:])
    Bt = '((_ zero_extend 64) %s)' % concat_bytes_be(ub[:24])
    K192, K384 = pow(2, 192, N) * R % N, pow(2, 384, N) * R % N
    spec = '({fa} ({fa} ({to} {A}) ({fm} ({to} {B}) {k1})) ({fm} ({to} (_ bv0 256)) {k2}))'.format(fa=fa, fm=fm, to=mu.to, A=A, B=Bt, k1=bvconst256(K192), k2=bvconst256(K384))
    # equivalent term shapes (the vanishing third term dropped, summands / factors in either order) are the same reduction
    ta, tb, k1 = '(%s %s)' % (mu.to, A), '(%s %s)' % (mu.to, Bt), bvconst256(K192)
    k2, t0 = bvconst256(K384), '(%s (_ bv0 256))' % mu.to
    import itertools
    shapes = [spec]
    for pb in ('(%s %s %s)' % (fm, tb, k1), '(%s %s %s)' % (fm, k1, tb)):
        shapes += ['(%s %s %s)' % (fa, x_, y_) for x_, y_ in ((ta, pb), (pb, ta))]
        for pc in ('(%s %s %s)' % (fm, t0, k2), '(%s %s %s)' % (fm, k2, t0)):
            for x_, y_, z_ in itertools.permutations((ta, pb, pc)):
                shapes += ['(%s (%s %s %s) %s)' % (fa, fa, x_, y_, z_), '(%s %s (%s %s %s))' % (fa, x_, fa, y_, z_)]
    ans = ck.prove_batch(low.all(), [(tag + '.value', 'result = To(a) + To(b)*2^192 [+ To(0)*2^384] over the windows of expand_message_xmd(msg, DST, 48)%s, i.e. OS2IP(uniform_bytes) mod n' % (
        ' (oversize-DST rule)' if d > 255 else ''), '(assert (not (or %s)))' % ' '.join(limbs_eq(o['S']['f'], sp) for sp in shapes))], timeout=90)
    if ans[0] != 'unsat':
        failures.append(tag + '.value')
    ocone = set(r.cone(o['S']['f']))
    inputs = {n['n'].rsplit('_', 1)[0] for n in r.nodes if n['op'] == 'var' and n['id'] in ocone}
    if not ck.ground(tag + '.pure', 'depends on msg and DST bytes only; fresh scalar returned; arguments not written', inputs <= {'msg', 'dst', 'msgbuf', 'dstbuf', 'frame'} and bool(o['sfresh'].get('fresh')) and not p['writes'], str(p['writes'][:1])):
        failures.append(tag + '.pure')


from props.C08 import BOUNDARY, SWEEP


def run(tier, seed):
    ck = Check('C09', tier, seed, level='model_checking')
    if tier == 'quick':
        ms, ds = [0, 1, 3, 16, 64, 128], [1, 2, 15, 16, 17, 254, 255, 256, 257, 300]
        combos = [(m, d) for m in ms for d in ds if (m in (0, 3, 64) or d in (1, 16, 255, 256, 300))] + [(1, 65536)]   # a DST whose length does not fit 16 bits
        combos += BOUNDARY
    else:
        ms, ds = [0, 1, 2, 3, 4, 5, 6, 7, 8, 55, 56, 63, 64, 65, 128, 512], list(range(1, 301))
        combos = [(m, d) for d in ds for m in ((0, 3, 64) if d not in (1, 16, 255, 256, 300) else ms)] + [(1, 65535), (1, 65536), (1, 65537), (0, 65791), (2, 131072)]
        combos += SWEEP
        combos = list(dict.fromkeys(combos))
    jobs = [{'id': 'h_%d_%d' % (m, d), 'harness': 'vh_hash', 'args': [2, m, d, 0], 'summaries': SUMM} for (m, d) in combos]
    from props.C08 import LAYCOMBOS
    jobs += [{'id': 'h_%d_%d_L%d' % (m, d, lay), 'harness': 'vh_hash', 'args': [2, m, d, lay], 'summaries': SUMM} for lay in (1, 2, 3, 4) for (m, d) in LAYCOMBOS]
    from props.C08 import TWICE
    jobs += [{'id': 'tw_%d_%d_%d' % (m, d, mode), 'harness': 'vh_hash_twice', 'args': [2, m, d, mode], 'summaries': SUMM} for mode in (0, 1, 2, 3, 4) for (m, d) in (TWICE if mode < 4 else [(3, 33)])]
    jobs += [{'id': 'nodst%d' % i, 'harness': 'vh_hash_nodst', 'args': [2, 3, i], 'summaries': SUMM} for i in (0, 1)]
    runs = ck.absorb(core.symx_parallel(HARNESS, jobs, chunks=12))
    ck.extra['_runs'] = runs
    R_ = {r.id: r for r in runs}
    ck.trusted = ['go/ssa + symx translation', 'SMT solvers', 'SHA-256 is a function of its input bytes (uninterpreted); hash.Hash Reset/Write/Sum contract',
                  'Montgomery ring isomorphism: the value of To(a)+To(b)*M(2^192)+To(0)*M(2^384) is (a + b*2^192) mod n = OS2IP(48 bytes) mod n (a, b < 2^192 < n)']
    ck.assumptions = ['message and DST contents arbitrary; lengths from the table']
    ck.bounds = {'(msg length, DST length) pairs': len(combos), 'msg lengths': ms, 'DST lengths': ds if tier == 'quick' else '1..300',
                 'reduction step': 'all 2^384 expander outputs (48 free bytes behind the SHA symbols)'}
    ck.outside = ['lengths outside the table', 'SHA-256 internals']
    kernels.prove(ck, 'scalar', ['Mul', 'Add', 'ToMontgomery'], tier)
    failures = []
    with core.ThreadPoolExecutor(max_workers=4) as ex:
        list(ex.map(lambda c: check_one(ck, R_['h_%d_%d' % c], c[0], c[1], failures), combos))
    for lay in (1, 2, 3, 4):
        for (m, d) in LAYCOMBOS:
            check_one(ck, R_['h_%d_%d_L%d' % (m, d, lay)], m, d, failures, lay)
    for mode in (0, 1, 2, 3, 4):
        for (m, d) in (TWICE if mode < 4 else [(3, 33)]):
            check_one(ck, R_['tw_%d_%d_%d' % (m, d, mode)], m, d, failures, lay=0, label='second-call%d' % mode)
    # OS2IP split lemma
    ck.prove('C09.split', 'OS2IP(48 bytes) = a + b*2^192', '(declare-const a (_ BitVec 192))(declare-const b (_ BitVec 192))\n(assert (not (= (concat b a) (bvadd ((_ zero_extend 192) a) (bvshl ((_ zero_extend 192) b) (_ bv192 384))))))', timeout=30)
    for i in (0, 1):
        r = R_['nodst%d' % i]
        okp = len(r.paths) == 1 and r.paths[0]['end'] == 'panic' and r.paths[0]['panic'] == 'err:zero-length DST' and not any(n['op'] == 'sha256' for n in r.nodes)
        if not ck.ground('C09.nodst%d' % i, '%s DST panics with errZeroLenDST before anything is hashed' % ('nil' if i else 'empty'), okp):
            failures.append('nodst')
    if any('.value' in f for f in failures) and not ck.violations:
        wide_battery(ck, failures)
    if (failures or any(not o['ok'] for o in ck.obls)) and not ck.violations:
        from props import fallback
        cases = fallback.length_cases('C09', failures, ck.seed) + fallback.cases_for('C09', ck.seed)
        path = ck.save_replay({'property': 'C09', 'cases': cases, 'failed': failures[:10]})
        ok, out = core.go_test(path)
        if ok:
            path = ck.save_replay({'property': 'C09', 'cases': fallback.first_oversize('C09', ck.seed) + cases, 'failed': failures[:10], 'note': 'fresh process whose first hashing call uses an oversize DST'})
            ok, out = core.go_test(path)
        if not ok and 'MISMATCH' in out:
            ck.violation('h2s', 'HashToScalar deviates from RFC 9380 (%s): %s' % ((failures or ['?'])[0], [l.strip() for l in out.splitlines() if 'MISMATCH' in l][:1]), path)
        else:
            ck.inconclusive.append('failed obligations %s did not reproduce: %s' % (failures[:3], out[-200:]))
    return ck.finish()


def wide_battery(ck, failures):
    """the reduction step fed directly with boundary expander outputs (they have no known msg/DST preimage)"""
    C = 2**256 % N
    his = [2**128 - 1, 2**128 - 2, 2**127, 1, 0, 2**64, 2**64 - 1]
    los = [2**256 - 1, 2**256 - 2**64, N - 1, N, N + 1, 2**255, 0, 2**192 - 1]
    vals = [hi * 2**256 + lo for hi in his for lo in los]
    for hi in his[:3]:
        for k in (0, 1, 2):
            lo = (k + 1) * 2**256 - 1 - hi * C   # lo + hi*C just below a multiple of 2^256
            for d in (0, 1, 2**64, 2**128):
                if 0 <= lo - d < 2**256:
                    vals.append(hi * 2**256 + lo - d)
                if 0 <= lo + d + 1 < 2**256:
                    vals.append(hi * 2**256 + lo + d + 1)
    vals += [2**384 - 1, 2**383, N * 2**128, N * 2**128 - 1]
    path = ck.save_replay({'property': 'C09', 'pkg': 'scalar', 'cases': [{'kind': 'wide', 'a': '%096x' % v} for v in vals], 'failed': failures[:5]})
    ok, out = core.go_test(path, pkg='scalar')
    if not ok and 'MISMATCH' in out:
        ck.violation('wide-reduction', 'the 48-byte reduction step is not OS2IP mod n: %s' % [l.strip() for l in out.splitlines() if 'MISMATCH' in l][:1], path)


def replay(path):
    import json
    if json.load(open(path)).get('pkg') == 'scalar':
        ok, out = core.go_test(path, pkg='scalar')
        print(out)
        return 0 if ok else 1
    ok, out = core.go_test(path)
    print(out)
    return 0 if ok else 1
