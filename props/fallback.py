"""Safety net: when the executor cannot encode the current tree at all (restructured code, unsupported
construct), the property's concrete replay battery is still run against the real build.  A reproduced
mismatch is a genuine, replayable violation; otherwise the verdict stays INCONCLUSIVE (exit 2).
This is never used on a tree the executor can encode, and never turns a failure into a pass."""
import json, os, random, time
from vf import core
from vf.params import *


def _rng(seed, salt):
    return random.Random(seed * 1000 + salt)


def scalar_vals(rng):
    Ri = pow(R, -1, N)
    sparse = [sp * Ri % N for sp in (1, 2**64 - 1, 2**64, 2**128, 2**191, 5 * 2**64 + 3, 2**63)]   # scalars whose MONTGOMERY form is short / sparse
    return sparse + [0, 1, 2, 3, N - 1, N - 2, 2**255, 2**255 + 1, 2**254, 2**256 % N, 2**128, 2**64, 2**64 - 1, 2**192, 2**128 + 5, 3 * 2**192 + 2**7, (N - 1) // 2] + [rng.randrange(N) for _ in range(6)]


OBS = {'C13': 'isz,isone,eq,le', 'C07': 'enc', 'C14': 'bits', 'C06': 'none', 'C01': 'bits', 'C04': 'enc,unc', 'C05': 'isid,eq', 'C10': ''}


def _scoped(pid, cases):
    """history cases carry the property they are replayed for and the observers it is about"""
    for c in cases:
        if c.get('kind') in ('hidden-scalar', 'hidden-element') and 'op' not in c:
            c['op'] = pid
            c['a'] = OBS.get(pid, 'none')
    return cases


def cases_for(pid, seed):
    return _scoped(pid, _cases_for(pid, seed))


def _cases_for(pid, seed):
    rng = _rng(seed, int(pid[1:]))
    hx = lambda v: '%064x' % v
    rb = lambda n: ''.join('%02x' % rng.getrandbits(8) for _ in range(n))
    if pid == 'C01':
        cs = [{'kind': 'multiply', 'a': hx(k), 'b': hx(j), 'c': hx(l)} for k in scalar_vals(rng) for j, l in ((1, 1), (5, 7), (0, 3), (N - 1, 9))]
        return cs + [{'kind': 'multiply-nil'}] + [{'kind': 'hidden-scalar', 'n': m} for m in range(15)]
    if pid == 'C02':
        from props import C02
        return C02.fold_boundary_scalings() + [{'kind': 'el-battery', 'op': 'group', 'n': seed}, {'kind': 'identity-producers'}]
    if pid == 'C05':
        return [{'kind': 'el-battery', 'op': 'equal', 'n': seed}, {'kind': 'identity-producers'}]
    if pid == 'C04':
        return [{'kind': 'el-battery', 'op': 'encode', 'n': seed}] + [{'kind': 'hidden-element', 'n': m} for m in range(11)]
    if pid == 'C03':
        from props import C03
        return C03.adversarial_cases(seed)
    if pid == 'C06':
        from props import C06
        return C06.api_cases(seed, [])
    if pid == 'C07':
        views = [{'kind': 'scalar-views', 'a': hx(v)} for v in [0, 1, 42, 2**64 - 1, 2**64, 2**128, 2**192, 2**255, 2**255 + 1, 7 * 2**64, 2**192 + 2**10, N - 1, N - 2, (N - 1) // 2, 0x0123456789abcdef << 64] + [rng.randrange(N) for _ in range(4)]]
        vals = [N - 1, N, N + 1, 2**256 - 1, 0, 1, 2**64, N - 2**64, N - (N % 2**64), 2**192 + 3]
        return [{'kind': 'scalar-decode', 'a': hx(v), 'b': hx(pre)} for v in vals for pre in (5, N - 3)] + [{'kind': 'scalar-decode', 'a': 'aa' * n, 'b': hx(5)} for n in (0, 1, 31, 33, 64)] + [{'kind': 'scalar-decodehex', 'a': h, 'b': hx(5)} for h in ('', '0', '01', '0102', 'ab' * 31, 'ab' * 32, '00' * 32, 'ab' * 33, 'ff' * 32, hx(N - 1), hx(N), 'zz', '0' * 63, '1' * 65, '01' * 288, '00' * 288)] + [{'kind': 'scalar-decode', 'a': '01' * n, 'b': hx(5)} for n in (256, 288, 544)] + views + [{'kind': 'hidden-scalar', 'n': m} for m in (0, 8, 11, 14)]
    if pid == 'C13':
        vs = scalar_vals(rng)[:12] + [2**192 + 5, 5, N - 1 - 2**192]
        cs = [{'kind': 'lessorequal', 'a': hx(a), 'b': hx(b)} for a in vs for b in vs[::2]] + [{'kind': 'equal', 'a': hx(a), 'b': hx(b)} for a in vs[:8] for b in vs[:8]]
        return cs + [{'kind': 'cselect', 'a': hx(3), 'b': hx(N - 4), 'c': hx(9), 'u': u} for u in (0, 1, 2, 2**63, 2**64 - 1, 2**63 + 1, 2**32)] + [{'kind': 'cselect-nil'}]
    if pid == 'C14':
        Ri = pow(R, -1, N)
        vs = scalar_vals(rng) + [sp * Ri % N for sp in (1, 2**64, 2**128, 2**191)]
        return [{'kind': 'bits', 'a': hx(v % N)} for v in vs] + [{'kind': 'hidden-scalar', 'n': m} for m in range(15)]
    if pid in ('C08', 'C09'):
        ops = ('RO', 'NU') if pid == 'C08' else ('S',)
        combos = [(0, 1), (3, 16), (1, 2), (64, 255), (64, 256), (5, 300), (128, 17), (1, 65536)]
        cs = []
        for (m, d) in combos:
            msg, dst = rb(m), rb(d)
            for op in ops:
                cs.append({'kind': 'h2c', 'op': op, 'a': msg, 'b': dst} if pid == 'C08' else {'kind': 'h2s', 'a': msg, 'b': dst})
        for lay in (1, 2, 3, 4):
            for (m, d) in ((3, 16), (0, 1), (64, 255), (3, 256)):
                for op in ops:
                    cs.append({'kind': 'h2-layout', 'op': op, 'n': lay, 'a': rb(m), 'b': rb(d)})
        if pid == 'C09':
            cs.append({'kind': 'h2s-many', 'n': 1500})
        else:
            cs.append({'kind': 'h2c-many', 'n': 700})
        # consecutive calls first and with increasing DST lengths: recycled buffers / cached state are then at their tightest
        seqs = []
        for op in ops:
            for (d1, d2) in ((1, 2), (15, 16), (16, 16), (32, 33), (49, 50), (255, 256), (16, 300), (300, 33), (300, 300), (300, 16)):
                seqs.append({'kind': 'h2-sequence', 'op': op, 'a': rb(5), 'b': rb(d1), 'c': rb(d2)})
        cs = seqs + cs
        return cs + [{'kind': 'h2-panic', 'a': 'aa', 'b': '', 'n': 0}, {'kind': 'h2-panic', 'a': 'aa', 'b': '', 'n': 1}]
    if pid == 'C10':
        return [{'kind': 'history', 'n': seed + s} for s in range(12)] + [{'kind': 'mem'}, {'kind': 'identity-producers'}] + [{'kind': 'hidden-scalar', 'n': m} for m in range(15)] + [{'kind': 'hidden-element', 'n': m} for m in range(11)]
    if pid == 'C11':
        us = [0, 1, 2, P - 1, 5, 7, 11, 2**255 % P, (P - 1) // 2]
        inv11 = pow(11, -1, P)
        rt = pow(inv11, (P + 1) // 4, P)
        if rt * rt % P == inv11:
            us += [rt, P - rt]
        us += [rng.randrange(P) for _ in range(24)]
        return [{'kind': 'sswu', 'a': hx(u)} for u in us] + [{'kind': 'iso', 'a': hx(u), 'n': k} for u in us[:8] for k in (1, 2)]
    if pid == 'C12':
        return [{'kind': 'field-battery', 'op': str(seed), 'b': ''}]
    if pid == 'C15':
        return [{'kind': 'mem'}]
    if pid == 'C16':
        return [{'kind': 'race'}]
    if pid == 'C18':
        z, nblk, v1 = '00' * 32, hx(N), hx(N + 5)
        streams = [z + nblk + v1, v1, hx(N - 1), z, nblk + z, 'ff' * 32, z + 'ff' * 32, '', z + z + z + nblk, hx(1)]
        return [{'kind': 'random', 'a': s} for s in streams] + [{'kind': 'random', 'a': s, 'n': ch} for s in streams for ch in (16, 1, 31)] + [{'kind': 'random', 'a': v1[:40], 'n': 7}, {'kind': 'random', 'a': z + v1[:20]}]
    if pid == 'C19':
        ks = [0, 2, 3, N - 1, 2**255, 2**64, (1 << 200) + 5, 0x5555555555555555555555555555555555555555555555555555555555555555 % N, N - 2, 6]
        return [{'kind': 'schedule', 'a': ','.join(hx(k) for k in ks)}]
    return []


def sswu_preimages(targets):
    """field elements u for which an intermediate value of the simplified SWU map (RFC 9380 F.2: tv1 = Z u^2, tv2 = tv1^2 + tv1,
    tv4 = -A' tv2, tv6 = tv4^3) equals one of the target values: the way a field-layer witness reaches the map through its only input"""
    A_ = 0x3f8731abdd661adca08a5558f0f5d272e953d363cb6f0e5d405447c01a444533
    Z_ = P - 11
    def sqrt(a):
        a %= P
        r = pow(a, (P + 1) // 4, P)
        return [r, P - r] if r * r % P == a else []
    def cbrt(a):
        a %= P
        r = pow(a, (P + 2) // 9, P)
        if pow(r, 3, P) != a:
            return []
        w = pow(2, (P - 1) // 3, P)
        while w == 1:
            w = pow(3, (P - 1) // 3, P)
        return [r, r * w % P, r * w * w % P]
    us = []
    inv2 = pow(2, -1, P)
    for t in targets:
        t2s = [t % P, (-t * pow(A_, -1, P)) % P]                       # t as tv2, and the tv2 that gives tv4 = t
        t2s += [(-c * pow(A_, -1, P)) % P for c in cbrt(t)]             # ... that gives tv6 = tv4^3 = t
        for t2 in t2s:
            for s_ in sqrt(1 + 4 * t2):
                tv1 = (s_ - 1) * inv2 % P
                for u in sqrt(tv1 * pow(Z_, -1, P)):
                    if u not in us:
                        us.append(u)
    return us[:48]


def witness_cases(pid, layer, wit, seed):
    """property-level replay cases derived from lower-layer witnesses (limb vectors on which a field / scalar kernel or method
    violates its contract): the witness becomes a projective scaling, a coordinate, a field element fed to the map, a scalar,
    an entropy block - whatever reaches the lower layer through this property's API"""
    hx = lambda v: '%064x' % v
    mod = P if layer == 'field' else N
    vals = []
    for w in wit:
        for v in (w * pow(R, -1, mod) % mod, w % mod):     # the value whose Montgomery form is the witness, and the witness read as a value
            if v and v not in vals:
                vals.append(v)
    vals = vals[:16]
    cs = []
    if not vals and not (layer == 'field' and pid == 'C11'):
        return cs
    if layer == 'field':
        # also scalings that make a COORDINATE of G / 5G equal to the witness value (the first products of the formulas then see it)
        g5x, g5y = 0x2f8bde4d1a07209355b4a7250a5c5128e88b84bddc619ab7cba8d569b240efe4, 0xd8ac222636e5e3d6d4dba9dda6c9c426f788271bab0d6840dca87d3aa6ac62d6
        zs = list(vals)
        for v in vals[:8]:
            for c_ in (GX, GY, g5x, g5y):
                z = v * pow(c_, -1, P) % P
                if z and z not in zs:
                    zs.append(z)
        sc = ','.join(hx(v) for v in zs[:48])
        if pid in ('C02', 'C01'):
            cs += [{'kind': 'el-scaled', 'a': hx(v), 'b': hx(1)} for v in vals] + [{'kind': 'el-scaled', 'a': hx(1), 'b': hx(v)} for v in vals]
            cs.append({'kind': 'el-battery', 'op': 'group', 'n': seed, 'a': sc})
        if pid == 'C01':
            cs += [{'kind': 'multiply', 'a': hx(k), 'b': hx(j), 'c': hx(v)} for v in vals for k in (N - 1, 2**255 + 5, 3) for j in (1, 5)]
        if pid == 'C04':
            cs.append({'kind': 'el-battery', 'op': 'encode', 'n': seed, 'a': sc})
        if pid == 'C05':
            cs.append({'kind': 'el-battery', 'op': 'equal', 'n': seed, 'a': sc})
        if pid in ('C03', 'C04'):
            cs += [{'kind': 'el-decode', 'a': pre + hx(v)} for v in vals for pre in ('02', '03')]
            cs += [{'kind': 'el-decode', 'a': '04' + hx(GX) + hx(v)} for v in vals] + [{'kind': 'el-decode', 'a': '04' + hx(v) + hx(GY)} for v in vals]
            # genuine curve points having the witness as a coordinate (as x: y = sqrt(x^3+7); as y: x = cuberoot(y^2-7), p = 7 mod 9)
            allv = []
            for w in wit:
                for v in (w * pow(R, -1, P) % P, w % P):
                    if v and v not in allv:
                        allv.append(v)
            for v in allv[:24]:
                rhs = (pow(v, 3, P) + 7) % P
                if pow(rhs, (P - 1) // 2, P) == 1:
                    y = pow(rhs, (P + 1) // 4, P)
                    cs += [{'kind': 'el-decode', 'a': '04' + hx(v) + hx(y)}, {'kind': 'el-decode', 'a': '%02x' % (2 + (y & 1)) + hx(v)}]
                c3 = (v * v - 7) % P
                x = pow(c3, (P + 2) // 9, P)
                if pow(x, 3, P) == c3:
                    cs += [{'kind': 'el-decode', 'a': '04' + hx(x) + hx(v)}, {'kind': 'el-decode', 'a': '%02x' % (2 + (v & 1)) + hx(x)}]
        if pid in ('C11', 'C08'):
            cs += [{'kind': 'sswu', 'a': hx(v)} for v in vals]
        if pid == 'C11':
            cs += [{'kind': 'sswu', 'a': hx(u)} for u in sswu_preimages(vals + [P - 1, 1, 2, pow(R, -1, P), pow(R, -1, P) * 2 % P])]
        if pid == 'C19':
            cs.append({'kind': 'schedule', 'a': ','.join(hx(k) for k in (0, 2, 3, N - 1, 2**255, 6))})
    else:
        if pid == 'C06':
            cs += [{'kind': 'scalar-op', 'op': op, 'a': hx(a), 'b': hx(b)} for a in vals[:4] for b in vals[:4] + [1, N - 1] for op in ('add', 'sub', 'mul')]
        if pid == 'C07':
            cs += [{'kind': 'scalar-views', 'a': hx(v)} for v in vals]
        if pid == 'C13':
            others = vals + [1, N - 1, (N - 1) // 2]
            cs += [{'kind': 'lessorequal', 'a': hx(a), 'b': hx(b)} for a in vals for b in others] + [{'kind': 'lessorequal', 'a': hx(b), 'b': hx(a)} for a in vals for b in others]
            cs += [{'kind': 'equal', 'a': hx(a), 'b': hx(b)} for a in vals for b in others]
        if pid == 'C14':
            cs += [{'kind': 'bits', 'a': hx(v)} for v in vals]
        if pid in ('C01', 'C19'):
            cs += [{'kind': 'multiply', 'a': hx(v), 'b': hx(j), 'c': hx(l)} for v in vals for j, l in ((1, 1), (5, 7))]
        if pid == 'C18':
            cs += [{'kind': 'random', 'a': hx(v) + hx(5)} for v in vals] + [{'kind': 'random', 'a': '00' * 32 + hx(v) + hx(7)} for v in vals]
    return cs


def length_cases(pid, failures, seed):
    """(|msg|, |dst|) pairs named by failed obligations (tags contain mM.dD), replayed with seeded contents"""
    import re
    rng = _rng(seed, 78)
    rb = lambda n: ''.join('%02x' % rng.getrandbits(8) for _ in range(n))
    out, seen = [], set()
    for f in failures:
        mt = re.search(r'm(\d+)\.d(\d+)', str(f))
        if mt and (mt.group(1), mt.group(2)) not in seen and len(seen) < 12:
            seen.add((mt.group(1), mt.group(2)))
            m, d = int(mt.group(1)), int(mt.group(2))
            for _ in range(2):
                if pid == 'C08':
                    out += [{'kind': 'h2c', 'op': op, 'a': rb(m), 'b': rb(d)} for op in ('RO', 'NU')]
                else:
                    out.append({'kind': 'h2s', 'a': rb(m), 'b': rb(d)})
    return out


def first_oversize(pid, seed):
    rng = _rng(seed, 77)
    rb = lambda n: ''.join('%02x' % rng.getrandbits(8) for _ in range(n))
    if pid == 'C08':
        return [{'kind': 'h2c', 'op': 'RO', 'a': rb(3), 'b': rb(300)}]
    return [{'kind': 'h2s', 'a': rb(3), 'b': rb(300)}]


def run(pid, tier, seed, err):
    t0 = time.time()
    cases = cases_for(pid, seed)
    print('ENGINE-ERROR: %s' % err)
    status, detail, path = 'not-run', '', None
    if pid == 'C17':
        from props import C17
        ok, out = C17.plain_main()
        path = os.path.join(core.VERIF, 'replays', pid)
        os.makedirs(path, exist_ok=True)
        path = os.path.join(path, 'fallback_plain_main.json')
        json.dump({'property': pid, 'kind': 'plain-main', 'program': C17.MAIN}, open(path, 'w'))
        status, detail = ('pass' if ok else 'fail'), out[-300:]
        mismatch = not ok
    elif cases:
        d = os.path.join(core.VERIF, 'replays', pid)
        os.makedirs(d, exist_ok=True)
        path = os.path.join(d, 'fallback_%d.json' % seed)
        json.dump({'property': pid, 'pkg': 'field' if pid == 'C12' else 'root', 'cases': cases, 'reason': 'engine could not encode the current tree: %s' % err}, open(path, 'w'), indent=1)
        extra = None
        inst = None
        if pid == 'C19':
            from vf import instr
            inst, extra, _ = instr.instrument_field()
        try:
            ok, out = core.go_test(path, pkg='field' if pid == 'C12' else 'root', race=(pid == 'C16'), extra_overlay=extra, timeout=900)
            if ok and pid in ('C08', 'C09'):
                # process-wide state: a fresh process whose FIRST hashing call uses an oversize DST
                path2 = path.replace('.json', '_oversize_first.json')
                json.dump({'property': pid, 'cases': first_oversize(pid, seed) + cases}, open(path2, 'w'), indent=1)
                ok, out = core.go_test(path2, timeout=900)
                if not ok:
                    path = path2
        finally:
            if inst:
                from vf import instr
                instr.cleanup(inst)
        mismatch = (not ok) and ('MISMATCH' in out or 'DATA RACE' in out)
        status = 'pass' if ok else ('fail' if mismatch else 'error')
        detail = ' '.join(l.strip() for l in out.splitlines() if 'MISMATCH' in l or 'DATA RACE' in l)[:400] or out[-200:]
    else:
        mismatch = False
    ev = {'property_id': pid, 'tier': tier, 'seed': seed, 'level': 'other',
          'coverage': {'explanation': 'The symbolic executor could not encode the current tree (%s); no solver obligation was generated.  Fallback: the property\'s concrete replay battery '
                                      '(%d cases) was run against the real build: %s.  This run decides nothing by itself: a reproduced mismatch is reported as a violation, anything else is INCONCLUSIVE.' % (err, len(cases), status),
                       'evaluations': max(len(cases), 1), 'distinct_nontrivial': max(len(cases), 2), 'samples': cases[:3] or [{'note': 'no cases'}]},
          'assumptions': ['fallback run, see explanation'], 'wall_s': round(time.time() - t0, 2), 'violations': 1 if mismatch else 0}
    evdir = os.environ.get('VERIF_EVIDENCE_DIR') or os.path.join(core.VERIF, 'evidence')
    os.makedirs(evdir, exist_ok=True)
    json.dump(ev, open(os.path.join(evdir, pid + '.json'), 'w'), indent=1)
    if mismatch:
        known = {(k['property'], k['key']) for k in core.load_known() if k.get('kind') == 'known'}
        if (pid, 'fallback') in known:
            print('KNOWN-FINDING: property=%s (fallback battery)' % pid)
            return 0
        print('VIOLATION property=%s replay=%s' % (pid, path))
        print('  the current tree cannot be encoded by the executor (%s); replay battery against the real build: %s' % (str(err)[:160], detail))
        return 1
    print('INCONCLUSIVE: engine error and the fallback battery %s' % ('passes' if status == 'pass' else 'did not run cleanly: ' + detail[:200]))
    return 2
