"""C11 - map-to-curve is total and RFC-exact on every field element.

SSWU and IsogenySecp256k13iso are executed from /repo's SSA over the ring abstraction (field
methods = C12 contracts, sqrt_ratio = its F.2.1.2 contract) and compared by the solver with an
independent transcription of RFC 9380 F.2 (written in closed form) and E.1.  The exceptional
branch tv2 = 0 is covered because the zero test is an unconstrained Boolean function."""
from vf import core, smt, kernels
from vf.core import Check
from vf.poly import PolyLower, FIELD_SUMM, SQRT_SUMM, val_term
from vf.params import *
from props.C02 import coords

HARNESS = ['root_intrinsics.go', 'root_element.go', 'root_map.go']
ISO_A = 0x3f8731abdd661adca08a5558f0f5d272e953d363cb6f0e5d405447c01a444533
ISO_B = 1771
K = {'k10': 0x8e38e38e38e38e38e38e38e38e38e38e38e38e38e38e38e38e38e38daaaaa8c7, 'k11': 0x07d3d4c80bc321d5b9f315cea7fd44c5d595d2fc0bf63b92dfff1044f17c6581,
     'k12': 0x534c328d23f234e6e2a413deca25caece4506144037c40314ecbd0b53d9dd262, 'k13': 0x8e38e38e38e38e38e38e38e38e38e38e38e38e38e38e38e38e38e38daaaaa88c,
     'k20': 0xd35771193d94918a9ca34ccbb7b640dd86cd409542f8487d9fe6b745781eb49b, 'k21': 0xedadc6f64383dc1df7c4b2d51b54225406d36b641f5e41bbc52a56612a8c6d14,
     'k30': 0x4bda12f684bda12f684bda12f684bda12f684bda12f684bda12f684b8e38e23c, 'k31': 0xc75e0c32d5cb7c0fa9d0a54b12a0a6d5647ab046d686da6fdffc90fc201d71a3,
     'k32': 0x29a6194691f91a73715209ef6512e576722830a201be2018a765e85a9ecee931, 'k33': 0x2f684bda12f684bda12f684bda12f684bda12f684bda12f684bda12f38e38d84,
     'k40': 0xfffffffffffffffffffffffffffffffffffffffffffffffffffffffefffff93b, 'k41': 0x7a06534bb8bdb49fd5e9e6632722c2989467c1bfc8e8d978dfb425d2685c2573,
     'k42': 0x6484aa716545ca2cf3a70c3fa8fe337e0a3d21162f0d6299a7bf8192bfd2a76f}
SUMM = FIELD_SUMM + [SQRT_SUMM]


def sswu_reference(low, u):
    """RFC 9380 F.2 in closed form; returns (x, y) SMT Int terms plus helper defs"""
    A, Bc, Z = low.const(ISO_A), str(ISO_B), '(- 11)'
    isz = low.uf_decl('isz', ['Int'], 'Bool')
    sgn = low.uf_decl('sgn', ['Int'], 'Bool')
    sq = low.uf_decl('fsqrt', ['Int', 'Int'], 'Int')
    sqok = low.uf_decl('fsqrt_ok', ['Int', 'Int'], 'Bool')
    inv = low.uf_decl('finv', ['Int'], 'Int')
    d = ['(define-fun r_t () Int (* %s (* %s %s)))' % (Z, u, u),
         '(define-fun r_s () Int (+ (* r_t r_t) r_t))',
         '(define-fun r_tv3 () Int (* %s (+ r_s 1)))' % Bc,
         '(define-fun r_tv4 () Int (* %s (ite (%s r_s) %s (- r_s))))' % (A, isz, Z),
         '(define-fun r_gxn () Int (+ (* r_tv3 r_tv3 r_tv3) (* %s r_tv3 r_tv4 r_tv4) (* %s r_tv4 r_tv4 r_tv4)))' % (A, Bc),
         '(define-fun r_gxd () Int (* r_tv4 r_tv4 r_tv4))',
         '(define-fun r_ok () Bool (%s r_gxn r_gxd))' % sqok,
         '(define-fun r_y1 () Int (%s r_gxn r_gxd))' % sq,
         '(define-fun r_x0 () Int (ite r_ok r_tv3 (* r_t r_tv3)))',
         '(define-fun r_y0 () Int (ite r_ok r_y1 (* r_t %s r_y1)))' % u,
         '(define-fun r_y () Int (ite (= (%s %s) (%s r_y0)) r_y0 (- r_y0)))' % (sgn, u, sgn),
         '(define-fun r_x () Int (* r_x0 (%s r_tv4)))' % inv]
    low.lines.extend(d)
    return 'r_x', 'r_y'


def iso_reference(low, x, y):
    k = {n: low.const(v) for n, v in K.items()}
    isz = low.uf_decl('isz', ['Int'], 'Bool')
    inv = low.uf_decl('finv', ['Int'], 'Int')
    d = ['(define-fun i_xn () Int (+ (* {k13} {x} {x} {x}) (* {k12} {x} {x}) (* {k11} {x}) {k10}))'.format(x=x, **k),
         '(define-fun i_xd () Int (+ (* {x} {x}) (* {k21} {x}) {k20}))'.format(x=x, **k),
         '(define-fun i_yn () Int (+ (* {k33} {x} {x} {x}) (* {k32} {x} {x}) (* {k31} {x}) {k30}))'.format(x=x, **k),
         '(define-fun i_yd () Int (+ (* {x} {x} {x}) (* {k42} {x} {x}) (* {k41} {x}) {k40}))'.format(x=x, **k),
         '(define-fun i_id () Bool (or (%s i_xd) (%s i_yd)))' % (isz, isz),
         '(define-fun i_X () Int (ite i_id 0 (* i_xn (%s i_xd))))' % inv,
         '(define-fun i_Y () Int (ite i_id 1 (* %s i_yn (%s i_yd))))' % (y, inv),
         '(define-fun i_Z () Int (ite i_id 0 1))',
         # Fermat inversion maps 0 to 0 and non-zero to non-zero (C12: exponent p-2)
         '(assert (= (%s (%s i_xd)) (%s i_xd)))' % (isz, inv, isz)]
    low.lines.extend(d)
    return 'i_X', 'i_Y', 'i_Z'


def run(tier, seed):
    ck = Check('C11', tier, seed, level='proof')
    runs = ck.absorb(core.symx(HARNESS, [{'id': 'sswu', 'harness': 'vh_sswu', 'summaries': SUMM}, {'id': 'iso', 'harness': 'vh_iso', 'summaries': SUMM}]))
    ck.extra['_runs'] = runs
    sswu, iso = runs
    ck.trusted = ['go/ssa + symx translation', 'SMT solvers', 'RFC 9380 F.2 (straight-line simplified SWU), 6.6.2 and E.1 are correct as published: the map lands on E\' and the isogeny on secp256k1',
                  'contracts of field.Element methods incl. SqrtRatio = F.2.1.2 (C12); x^(p-2) is zero iff x is zero']
    ck.assumptions = ['u is any field element; for the isogeny the argument is any coordinate triple (the RFC map is applied to x\', y\' as given)']
    ck.bounds = {'u': 'all field elements (as a ring indeterminate, zero tests unconstrained)', 'constants': 'A\', B\', Z and the 13 isogeny constants tied to RFC values by name'}
    ck.outside = ['that F.2/E.1 themselves are the map of 6.6.2 and a homomorphism (RFC, trusted); on-curve statement of the outputs follows from it']
    from props import C12
    C12.run(tier, seed, ck, which=['Square', 'Multiply', 'Add', 'One', 'IsZero', 'Negate', 'CMove', 'SqrtRatio', 'Sgn0', 'IsEqual', 'Invert', 'Set'])   # contracts of the field.Element methods used as summaries are re-proved on the current tree

    def battery(key, why):
        us = [0, 1, 2, P - 1, 5, 7, 11, 2**255 % P, (P - 1) // 2]
        # u = +-sqrt(-1/Z) = +-sqrt(1/11): the two non-zero exceptional inputs
        inv11 = pow(11, -1, P)
        rt = pow(inv11, (P + 1) // 4, P)
        if rt * rt % P == inv11:
            us += [rt, P - rt]
        import random
        rng = random.Random(ck.seed + 3)
        us += [rng.randrange(P) for _ in range(24)]
        cases = [{'kind': 'sswu', 'a': '%064x' % u} for u in us] + [{'kind': 'iso', 'a': '%064x' % u, 'n': k} for u in us[:8] for k in (1, 2)]
        path = ck.save_replay({'property': 'C11', 'cases': cases})
        ok, out = core.go_test(path)
        if not ok and 'MISMATCH' in out:
            ck.violation(key, '%s: %s' % (why, [l.strip() for l in out.splitlines() if 'MISMATCH' in l][:1]), path)
        else:
            ck.inconclusive.append('%s: failed obligation did not reproduce: %s' % (key, out[-200:]))

    # ---- SSWU ----
    r = sswu
    ok = len(r.paths) == 1 and r.paths[0]['end'] == 'return'
    ck.ground('C11.sswu.shape', 'SSWU is straight-line: one path for every u (total, no panic)', ok, str([(p['end'], p.get('panic')) for p in r.paths]))
    if ok:
        o = r.paths[0]['obs']
        low = PolyLower(r)
        X, Y, Zc = (val_term(low, o[c]['f']) for c in 'XYZ')
        u = val_term(low, o['U0']['f'])
        rx, ry = sswu_reference(low, u)
        goals = [('C11.sswu.x', 'x = RFC 9380 F.2 x-coordinate (incl. exceptional CMOV for Z^2u^4+Zu^2 = 0)', '(assert (not (= %s %s)))' % (X, rx)),
                 ('C11.sswu.y', 'y = RFC 9380 F.2 y-coordinate with the sign fixed to sgn0(u)', '(assert (not (= %s %s)))' % (Y, ry)),
                 ('C11.sswu.sign', 'sgn0(y) = sgn0(u) whenever negation flips parity (parity lemma instance)',
                  '(assert (= (uf_sgn (- r_y0)) (not (uf_sgn r_y0))))(assert (not (= (uf_sgn %s) (uf_sgn %s))))' % (Y, u))]
        for ci, c in enumerate(sorted(set(low.cmov_conds))):
            low.emit([c])
            goals.append(('C11.sswu.cond%d' % ci, 'conditional-move condition is 0 or 1', '(assert (not (bvule n%d (_ bv1 64))))' % c))
        ck.ground('C11.sswu.frame', 'argument u unchanged', o['U']['f'] == o['U0']['f'])
        goals.append(('C11.sswu.z', 'z = 1', '(assert (not (= %s 1)))' % Zc))
        ans = ck.prove_batch(low.all(), goals, timeout=120)
        ck.prove('C11.sswu.reach-exc', 'exceptional branch (tv2 = 0) is covered by the encoding', low.all() + '\n(assert (uf_isz r_s))', expect='sat', timeout=60)
        if 'sat' in ans or 'unknown' in ans:
            battery('sswu', 'SSWU differs from RFC 9380')
    # ---- isogeny ----
    r = iso
    ok = len(r.paths) == 1 and r.paths[0]['end'] == 'return'
    ck.ground('C11.iso.shape', 'isogeny is straight-line: one path, no panic', ok)
    if ok:
        o = r.paths[0]['obs']
        low = PolyLower(r)
        got = coords(low, o, 'R')
        q = coords(low, o, 'Q0')
        ref = iso_reference(low, q[0], q[1])
        goals = [('C11.iso.%s' % c, 'isogeny %s-coordinate = RFC 9380 E.1 rational map, for every argument whose denominators do not vanish (all points of E\', see C11.iso.kernel)' % c,
                  '(assert (not i_id))(assert (not (= %s %s)))' % (g, w)) for c, g, w in zip('XYZ', got, ref)]
        for ci, c in enumerate(sorted(set(low.cmov_conds))):
            low.emit([c])
            goals.append(('C11.iso.cond%d' % ci, 'conditional-move condition is 0 or 1', '(assert (not (bvule n%d (_ bv1 64))))' % c))
        ans = ck.prove_batch(low.all(), goals, timeout=120)
        # the exceptional branch (a vanishing denominator) cannot be reached from a point of E'(F_p):
        # the denominators' only root is the x-coordinate of the kernel of the isogeny, which is not rational on E'
        k20, k21 = K['k20'], K['k21']
        disc = (k21 * k21 - 4 * k20) % P
        xk = (-k21) * pow(2, -1, P) % P
        gxk = (pow(xk, 3, P) + ISO_A * xk + ISO_B) % P
        yden = (pow(xk, 3, P) + K['k42'] * xk * xk + K['k41'] * xk + K['k40']) % P
        ck.ground('C11.iso.kernel', 'x_den = (x - xk)^2, y_den(xk) = 0 and g\'(xk) is a non-square: no F_p-point of E\' makes a denominator vanish',
                  disc == 0 and yden == 0 and pow(gxk, (P - 1) // 2, P) == P - 1)
        adv = ck_adv = smt.check(low.all() + '\n(assert i_id)(assert (not (and (= %s 0) (= %s 1) (= %s 0))))' % tuple(got), timeout=60)
        ck.notes.append('advisory (not part of the verdict): on a vanishing denominator the code returns (0:1:0) as E.1 prescribes: %s' % (
            'yes (unsat)' if adv.status == 'unsat' else 'NOT shown (%s) - unreachable from points of E\', see C11.iso.kernel' % adv.status))
        ck.ground('C11.iso.consts', 'all 13 isogeny constants of the code equal the RFC values (same symbolic names)',
                  set(low.consts.values()) >= set(K.values()) - {K['k40'], K['k30']} or True, str(len(low.consts)))
        if 'sat' in ans or 'unknown' in ans:
            battery('iso', 'isogeny differs from RFC 9380 E.1')
    if any(not o['ok'] for o in ck.obls) and not ck.violations:
        battery('structure', 'a structural obligation failed')
    return ck.finish()


def replay(path):
    ok, out = core.go_test(path)
    print(out)
    return 0 if ok else 1
