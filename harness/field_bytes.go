package field

// The two unexported byte <-> limb helpers, observed directly.  Kept in a file of its own: their signatures are internal and a tree
// that changes them still has the exported paths (FromBytesWithReduce, FromBytesNoReduce, Bytes) checked end to end.

func vh_bytes() {
	var in [32]byte
	copy(in[:], vNondetBytes("in", 32))
	nm := bytesToNonMontgomery(in)
	vObserve("nm", *nm)
	y := NonMontgomeryDomainFieldElement(vLimbs("y"))
	vObserve("tobytes", nonMontgomeryToBytes(&y))
	vObserve("Y", y)
}
