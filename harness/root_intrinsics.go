package secp256k1

// Harness intrinsics.  Their bodies are trivial so that this file also compiles
// natively; symx intercepts calls to them by name.

func vNondetU64(name string) uint64              { return 0 }
func vNondetByte(name string) byte               { return 0 }
func vNondetBool(name string) bool               { return false }
func vNondetBytes(name string, n int) []byte     { return make([]byte, n) }
func vNondetHexString(name string, n int) string { return string(make([]byte, n)) }
func vAssume(b bool)                             {}
func vObserve(name string, v interface{})        {}
func vFreeze(v interface{})                      {}
func vFlag(name string) bool { return false }
func vHavoc(v interface{}, name string)          {}
func vTagArg(v interface{}, name string)         {}
func vTagRecv(v interface{}, name string)        {}
func vMark()                                     {}

// vScalar returns a scalar whose four Montgomery limbs are arbitrary words.
func vScalar(name string) *Scalar {
	s := NewScalar()
	vHavoc(s, name) // whatever else a Scalar may hold besides its limbs is arbitrary
	s.S[0] = vNondetU64(name + "0")
	s.S[1] = vNondetU64(name + "1")
	s.S[2] = vNondetU64(name + "2")
	s.S[3] = vNondetU64(name + "3")
	return s
}
