package secp256k1

// ---- C11 ----

func vh_sswu() {
	u := vFe("u")
	u0 := u
	e := SSWU(&u)
	vObserve("X", e.x.E)
	vObserve("Y", e.y.E)
	vObserve("Z", e.z.E)
	vObserve("U0", u0.E)
	vObserve("U", u.E)
}

func vh_iso() {
	q := vElement("q")
	q0 := *q
	r := IsogenySecp256k13iso(q)
	vObserve("same", r == q)
	vObserveEl("Q0", &q0)
	vObserveEl("R", r)
}
