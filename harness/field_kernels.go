package field

// Kernel harnesses: every Fiat kernel is called on arbitrary limb vectors, in every
// output/argument aliasing the callers use.

func vh_mul() {
	a := MontgomeryDomainFieldElement(vLimbs("a"))
	b := MontgomeryDomainFieldElement(vLimbs("b"))
	var o MontgomeryDomainFieldElement
	Mul(&o, &a, &b)
	a1 := a
	Mul(&a1, &a1, &b)
	b2 := b
	Mul(&b2, &a, &b2)
	vObserve("out", o)
	vObserve("alias1", a1)
	vObserve("alias2", b2)
	vObserve("a", a)
	vObserve("b", b)
}

func vh_mulself() {
	a := MontgomeryDomainFieldElement(vLimbs("a"))
	var o MontgomeryDomainFieldElement
	Mul(&o, &a, &a)
	a1 := a
	Mul(&a1, &a1, &a1)
	vObserve("out", o)
	vObserve("alias1", a1)
	vObserve("a", a)
}

func vh_square() {
	a := MontgomeryDomainFieldElement(vLimbs("a"))
	var o MontgomeryDomainFieldElement
	Square(&o, &a)
	a1 := a
	Square(&a1, &a1)
	vObserve("out", o)
	vObserve("alias1", a1)
	vObserve("a", a)
}

func vh_add() {
	a := MontgomeryDomainFieldElement(vLimbs("a"))
	b := MontgomeryDomainFieldElement(vLimbs("b"))
	var o MontgomeryDomainFieldElement
	Add(&o, &a, &b)
	a1 := a
	Add(&a1, &a1, &b)
	b2 := b
	Add(&b2, &a, &b2)
	vObserve("out", o)
	vObserve("alias1", a1)
	vObserve("alias2", b2)
	vObserve("a", a)
	vObserve("b", b)
}

func vh_addself() {
	a := MontgomeryDomainFieldElement(vLimbs("a"))
	var o MontgomeryDomainFieldElement
	Add(&o, &a, &a)
	a1 := a
	Add(&a1, &a1, &a1)
	vObserve("out", o)
	vObserve("alias1", a1)
	vObserve("a", a)
}

func vh_sub() {
	a := MontgomeryDomainFieldElement(vLimbs("a"))
	b := MontgomeryDomainFieldElement(vLimbs("b"))
	var o MontgomeryDomainFieldElement
	Sub(&o, &a, &b)
	a1 := a
	Sub(&a1, &a1, &b)
	b2 := b
	Sub(&b2, &a, &b2)
	vObserve("out", o)
	vObserve("alias1", a1)
	vObserve("alias2", b2)
	vObserve("a", a)
	vObserve("b", b)
}

func vh_subself() {
	a := MontgomeryDomainFieldElement(vLimbs("a"))
	a1 := a
	Sub(&a1, &a1, &a1)
	vObserve("out", a1)
	vObserve("a", a)
}

func vh_opp() {
	a := MontgomeryDomainFieldElement(vLimbs("a"))
	var o MontgomeryDomainFieldElement
	Opp(&o, &a)
	a1 := a
	Opp(&a1, &a1)
	vObserve("out", o)
	vObserve("alias1", a1)
	vObserve("a", a)
}

func vh_from() {
	a := MontgomeryDomainFieldElement(vLimbs("a"))
	var o NonMontgomeryDomainFieldElement
	FromMontgomery(&o, &a)
	vObserve("out", o)
	vObserve("a", a)
}

func vh_to() {
	a := NonMontgomeryDomainFieldElement(vLimbs("a"))
	var o MontgomeryDomainFieldElement
	ToMontgomery(&o, &a)
	vObserve("out", o)
	vObserve("a", a)
}

func vh_setone() {
	var o MontgomeryDomainFieldElement
	SetOne(&o)
	vObserve("out", o)
}

func vh_selectznz() {
	a := vLimbs("a")
	b := vLimbs("b")
	c := vNondetU64("c")
	var o [4]uint64
	Selectznz(&o, uint1(c), &a, &b)
	a1 := a
	Selectznz(&a1, uint1(c), &a1, &b)
	b2 := b
	Selectznz(&b2, uint1(c), &a, &b2)
	var w uint64
	cmovznzU64(&w, uint1(c), a[0], b[0])
	vObserve("out", o)
	vObserve("alias1", a1)
	vObserve("alias2", b2)
	vObserve("cmov", w)
	vObserve("a", a)
	vObserve("b", b)
}

func vh_nonzero() {
	a := vLimbs("a")
	var w uint64
	Nonzero(&w, &a)
	vObserve("out", w)
	vObserve("a", a)
	vObserve("isz", IsZero(vNondetU64("u")))
	vObserve("isnz", IsNonZero(vNondetU64("u")))
}

// constants: kernels on concrete inputs fold to concrete outputs inside symx
func vh_consts() {
	var one, z, o MontgomeryDomainFieldElement
	SetOne(&one)
	var n NonMontgomeryDomainFieldElement
	FromMontgomery(&n, &one)
	vObserve("from_one", n)
	FromMontgomery(&n, &z)
	vObserve("from_zero", n)
	nz := NonMontgomeryDomainFieldElement{}
	ToMontgomery(&o, &nz)
	vObserve("to_zero", o)
	n1 := NonMontgomeryDomainFieldElement{1, 0, 0, 0}
	ToMontgomery(&o, &n1)
	vObserve("to_one", o)
	vObserve("one", one)
}
