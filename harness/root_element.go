package secp256k1

import "github.com/bytemare/secp256k1/internal/field"

func vFe(name string) field.Element {
	var e field.Element
	e.E[0] = vNondetU64(name + "0")
	e.E[1] = vNondetU64(name + "1")
	e.E[2] = vNondetU64(name + "2")
	e.E[3] = vNondetU64(name + "3")
	return e
}

// vElement returns an element whose three projective coordinates are arbitrary field values.
func vElement(name string) *Element {
	e := &Element{}
	vHavoc(e, name) // whatever else an Element may hold besides its coordinates is arbitrary
	e.x, e.y, e.z = vFe(name+"x"), vFe(name+"y"), vFe(name+"z")
	return e
}

func vObserveEl(name string, e *Element) {
	vObserve(name+".x", e.x.E)
	vObserve(name+".y", e.y.E)
	vObserve(name+".z", e.z.E)
}

// ---- C02 ----
// op: 0 Add, 1 Subtract ; alias: 0 distinct, 1 argument is the receiver, 2 nil
func vh_el_op2(op, alias int) {
	p := vElement("p")
	q := vElement("q")
	switch alias {
	case 1:
		q = p
	case 2:
		q = nil
	}
	if q != nil && alias == 0 {
		vFreeze(q)
	}
	p0 := *p
	var r *Element
	switch op {
	case 0:
		r = p.Add(q)
	case 1:
		r = p.Subtract(q)
	}
	vObserve("same", r == p)
	vObserveEl("P0", &p0)
	vObserveEl("P", p)
	if q != nil {
		vObserveEl("Q", q)
	}
}

// op: 2 Double, 3 Negate
func vh_el_op1(op int) {
	p := vElement("p")
	p0 := *p
	var r *Element
	switch op {
	case 2:
		r = p.Double()
	case 3:
		r = p.Negate()
	}
	vObserve("same", r == p)
	vObserveEl("P0", &p0)
	vObserveEl("P", p)
}

// ---- C05 ----
func vh_el_equal(alias int) {
	p := vElement("p")
	q := vElement("q")
	if alias == 1 {
		q = p
	}
	vFreeze(p)
	vFreeze(q)
	vObserve("eq", p.Equal(q))
	vObserve("qe", q.Equal(p))
	vObserve("isid", p.IsIdentity())
	vObserveEl("P", p)
	vObserveEl("Q", q)
}

// ---- C04 ----
// kind: 0 Encode, 1 EncodeUncompressed, 2 XCoordinate, 3 MarshalBinary
func vh_el_encode(kind int) {
	p := vElement("p")
	p0 := *p
	vFreeze(p)
	vMark()
	var out []byte
	var err error
	switch kind {
	case 0:
		out = p.Encode()
	case 1:
		out = p.EncodeUncompressed()
	case 2:
		out = p.XCoordinate()
	case 3:
		out, err = p.MarshalBinary()
	}
	vObserve("out", out)
	vObserve("err", err)
	vObserveEl("P0", &p0)
	vObserveEl("P", p)
}

func vh_el_hex() {
	p := vElement("p")
	vFreeze(p)
	h := p.Hex()
	vObserve("hex", h)
	vObserve("enc", p.Encode())
}

// ---- C03 ----
// via: 0 Decode, 1 DecodeCompressed, 2 DecodeUncompressed, 3 UnmarshalBinary
func vh_el_decode(n int, via int) {
	data := vNondetBytes("in", n)
	e := vElement("e")
	e0 := *e
	vFreeze(data)
	var err error
	switch via {
	case 0:
		err = e.Decode(data)
	case 1:
		err = e.DecodeCompressed(data)
	case 2:
		err = e.DecodeUncompressed(data)
	case 3:
		err = e.UnmarshalBinary(data)
	}
	vObserve("err", err)
	vObserveEl("E0", &e0)
	vObserveEl("E", e)
}

func vh_el_decode_nil(via int) {
	e := vElement("e")
	e0 := *e
	var err error
	switch via {
	case 0:
		err = e.Decode(nil)
	case 1:
		err = e.DecodeCompressed(nil)
	case 2:
		err = e.DecodeUncompressed(nil)
	case 3:
		err = e.UnmarshalBinary(nil)
	}
	vObserve("err", err)
	vObserveEl("E0", &e0)
	vObserveEl("E", e)
}

func vh_el_decodecoords() {
	var x, y [32]byte
	copy(x[:], vNondetBytes("x", 32))
	copy(y[:], vNondetBytes("y", 32))
	e := vElement("e")
	e0 := *e
	err := e.DecodeCoordinates(x, y)
	vObserve("err", err)
	vObserveEl("E0", &e0)
	vObserveEl("E", e)
}

func vh_el_decodehex(n int) {
	h := vNondetHexString("h", n)
	e := vElement("e")
	e0 := *e
	err := e.DecodeHex(h)
	vObserve("err", err)
	vObserveEl("E0", &e0)
	vObserveEl("E", e)
}

// ---- C01 / C19 ----
func vh_multiply() {
	p := vElement("p")
	s := vScalar("s")
	vFreeze(s)
	p0 := *p
	r := p.Multiply(s)
	vObserve("same", r == p)
	vObserveEl("P0", &p0)
	vObserveEl("P", p)
	vObserve("S", s.S)
}

func vh_multiply_nil() {
	p := vElement("p")
	r := p.Multiply(nil)
	vObserve("same", r == p)
	vObserveEl("P", p)
}

// identity producers on a receiver in an arbitrary prior state (C05 / C10)
func vh_el_identity(kind int) {
	e := vElement("e")
	switch kind {
	case 0:
		e.Identity()
	case 1:
		vAssume(e.Decode([]byte{0}) == nil)
	case 2:
		e.Multiply(nil)
	case 3:
		e = NewElement()
	}
	vObserveEl("E", e)
}
