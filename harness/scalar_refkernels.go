package scalar

// Reference copies of the Fiat kernels (taken from the pinned tree, where each was proved against its
// contract by vf/kernels.py) for differential witness search: a mutated kernel is compared with its reference in
// QF_BV and the solver supplies inputs on which they differ.

import "math/bits"

func vrefcmovznzU64(out1 *uint64, arg1 uint1, arg2 uint64, arg3 uint64) {
	x1 := (uint64(arg1) * 0xffffffffffffffff)
	x2 := ((x1 & arg3) | ((^x1) & arg2))
	*out1 = x2
}

func vrefMul(out1 *MontgomeryDomainFieldElement, arg1 *MontgomeryDomainFieldElement, arg2 *MontgomeryDomainFieldElement) {
	x1 := arg1[1]
	x2 := arg1[2]
	x3 := arg1[3]
	x4 := arg1[0]
	var x5 uint64
	var x6 uint64
	x6, x5 = bits.Mul64(x4, arg2[3])
	var x7 uint64
	var x8 uint64
	x8, x7 = bits.Mul64(x4, arg2[2])
	var x9 uint64
	var x10 uint64
	x10, x9 = bits.Mul64(x4, arg2[1])
	var x11 uint64
	var x12 uint64
	x12, x11 = bits.Mul64(x4, arg2[0])
	var x13 uint64
	var x14 uint64
	x13, x14 = bits.Add64(x12, x9, uint64(0x0))
	var x15 uint64
	var x16 uint64
	x15, x16 = bits.Add64(x10, x7, uint64(uint1(x14)))
	var x17 uint64
	var x18 uint64
	x17, x18 = bits.Add64(x8, x5, uint64(uint1(x16)))
	x19 := (uint64(uint1(x18)) + x6)
	var x20 uint64
	_, x20 = bits.Mul64(x11, 0x4b0dff665588b13f)
	var x22 uint64
	var x23 uint64
	x23, x22 = bits.Mul64(x20, 0xffffffffffffffff)
	var x24 uint64
	var x25 uint64
	x25, x24 = bits.Mul64(x20, 0xfffffffffffffffe)
	var x26 uint64
	var x27 uint64
	x27, x26 = bits.Mul64(x20, 0xbaaedce6af48a03b)
	var x28 uint64
	var x29 uint64
	x29, x28 = bits.Mul64(x20, 0xbfd25e8cd0364141)
	var x30 uint64
	var x31 uint64
	x30, x31 = bits.Add64(x29, x26, uint64(0x0))
	var x32 uint64
	var x33 uint64
	x32, x33 = bits.Add64(x27, x24, uint64(uint1(x31)))
	var x34 uint64
	var x35 uint64
	x34, x35 = bits.Add64(x25, x22, uint64(uint1(x33)))
	x36 := (uint64(uint1(x35)) + x23)
	var x38 uint64
	_, x38 = bits.Add64(x11, x28, uint64(0x0))
	var x39 uint64
	var x40 uint64
	x39, x40 = bits.Add64(x13, x30, uint64(uint1(x38)))
	var x41 uint64
	var x42 uint64
	x41, x42 = bits.Add64(x15, x32, uint64(uint1(x40)))
	var x43 uint64
	var x44 uint64
	x43, x44 = bits.Add64(x17, x34, uint64(uint1(x42)))
	var x45 uint64
	var x46 uint64
	x45, x46 = bits.Add64(x19, x36, uint64(uint1(x44)))
	var x47 uint64
	var x48 uint64
	x48, x47 = bits.Mul64(x1, arg2[3])
	var x49 uint64
	var x50 uint64
	x50, x49 = bits.Mul64(x1, arg2[2])
	var x51 uint64
	var x52 uint64
	x52, x51 = bits.Mul64(x1, arg2[1])
	var x53 uint64
	var x54 uint64
	x54, x53 = bits.Mul64(x1, arg2[0])
	var x55 uint64
	var x56 uint64
	x55, x56 = bits.Add64(x54, x51, uint64(0x0))
	var x57 uint64
	var x58 uint64
	x57, x58 = bits.Add64(x52, x49, uint64(uint1(x56)))
	var x59 uint64
	var x60 uint64
	x59, x60 = bits.Add64(x50, x47, uint64(uint1(x58)))
	x61 := (uint64(uint1(x60)) + x48)
	var x62 uint64
	var x63 uint64
	x62, x63 = bits.Add64(x39, x53, uint64(0x0))
	var x64 uint64
	var x65 uint64
	x64, x65 = bits.Add64(x41, x55, uint64(uint1(x63)))
	var x66 uint64
	var x67 uint64
	x66, x67 = bits.Add64(x43, x57, uint64(uint1(x65)))
	var x68 uint64
	var x69 uint64
	x68, x69 = bits.Add64(x45, x59, uint64(uint1(x67)))
	var x70 uint64
	var x71 uint64
	x70, x71 = bits.Add64(uint64(uint1(x46)), x61, uint64(uint1(x69)))
	var x72 uint64
	_, x72 = bits.Mul64(x62, 0x4b0dff665588b13f)
	var x74 uint64
	var x75 uint64
	x75, x74 = bits.Mul64(x72, 0xffffffffffffffff)
	var x76 uint64
	var x77 uint64
	x77, x76 = bits.Mul64(x72, 0xfffffffffffffffe)
	var x78 uint64
	var x79 uint64
	x79, x78 = bits.Mul64(x72, 0xbaaedce6af48a03b)
	var x80 uint64
	var x81 uint64
	x81, x80 = bits.Mul64(x72, 0xbfd25e8cd0364141)
	var x82 uint64
	var x83 uint64
	x82, x83 = bits.Add64(x81, x78, uint64(0x0))
	var x84 uint64
	var x85 uint64
	x84, x85 = bits.Add64(x79, x76, uint64(uint1(x83)))
	var x86 uint64
	var x87 uint64
	x86, x87 = bits.Add64(x77, x74, uint64(uint1(x85)))
	x88 := (uint64(uint1(x87)) + x75)
	var x90 uint64
	_, x90 = bits.Add64(x62, x80, uint64(0x0))
	var x91 uint64
	var x92 uint64
	x91, x92 = bits.Add64(x64, x82, uint64(uint1(x90)))
	var x93 uint64
	var x94 uint64
	x93, x94 = bits.Add64(x66, x84, uint64(uint1(x92)))
	var x95 uint64
	var x96 uint64
	x95, x96 = bits.Add64(x68, x86, uint64(uint1(x94)))
	var x97 uint64
	var x98 uint64
	x97, x98 = bits.Add64(x70, x88, uint64(uint1(x96)))
	x99 := (uint64(uint1(x98)) + uint64(uint1(x71)))
	var x100 uint64
	var x101 uint64
	x101, x100 = bits.Mul64(x2, arg2[3])
	var x102 uint64
	var x103 uint64
	x103, x102 = bits.Mul64(x2, arg2[2])
	var x104 uint64
	var x105 uint64
	x105, x104 = bits.Mul64(x2, arg2[1])
	var x106 uint64
	var x107 uint64
	x107, x106 = bits.Mul64(x2, arg2[0])
	var x108 uint64
	var x109 uint64
	x108, x109 = bits.Add64(x107, x104, uint64(0x0))
	var x110 uint64
	var x111 uint64
	x110, x111 = bits.Add64(x105, x102, uint64(uint1(x109)))
	var x112 uint64
	var x113 uint64
	x112, x113 = bits.Add64(x103, x100, uint64(uint1(x111)))
	x114 := (uint64(uint1(x113)) + x101)
	var x115 uint64
	var x116 uint64
	x115, x116 = bits.Add64(x91, x106, uint64(0x0))
	var x117 uint64
	var x118 uint64
	x117, x118 = bits.Add64(x93, x108, uint64(uint1(x116)))
	var x119 uint64
	var x120 uint64
	x119, x120 = bits.Add64(x95, x110, uint64(uint1(x118)))
	var x121 uint64
	var x122 uint64
	x121, x122 = bits.Add64(x97, x112, uint64(uint1(x120)))
	var x123 uint64
	var x124 uint64
	x123, x124 = bits.Add64(x99, x114, uint64(uint1(x122)))
	var x125 uint64
	_, x125 = bits.Mul64(x115, 0x4b0dff665588b13f)
	var x127 uint64
	var x128 uint64
	x128, x127 = bits.Mul64(x125, 0xffffffffffffffff)
	var x129 uint64
	var x130 uint64
	x130, x129 = bits.Mul64(x125, 0xfffffffffffffffe)
	var x131 uint64
	var x132 uint64
	x132, x131 = bits.Mul64(x125, 0xbaaedce6af48a03b)
	var x133 uint64
	var x134 uint64
	x134, x133 = bits.Mul64(x125, 0xbfd25e8cd0364141)
	var x135 uint64
	var x136 uint64
	x135, x136 = bits.Add64(x134, x131, uint64(0x0))
	var x137 uint64
	var x138 uint64
	x137, x138 = bits.Add64(x132, x129, uint64(uint1(x136)))
	var x139 uint64
	var x140 uint64
	x139, x140 = bits.Add64(x130, x127, uint64(uint1(x138)))
	x141 := (uint64(uint1(x140)) + x128)
	var x143 uint64
	_, x143 = bits.Add64(x115, x133, uint64(0x0))
	var x144 uint64
	var x145 uint64
	x144, x145 = bits.Add64(x117, x135, uint64(uint1(x143)))
	var x146 uint64
	var x147 uint64
	x146, x147 = bits.Add64(x119, x137, uint64(uint1(x145)))
	var x148 uint64
	var x149 uint64
	x148, x149 = bits.Add64(x121, x139, uint64(uint1(x147)))
	var x150 uint64
	var x151 uint64
	x150, x151 = bits.Add64(x123, x141, uint64(uint1(x149)))
	x152 := (uint64(uint1(x151)) + uint64(uint1(x124)))
	var x153 uint64
	var x154 uint64
	x154, x153 = bits.Mul64(x3, arg2[3])
	var x155 uint64
	var x156 uint64
	x156, x155 = bits.Mul64(x3, arg2[2])
	var x157 uint64
	var x158 uint64
	x158, x157 = bits.Mul64(x3, arg2[1])
	var x159 uint64
	var x160 uint64
	x160, x159 = bits.Mul64(x3, arg2[0])
	var x161 uint64
	var x162 uint64
	x161, x162 = bits.Add64(x160, x157, uint64(0x0))
	var x163 uint64
	var x164 uint64
	x163, x164 = bits.Add64(x158, x155, uint64(uint1(x162)))
	var x165 uint64
	var x166 uint64
	x165, x166 = bits.Add64(x156, x153, uint64(uint1(x164)))
	x167 := (uint64(uint1(x166)) + x154)
	var x168 uint64
	var x169 uint64
	x168, x169 = bits.Add64(x144, x159, uint64(0x0))
	var x170 uint64
	var x171 uint64
	x170, x171 = bits.Add64(x146, x161, uint64(uint1(x169)))
	var x172 uint64
	var x173 uint64
	x172, x173 = bits.Add64(x148, x163, uint64(uint1(x171)))
	var x174 uint64
	var x175 uint64
	x174, x175 = bits.Add64(x150, x165, uint64(uint1(x173)))
	var x176 uint64
	var x177 uint64
	x176, x177 = bits.Add64(x152, x167, uint64(uint1(x175)))
	var x178 uint64
	_, x178 = bits.Mul64(x168, 0x4b0dff665588b13f)
	var x180 uint64
	var x181 uint64
	x181, x180 = bits.Mul64(x178, 0xffffffffffffffff)
	var x182 uint64
	var x183 uint64
	x183, x182 = bits.Mul64(x178, 0xfffffffffffffffe)
	var x184 uint64
	var x185 uint64
	x185, x184 = bits.Mul64(x178, 0xbaaedce6af48a03b)
	var x186 uint64
	var x187 uint64
	x187, x186 = bits.Mul64(x178, 0xbfd25e8cd0364141)
	var x188 uint64
	var x189 uint64
	x188, x189 = bits.Add64(x187, x184, uint64(0x0))
	var x190 uint64
	var x191 uint64
	x190, x191 = bits.Add64(x185, x182, uint64(uint1(x189)))
	var x192 uint64
	var x193 uint64
	x192, x193 = bits.Add64(x183, x180, uint64(uint1(x191)))
	x194 := (uint64(uint1(x193)) + x181)
	var x196 uint64
	_, x196 = bits.Add64(x168, x186, uint64(0x0))
	var x197 uint64
	var x198 uint64
	x197, x198 = bits.Add64(x170, x188, uint64(uint1(x196)))
	var x199 uint64
	var x200 uint64
	x199, x200 = bits.Add64(x172, x190, uint64(uint1(x198)))
	var x201 uint64
	var x202 uint64
	x201, x202 = bits.Add64(x174, x192, uint64(uint1(x200)))
	var x203 uint64
	var x204 uint64
	x203, x204 = bits.Add64(x176, x194, uint64(uint1(x202)))
	x205 := (uint64(uint1(x204)) + uint64(uint1(x177)))
	var x206 uint64
	var x207 uint64
	x206, x207 = bits.Sub64(x197, 0xbfd25e8cd0364141, uint64(0x0))
	var x208 uint64
	var x209 uint64
	x208, x209 = bits.Sub64(x199, 0xbaaedce6af48a03b, uint64(uint1(x207)))
	var x210 uint64
	var x211 uint64
	x210, x211 = bits.Sub64(x201, 0xfffffffffffffffe, uint64(uint1(x209)))
	var x212 uint64
	var x213 uint64
	x212, x213 = bits.Sub64(x203, 0xffffffffffffffff, uint64(uint1(x211)))
	var x215 uint64
	_, x215 = bits.Sub64(x205, uint64(0x0), uint64(uint1(x213)))
	var x216 uint64
	vrefcmovznzU64(&x216, uint1(x215), x206, x197)
	var x217 uint64
	vrefcmovznzU64(&x217, uint1(x215), x208, x199)
	var x218 uint64
	vrefcmovznzU64(&x218, uint1(x215), x210, x201)
	var x219 uint64
	vrefcmovznzU64(&x219, uint1(x215), x212, x203)
	out1[0] = x216
	out1[1] = x217
	out1[2] = x218
	out1[3] = x219
}

func vrefSquare(out1 *MontgomeryDomainFieldElement, arg1 *MontgomeryDomainFieldElement) {
	x1 := arg1[1]
	x2 := arg1[2]
	x3 := arg1[3]
	x4 := arg1[0]
	var x5 uint64
	var x6 uint64
	x6, x5 = bits.Mul64(x4, arg1[3])
	var x7 uint64
	var x8 uint64
	x8, x7 = bits.Mul64(x4, arg1[2])
	var x9 uint64
	var x10 uint64
	x10, x9 = bits.Mul64(x4, arg1[1])
	var x11 uint64
	var x12 uint64
	x12, x11 = bits.Mul64(x4, arg1[0])
	var x13 uint64
	var x14 uint64
	x13, x14 = bits.Add64(x12, x9, uint64(0x0))
	var x15 uint64
	var x16 uint64
	x15, x16 = bits.Add64(x10, x7, uint64(uint1(x14)))
	var x17 uint64
	var x18 uint64
	x17, x18 = bits.Add64(x8, x5, uint64(uint1(x16)))
	x19 := (uint64(uint1(x18)) + x6)
	var x20 uint64
	_, x20 = bits.Mul64(x11, 0x4b0dff665588b13f)
	var x22 uint64
	var x23 uint64
	x23, x22 = bits.Mul64(x20, 0xffffffffffffffff)
	var x24 uint64
	var x25 uint64
	x25, x24 = bits.Mul64(x20, 0xfffffffffffffffe)
	var x26 uint64
	var x27 uint64
	x27, x26 = bits.Mul64(x20, 0xbaaedce6af48a03b)
	var x28 uint64
	var x29 uint64
	x29, x28 = bits.Mul64(x20, 0xbfd25e8cd0364141)
	var x30 uint64
	var x31 uint64
	x30, x31 = bits.Add64(x29, x26, uint64(0x0))
	var x32 uint64
	var x33 uint64
	x32, x33 = bits.Add64(x27, x24, uint64(uint1(x31)))
	var x34 uint64
	var x35 uint64
	x34, x35 = bits.Add64(x25, x22, uint64(uint1(x33)))
	x36 := (uint64(uint1(x35)) + x23)
	var x38 uint64
	_, x38 = bits.Add64(x11, x28, uint64(0x0))
	var x39 uint64
	var x40 uint64
	x39, x40 = bits.Add64(x13, x30, uint64(uint1(x38)))
	var x41 uint64
	var x42 uint64
	x41, x42 = bits.Add64(x15, x32, uint64(uint1(x40)))
	var x43 uint64
	var x44 uint64
	x43, x44 = bits.Add64(x17, x34, uint64(uint1(x42)))
	var x45 uint64
	var x46 uint64
	x45, x46 = bits.Add64(x19, x36, uint64(uint1(x44)))
	var x47 uint64
	var x48 uint64
	x48, x47 = bits.Mul64(x1, arg1[3])
	var x49 uint64
	var x50 uint64
	x50, x49 = bits.Mul64(x1, arg1[2])
	var x51 uint64
	var x52 uint64
	x52, x51 = bits.Mul64(x1, arg1[1])
	var x53 uint64
	var x54 uint64
	x54, x53 = bits.Mul64(x1, arg1[0])
	var x55 uint64
	var x56 uint64
	x55, x56 = bits.Add64(x54, x51, uint64(0x0))
	var x57 uint64
	var x58 uint64
	x57, x58 = bits.Add64(x52, x49, uint64(uint1(x56)))
	var x59 uint64
	var x60 uint64
	x59, x60 = bits.Add64(x50, x47, uint64(uint1(x58)))
	x61 := (uint64(uint1(x60)) + x48)
	var x62 uint64
	var x63 uint64
	x62, x63 = bits.Add64(x39, x53, uint64(0x0))
	var x64 uint64
	var x65 uint64
	x64, x65 = bits.Add64(x41, x55, uint64(uint1(x63)))
	var x66 uint64
	var x67 uint64
	x66, x67 = bits.Add64(x43, x57, uint64(uint1(x65)))
	var x68 uint64
	var x69 uint64
	x68, x69 = bits.Add64(x45, x59, uint64(uint1(x67)))
	var x70 uint64
	var x71 uint64
	x70, x71 = bits.Add64(uint64(uint1(x46)), x61, uint64(uint1(x69)))
	var x72 uint64
	_, x72 = bits.Mul64(x62, 0x4b0dff665588b13f)
	var x74 uint64
	var x75 uint64
	x75, x74 = bits.Mul64(x72, 0xffffffffffffffff)
	var x76 uint64
	var x77 uint64
	x77, x76 = bits.Mul64(x72, 0xfffffffffffffffe)
	var x78 uint64
	var x79 uint64
	x79, x78 = bits.Mul64(x72, 0xbaaedce6af48a03b)
	var x80 uint64
	var x81 uint64
	x81, x80 = bits.Mul64(x72, 0xbfd25e8cd0364141)
	var x82 uint64
	var x83 uint64
	x82, x83 = bits.Add64(x81, x78, uint64(0x0))
	var x84 uint64
	var x85 uint64
	x84, x85 = bits.Add64(x79, x76, uint64(uint1(x83)))
	var x86 uint64
	var x87 uint64
	x86, x87 = bits.Add64(x77, x74, uint64(uint1(x85)))
	x88 := (uint64(uint1(x87)) + x75)
	var x90 uint64
	_, x90 = bits.Add64(x62, x80, uint64(0x0))
	var x91 uint64
	var x92 uint64
	x91, x92 = bits.Add64(x64, x82, uint64(uint1(x90)))
	var x93 uint64
	var x94 uint64
	x93, x94 = bits.Add64(x66, x84, uint64(uint1(x92)))
	var x95 uint64
	var x96 uint64
	x95, x96 = bits.Add64(x68, x86, uint64(uint1(x94)))
	var x97 uint64
	var x98 uint64
	x97, x98 = bits.Add64(x70, x88, uint64(uint1(x96)))
	x99 := (uint64(uint1(x98)) + uint64(uint1(x71)))
	var x100 uint64
	var x101 uint64
	x101, x100 = bits.Mul64(x2, arg1[3])
	var x102 uint64
	var x103 uint64
	x103, x102 = bits.Mul64(x2, arg1[2])
	var x104 uint64
	var x105 uint64
	x105, x104 = bits.Mul64(x2, arg1[1])
	var x106 uint64
	var x107 uint64
	x107, x106 = bits.Mul64(x2, arg1[0])
	var x108 uint64
	var x109 uint64
	x108, x109 = bits.Add64(x107, x104, uint64(0x0))
	var x110 uint64
	var x111 uint64
	x110, x111 = bits.Add64(x105, x102, uint64(uint1(x109)))
	var x112 uint64
	var x113 uint64
	x112, x113 = bits.Add64(x103, x100, uint64(uint1(x111)))
	x114 := (uint64(uint1(x113)) + x101)
	var x115 uint64
	var x116 uint64
	x115, x116 = bits.Add64(x91, x106, uint64(0x0))
	var x117 uint64
	var x118 uint64
	x117, x118 = bits.Add64(x93, x108, uint64(uint1(x116)))
	var x119 uint64
	var x120 uint64
	x119, x120 = bits.Add64(x95, x110, uint64(uint1(x118)))
	var x121 uint64
	var x122 uint64
	x121, x122 = bits.Add64(x97, x112, uint64(uint1(x120)))
	var x123 uint64
	var x124 uint64
	x123, x124 = bits.Add64(x99, x114, uint64(uint1(x122)))
	var x125 uint64
	_, x125 = bits.Mul64(x115, 0x4b0dff665588b13f)
	var x127 uint64
	var x128 uint64
	x128, x127 = bits.Mul64(x125, 0xffffffffffffffff)
	var x129 uint64
	var x130 uint64
	x130, x129 = bits.Mul64(x125, 0xfffffffffffffffe)
	var x131 uint64
	var x132 uint64
	x132, x131 = bits.Mul64(x125, 0xbaaedce6af48a03b)
	var x133 uint64
	var x134 uint64
	x134, x133 = bits.Mul64(x125, 0xbfd25e8cd0364141)
	var x135 uint64
	var x136 uint64
	x135, x136 = bits.Add64(x134, x131, uint64(0x0))
	var x137 uint64
	var x138 uint64
	x137, x138 = bits.Add64(x132, x129, uint64(uint1(x136)))
	var x139 uint64
	var x140 uint64
	x139, x140 = bits.Add64(x130, x127, uint64(uint1(x138)))
	x141 := (uint64(uint1(x140)) + x128)
	var x143 uint64
	_, x143 = bits.Add64(x115, x133, uint64(0x0))
	var x144 uint64
	var x145 uint64
	x144, x145 = bits.Add64(x117, x135, uint64(uint1(x143)))
	var x146 uint64
	var x147 uint64
	x146, x147 = bits.Add64(x119, x137, uint64(uint1(x145)))
	var x148 uint64
	var x149 uint64
	x148, x149 = bits.Add64(x121, x139, uint64(uint1(x147)))
	var x150 uint64
	var x151 uint64
	x150, x151 = bits.Add64(x123, x141, uint64(uint1(x149)))
	x152 := (uint64(uint1(x151)) + uint64(uint1(x124)))
	var x153 uint64
	var x154 uint64
	x154, x153 = bits.Mul64(x3, arg1[3])
	var x155 uint64
	var x156 uint64
	x156, x155 = bits.Mul64(x3, arg1[2])
	var x157 uint64
	var x158 uint64
	x158, x157 = bits.Mul64(x3, arg1[1])
	var x159 uint64
	var x160 uint64
	x160, x159 = bits.Mul64(x3, arg1[0])
	var x161 uint64
	var x162 uint64
	x161, x162 = bits.Add64(x160, x157, uint64(0x0))
	var x163 uint64
	var x164 uint64
	x163, x164 = bits.Add64(x158, x155, uint64(uint1(x162)))
	var x165 uint64
	var x166 uint64
	x165, x166 = bits.Add64(x156, x153, uint64(uint1(x164)))
	x167 := (uint64(uint1(x166)) + x154)
	var x168 uint64
	var x169 uint64
	x168, x169 = bits.Add64(x144, x159, uint64(0x0))
	var x170 uint64
	var x171 uint64
	x170, x171 = bits.Add64(x146, x161, uint64(uint1(x169)))
	var x172 uint64
	var x173 uint64
	x172, x173 = bits.Add64(x148, x163, uint64(uint1(x171)))
	var x174 uint64
	var x175 uint64
	x174, x175 = bits.Add64(x150, x165, uint64(uint1(x173)))
	var x176 uint64
	var x177 uint64
	x176, x177 = bits.Add64(x152, x167, uint64(uint1(x175)))
	var x178 uint64
	_, x178 = bits.Mul64(x168, 0x4b0dff665588b13f)
	var x180 uint64
	var x181 uint64
	x181, x180 = bits.Mul64(x178, 0xffffffffffffffff)
	var x182 uint64
	var x183 uint64
	x183, x182 = bits.Mul64(x178, 0xfffffffffffffffe)
	var x184 uint64
	var x185 uint64
	x185, x184 = bits.Mul64(x178, 0xbaaedce6af48a03b)
	var x186 uint64
	var x187 uint64
	x187, x186 = bits.Mul64(x178, 0xbfd25e8cd0364141)
	var x188 uint64
	var x189 uint64
	x188, x189 = bits.Add64(x187, x184, uint64(0x0))
	var x190 uint64
	var x191 uint64
	x190, x191 = bits.Add64(x185, x182, uint64(uint1(x189)))
	var x192 uint64
	var x193 uint64
	x192, x193 = bits.Add64(x183, x180, uint64(uint1(x191)))
	x194 := (uint64(uint1(x193)) + x181)
	var x196 uint64
	_, x196 = bits.Add64(x168, x186, uint64(0x0))
	var x197 uint64
	var x198 uint64
	x197, x198 = bits.Add64(x170, x188, uint64(uint1(x196)))
	var x199 uint64
	var x200 uint64
	x199, x200 = bits.Add64(x172, x190, uint64(uint1(x198)))
	var x201 uint64
	var x202 uint64
	x201, x202 = bits.Add64(x174, x192, uint64(uint1(x200)))
	var x203 uint64
	var x204 uint64
	x203, x204 = bits.Add64(x176, x194, uint64(uint1(x202)))
	x205 := (uint64(uint1(x204)) + uint64(uint1(x177)))
	var x206 uint64
	var x207 uint64
	x206, x207 = bits.Sub64(x197, 0xbfd25e8cd0364141, uint64(0x0))
	var x208 uint64
	var x209 uint64
	x208, x209 = bits.Sub64(x199, 0xbaaedce6af48a03b, uint64(uint1(x207)))
	var x210 uint64
	var x211 uint64
	x210, x211 = bits.Sub64(x201, 0xfffffffffffffffe, uint64(uint1(x209)))
	var x212 uint64
	var x213 uint64
	x212, x213 = bits.Sub64(x203, 0xffffffffffffffff, uint64(uint1(x211)))
	var x215 uint64
	_, x215 = bits.Sub64(x205, uint64(0x0), uint64(uint1(x213)))
	var x216 uint64
	vrefcmovznzU64(&x216, uint1(x215), x206, x197)
	var x217 uint64
	vrefcmovznzU64(&x217, uint1(x215), x208, x199)
	var x218 uint64
	vrefcmovznzU64(&x218, uint1(x215), x210, x201)
	var x219 uint64
	vrefcmovznzU64(&x219, uint1(x215), x212, x203)
	out1[0] = x216
	out1[1] = x217
	out1[2] = x218
	out1[3] = x219
}

func vrefAdd(out1 *MontgomeryDomainFieldElement, arg1 *MontgomeryDomainFieldElement, arg2 *MontgomeryDomainFieldElement) {
	var x1 uint64
	var x2 uint64
	x1, x2 = bits.Add64(arg1[0], arg2[0], uint64(0x0))
	var x3 uint64
	var x4 uint64
	x3, x4 = bits.Add64(arg1[1], arg2[1], uint64(uint1(x2)))
	var x5 uint64
	var x6 uint64
	x5, x6 = bits.Add64(arg1[2], arg2[2], uint64(uint1(x4)))
	var x7 uint64
	var x8 uint64
	x7, x8 = bits.Add64(arg1[3], arg2[3], uint64(uint1(x6)))
	var x9 uint64
	var x10 uint64
	x9, x10 = bits.Sub64(x1, 0xbfd25e8cd0364141, uint64(0x0))
	var x11 uint64
	var x12 uint64
	x11, x12 = bits.Sub64(x3, 0xbaaedce6af48a03b, uint64(uint1(x10)))
	var x13 uint64
	var x14 uint64
	x13, x14 = bits.Sub64(x5, 0xfffffffffffffffe, uint64(uint1(x12)))
	var x15 uint64
	var x16 uint64
	x15, x16 = bits.Sub64(x7, 0xffffffffffffffff, uint64(uint1(x14)))
	var x18 uint64
	_, x18 = bits.Sub64(uint64(uint1(x8)), uint64(0x0), uint64(uint1(x16)))
	var x19 uint64
	vrefcmovznzU64(&x19, uint1(x18), x9, x1)
	var x20 uint64
	vrefcmovznzU64(&x20, uint1(x18), x11, x3)
	var x21 uint64
	vrefcmovznzU64(&x21, uint1(x18), x13, x5)
	var x22 uint64
	vrefcmovznzU64(&x22, uint1(x18), x15, x7)
	out1[0] = x19
	out1[1] = x20
	out1[2] = x21
	out1[3] = x22
}

func vrefSub(out1 *MontgomeryDomainFieldElement, arg1 *MontgomeryDomainFieldElement, arg2 *MontgomeryDomainFieldElement) {
	var x1 uint64
	var x2 uint64
	x1, x2 = bits.Sub64(arg1[0], arg2[0], uint64(0x0))
	var x3 uint64
	var x4 uint64
	x3, x4 = bits.Sub64(arg1[1], arg2[1], uint64(uint1(x2)))
	var x5 uint64
	var x6 uint64
	x5, x6 = bits.Sub64(arg1[2], arg2[2], uint64(uint1(x4)))
	var x7 uint64
	var x8 uint64
	x7, x8 = bits.Sub64(arg1[3], arg2[3], uint64(uint1(x6)))
	var x9 uint64
	vrefcmovznzU64(&x9, uint1(x8), uint64(0x0), 0xffffffffffffffff)
	var x10 uint64
	var x11 uint64
	x10, x11 = bits.Add64(x1, (x9 & 0xbfd25e8cd0364141), uint64(0x0))
	var x12 uint64
	var x13 uint64
	x12, x13 = bits.Add64(x3, (x9 & 0xbaaedce6af48a03b), uint64(uint1(x11)))
	var x14 uint64
	var x15 uint64
	x14, x15 = bits.Add64(x5, (x9 & 0xfffffffffffffffe), uint64(uint1(x13)))
	var x16 uint64
	x16, _ = bits.Add64(x7, x9, uint64(uint1(x15)))
	out1[0] = x10
	out1[1] = x12
	out1[2] = x14
	out1[3] = x16
}

func vrefFromMontgomery(out1 *NonMontgomeryDomainFieldElement, arg1 *MontgomeryDomainFieldElement) {
	x1 := arg1[0]
	var x2 uint64
	_, x2 = bits.Mul64(x1, 0x4b0dff665588b13f)
	var x4 uint64
	var x5 uint64
	x5, x4 = bits.Mul64(x2, 0xffffffffffffffff)
	var x6 uint64
	var x7 uint64
	x7, x6 = bits.Mul64(x2, 0xfffffffffffffffe)
	var x8 uint64
	var x9 uint64
	x9, x8 = bits.Mul64(x2, 0xbaaedce6af48a03b)
	var x10 uint64
	var x11 uint64
	x11, x10 = bits.Mul64(x2, 0xbfd25e8cd0364141)
	var x12 uint64
	var x13 uint64
	x12, x13 = bits.Add64(x11, x8, uint64(0x0))
	var x14 uint64
	var x15 uint64
	x14, x15 = bits.Add64(x9, x6, uint64(uint1(x13)))
	var x16 uint64
	var x17 uint64
	x16, x17 = bits.Add64(x7, x4, uint64(uint1(x15)))
	var x19 uint64
	_, x19 = bits.Add64(x1, x10, uint64(0x0))
	var x20 uint64
	var x21 uint64
	x20, x21 = bits.Add64(uint64(0x0), x12, uint64(uint1(x19)))
	var x22 uint64
	var x23 uint64
	x22, x23 = bits.Add64(uint64(0x0), x14, uint64(uint1(x21)))
	var x24 uint64
	var x25 uint64
	x24, x25 = bits.Add64(uint64(0x0), x16, uint64(uint1(x23)))
	var x26 uint64
	var x27 uint64
	x26, x27 = bits.Add64(uint64(0x0), (uint64(uint1(x17)) + x5), uint64(uint1(x25)))
	var x28 uint64
	var x29 uint64
	x28, x29 = bits.Add64(x20, arg1[1], uint64(0x0))
	var x30 uint64
	var x31 uint64
	x30, x31 = bits.Add64(x22, uint64(0x0), uint64(uint1(x29)))
	var x32 uint64
	var x33 uint64
	x32, x33 = bits.Add64(x24, uint64(0x0), uint64(uint1(x31)))
	var x34 uint64
	var x35 uint64
	x34, x35 = bits.Add64(x26, uint64(0x0), uint64(uint1(x33)))
	var x36 uint64
	_, x36 = bits.Mul64(x28, 0x4b0dff665588b13f)
	var x38 uint64
	var x39 uint64
	x39, x38 = bits.Mul64(x36, 0xffffffffffffffff)
	var x40 uint64
	var x41 uint64
	x41, x40 = bits.Mul64(x36, 0xfffffffffffffffe)
	var x42 uint64
	var x43 uint64
	x43, x42 = bits.Mul64(x36, 0xbaaedce6af48a03b)
	var x44 uint64
	var x45 uint64
	x45, x44 = bits.Mul64(x36, 0xbfd25e8cd0364141)
	var x46 uint64
	var x47 uint64
	x46, x47 = bits.Add64(x45, x42, uint64(0x0))
	var x48 uint64
	var x49 uint64
	x48, x49 = bits.Add64(x43, x40, uint64(uint1(x47)))
	var x50 uint64
	var x51 uint64
	x50, x51 = bits.Add64(x41, x38, uint64(uint1(x49)))
	var x53 uint64
	_, x53 = bits.Add64(x28, x44, uint64(0x0))
	var x54 uint64
	var x55 uint64
	x54, x55 = bits.Add64(x30, x46, uint64(uint1(x53)))
	var x56 uint64
	var x57 uint64
	x56, x57 = bits.Add64(x32, x48, uint64(uint1(x55)))
	var x58 uint64
	var x59 uint64
	x58, x59 = bits.Add64(x34, x50, uint64(uint1(x57)))
	var x60 uint64
	var x61 uint64
	x60, x61 = bits.Add64((uint64(uint1(x35)) + uint64(uint1(x27))), (uint64(uint1(x51)) + x39), uint64(uint1(x59)))
	var x62 uint64
	var x63 uint64
	x62, x63 = bits.Add64(x54, arg1[2], uint64(0x0))
	var x64 uint64
	var x65 uint64
	x64, x65 = bits.Add64(x56, uint64(0x0), uint64(uint1(x63)))
	var x66 uint64
	var x67 uint64
	x66, x67 = bits.Add64(x58, uint64(0x0), uint64(uint1(x65)))
	var x68 uint64
	var x69 uint64
	x68, x69 = bits.Add64(x60, uint64(0x0), uint64(uint1(x67)))
	var x70 uint64
	_, x70 = bits.Mul64(x62, 0x4b0dff665588b13f)
	var x72 uint64
	var x73 uint64
	x73, x72 = bits.Mul64(x70, 0xffffffffffffffff)
	var x74 uint64
	var x75 uint64
	x75, x74 = bits.Mul64(x70, 0xfffffffffffffffe)
	var x76 uint64
	var x77 uint64
	x77, x76 = bits.Mul64(x70, 0xbaaedce6af48a03b)
	var x78 uint64
	var x79 uint64
	x79, x78 = bits.Mul64(x70, 0xbfd25e8cd0364141)
	var x80 uint64
	var x81 uint64
	x80, x81 = bits.Add64(x79, x76, uint64(0x0))
	var x82 uint64
	var x83 uint64
	x82, x83 = bits.Add64(x77, x74, uint64(uint1(x81)))
	var x84 uint64
	var x85 uint64
	x84, x85 = bits.Add64(x75, x72, uint64(uint1(x83)))
	var x87 uint64
	_, x87 = bits.Add64(x62, x78, uint64(0x0))
	var x88 uint64
	var x89 uint64
	x88, x89 = bits.Add64(x64, x80, uint64(uint1(x87)))
	var x90 uint64
	var x91 uint64
	x90, x91 = bits.Add64(x66, x82, uint64(uint1(x89)))
	var x92 uint64
	var x93 uint64
	x92, x93 = bits.Add64(x68, x84, uint64(uint1(x91)))
	var x94 uint64
	var x95 uint64
	x94, x95 = bits.Add64((uint64(uint1(x69)) + uint64(uint1(x61))), (uint64(uint1(x85)) + x73), uint64(uint1(x93)))
	var x96 uint64
	var x97 uint64
	x96, x97 = bits.Add64(x88, arg1[3], uint64(0x0))
	var x98 uint64
	var x99 uint64
	x98, x99 = bits.Add64(x90, uint64(0x0), uint64(uint1(x97)))
	var x100 uint64
	var x101 uint64
	x100, x101 = bits.Add64(x92, uint64(0x0), uint64(uint1(x99)))
	var x102 uint64
	var x103 uint64
	x102, x103 = bits.Add64(x94, uint64(0x0), uint64(uint1(x101)))
	var x104 uint64
	_, x104 = bits.Mul64(x96, 0x4b0dff665588b13f)
	var x106 uint64
	var x107 uint64
	x107, x106 = bits.Mul64(x104, 0xffffffffffffffff)
	var x108 uint64
	var x109 uint64
	x109, x108 = bits.Mul64(x104, 0xfffffffffffffffe)
	var x110 uint64
	var x111 uint64
	x111, x110 = bits.Mul64(x104, 0xbaaedce6af48a03b)
	var x112 uint64
	var x113 uint64
	x113, x112 = bits.Mul64(x104, 0xbfd25e8cd0364141)
	var x114 uint64
	var x115 uint64
	x114, x115 = bits.Add64(x113, x110, uint64(0x0))
	var x116 uint64
	var x117 uint64
	x116, x117 = bits.Add64(x111, x108, uint64(uint1(x115)))
	var x118 uint64
	var x119 uint64
	x118, x119 = bits.Add64(x109, x106, uint64(uint1(x117)))
	var x121 uint64
	_, x121 = bits.Add64(x96, x112, uint64(0x0))
	var x122 uint64
	var x123 uint64
	x122, x123 = bits.Add64(x98, x114, uint64(uint1(x121)))
	var x124 uint64
	var x125 uint64
	x124, x125 = bits.Add64(x100, x116, uint64(uint1(x123)))
	var x126 uint64
	var x127 uint64
	x126, x127 = bits.Add64(x102, x118, uint64(uint1(x125)))
	var x128 uint64
	var x129 uint64
	x128, x129 = bits.Add64((uint64(uint1(x103)) + uint64(uint1(x95))), (uint64(uint1(x119)) + x107), uint64(uint1(x127)))
	var x130 uint64
	var x131 uint64
	x130, x131 = bits.Sub64(x122, 0xbfd25e8cd0364141, uint64(0x0))
	var x132 uint64
	var x133 uint64
	x132, x133 = bits.Sub64(x124, 0xbaaedce6af48a03b, uint64(uint1(x131)))
	var x134 uint64
	var x135 uint64
	x134, x135 = bits.Sub64(x126, 0xfffffffffffffffe, uint64(uint1(x133)))
	var x136 uint64
	var x137 uint64
	x136, x137 = bits.Sub64(x128, 0xffffffffffffffff, uint64(uint1(x135)))
	var x139 uint64
	_, x139 = bits.Sub64(uint64(uint1(x129)), uint64(0x0), uint64(uint1(x137)))
	var x140 uint64
	vrefcmovznzU64(&x140, uint1(x139), x130, x122)
	var x141 uint64
	vrefcmovznzU64(&x141, uint1(x139), x132, x124)
	var x142 uint64
	vrefcmovznzU64(&x142, uint1(x139), x134, x126)
	var x143 uint64
	vrefcmovznzU64(&x143, uint1(x139), x136, x128)
	out1[0] = x140
	out1[1] = x141
	out1[2] = x142
	out1[3] = x143
}

func vrefToMontgomery(out1 *MontgomeryDomainFieldElement, arg1 *NonMontgomeryDomainFieldElement) {
	x1 := arg1[1]
	x2 := arg1[2]
	x3 := arg1[3]
	x4 := arg1[0]
	var x5 uint64
	var x6 uint64
	x6, x5 = bits.Mul64(x4, 0x9d671cd581c69bc5)
	var x7 uint64
	var x8 uint64
	x8, x7 = bits.Mul64(x4, 0xe697f5e45bcd07c6)
	var x9 uint64
	var x10 uint64
	x10, x9 = bits.Mul64(x4, 0x741496c20e7cf878)
	var x11 uint64
	var x12 uint64
	x12, x11 = bits.Mul64(x4, 0x896cf21467d7d140)
	var x13 uint64
	var x14 uint64
	x13, x14 = bits.Add64(x12, x9, uint64(0x0))
	var x15 uint64
	var x16 uint64
	x15, x16 = bits.Add64(x10, x7, uint64(uint1(x14)))
	var x17 uint64
	var x18 uint64
	x17, x18 = bits.Add64(x8, x5, uint64(uint1(x16)))
	var x19 uint64
	_, x19 = bits.Mul64(x11, 0x4b0dff665588b13f)
	var x21 uint64
	var x22 uint64
	x22, x21 = bits.Mul64(x19, 0xffffffffffffffff)
	var x23 uint64
	var x24 uint64
	x24, x23 = bits.Mul64(x19, 0xfffffffffffffffe)
	var x25 uint64
	var x26 uint64
	x26, x25 = bits.Mul64(x19, 0xbaaedce6af48a03b)
	var x27 uint64
	var x28 uint64
	x28, x27 = bits.Mul64(x19, 0xbfd25e8cd0364141)
	var x29 uint64
	var x30 uint64
	x29, x30 = bits.Add64(x28, x25, uint64(0x0))
	var x31 uint64
	var x32 uint64
	x31, x32 = bits.Add64(x26, x23, uint64(uint1(x30)))
	var x33 uint64
	var x34 uint64
	x33, x34 = bits.Add64(x24, x21, uint64(uint1(x32)))
	var x36 uint64
	_, x36 = bits.Add64(x11, x27, uint64(0x0))
	var x37 uint64
	var x38 uint64
	x37, x38 = bits.Add64(x13, x29, uint64(uint1(x36)))
	var x39 uint64
	var x40 uint64
	x39, x40 = bits.Add64(x15, x31, uint64(uint1(x38)))
	var x41 uint64
	var x42 uint64
	x41, x42 = bits.Add64(x17, x33, uint64(uint1(x40)))
	var x43 uint64
	var x44 uint64
	x43, x44 = bits.Add64((uint64(uint1(x18)) + x6), (uint64(uint1(x34)) + x22), uint64(uint1(x42)))
	var x45 uint64
	var x46 uint64
	x46, x45 = bits.Mul64(x1, 0x9d671cd581c69bc5)
	var x47 uint64
	var x48 uint64
	x48, x47 = bits.Mul64(x1, 0xe697f5e45bcd07c6)
	var x49 uint64
	var x50 uint64
	x50, x49 = bits.Mul64(x1, 0x741496c20e7cf878)
	var x51 uint64
	var x52 uint64
	x52, x51 = bits.Mul64(x1, 0x896cf21467d7d140)
	var x53 uint64
	var x54 uint64
	x53, x54 = bits.Add64(x52, x49, uint64(0x0))
	var x55 uint64
	var x56 uint64
	x55, x56 = bits.Add64(x50, x47, uint64(uint1(x54)))
	var x57 uint64
	var x58 uint64
	x57, x58 = bits.Add64(x48, x45, uint64(uint1(x56)))
	var x59 uint64
	var x60 uint64
	x59, x60 = bits.Add64(x37, x51, uint64(0x0))
	var x61 uint64
	var x62 uint64
	x61, x62 = bits.Add64(x39, x53, uint64(uint1(x60)))
	var x63 uint64
	var x64 uint64
	x63, x64 = bits.Add64(x41, x55, uint64(uint1(x62)))
	var x65 uint64
	var x66 uint64
	x65, x66 = bits.Add64(x43, x57, uint64(uint1(x64)))
	var x67 uint64
	_, x67 = bits.Mul64(x59, 0x4b0dff665588b13f)
	var x69 uint64
	var x70 uint64
	x70, x69 = bits.Mul64(x67, 0xffffffffffffffff)
	var x71 uint64
	var x72 uint64
	x72, x71 = bits.Mul64(x67, 0xfffffffffffffffe)
	var x73 uint64
	var x74 uint64
	x74, x73 = bits.Mul64(x67, 0xbaaedce6af48a03b)
	var x75 uint64
	var x76 uint64
	x76, x75 = bits.Mul64(x67, 0xbfd25e8cd0364141)
	var x77 uint64
	var x78 uint64
	x77, x78 = bits.Add64(x76, x73, uint64(0x0))
	var x79 uint64
	var x80 uint64
	x79, x80 = bits.Add64(x74, x71, uint64(uint1(x78)))
	var x81 uint64
	var x82 uint64
	x81, x82 = bits.Add64(x72, x69, uint64(uint1(x80)))
	var x84 uint64
	_, x84 = bits.Add64(x59, x75, uint64(0x0))
	var x85 uint64
	var x86 uint64
	x85, x86 = bits.Add64(x61, x77, uint64(uint1(x84)))
	var x87 uint64
	var x88 uint64
	x87, x88 = bits.Add64(x63, x79, uint64(uint1(x86)))
	var x89 uint64
	var x90 uint64
	x89, x90 = bits.Add64(x65, x81, uint64(uint1(x88)))
	var x91 uint64
	var x92 uint64
	x91, x92 = bits.Add64(((uint64(uint1(x66)) + uint64(uint1(x44))) + (uint64(uint1(x58)) + x46)), (uint64(uint1(x82)) + x70), uint64(uint1(x90)))
	var x93 uint64
	var x94 uint64
	x94, x93 = bits.Mul64(x2, 0x9d671cd581c69bc5)
	var x95 uint64
	var x96 uint64
	x96, x95 = bits.Mul64(x2, 0xe697f5e45bcd07c6)
	var x97 uint64
	var x98 uint64
	x98, x97 = bits.Mul64(x2, 0x741496c20e7cf878)
	var x99 uint64
	var x100 uint64
	x100, x99 = bits.Mul64(x2, 0x896cf21467d7d140)
	var x101 uint64
	var x102 uint64
	x101, x102 = bits.Add64(x100, x97, uint64(0x0))
	var x103 uint64
	var x104 uint64
	x103, x104 = bits.Add64(x98, x95, uint64(uint1(x102)))
	var x105 uint64
	var x106 uint64
	x105, x106 = bits.Add64(x96, x93, uint64(uint1(x104)))
	var x107 uint64
	var x108 uint64
	x107, x108 = bits.Add64(x85, x99, uint64(0x0))
	var x109 uint64
	var x110 uint64
	x109, x110 = bits.Add64(x87, x101, uint64(uint1(x108)))
	var x111 uint64
	var x112 uint64
	x111, x112 = bits.Add64(x89, x103, uint64(uint1(x110)))
	var x113 uint64
	var x114 uint64
	x113, x114 = bits.Add64(x91, x105, uint64(uint1(x112)))
	var x115 uint64
	_, x115 = bits.Mul64(x107, 0x4b0dff665588b13f)
	var x117 uint64
	var x118 uint64
	x118, x117 = bits.Mul64(x115, 0xffffffffffffffff)
	var x119 uint64
	var x120 uint64
	x120, x119 = bits.Mul64(x115, 0xfffffffffffffffe)
	var x121 uint64
	var x122 uint64
	x122, x121 = bits.Mul64(x115, 0xbaaedce6af48a03b)
	var x123 uint64
	var x124 uint64
	x124, x123 = bits.Mul64(x115, 0xbfd25e8cd0364141)
	var x125 uint64
	var x126 uint64
	x125, x126 = bits.Add64(x124, x121, uint64(0x0))
	var x127 uint64
	var x128 uint64
	x127, x128 = bits.Add64(x122, x119, uint64(uint1(x126)))
	var x129 uint64
	var x130 uint64
	x129, x130 = bits.Add64(x120, x117, uint64(uint1(x128)))
	var x132 uint64
	_, x132 = bits.Add64(x107, x123, uint64(0x0))
	var x133 uint64
	var x134 uint64
	x133, x134 = bits.Add64(x109, x125, uint64(uint1(x132)))
	var x135 uint64
	var x136 uint64
	x135, x136 = bits.Add64(x111, x127, uint64(uint1(x134)))
	var x137 uint64
	var x138 uint64
	x137, x138 = bits.Add64(x113, x129, uint64(uint1(x136)))
	var x139 uint64
	var x140 uint64
	x139, x140 = bits.Add64(((uint64(uint1(x114)) + uint64(uint1(x92))) + (uint64(uint1(x106)) + x94)), (uint64(uint1(x130)) + x118), uint64(uint1(x138)))
	var x141 uint64
	var x142 uint64
	x142, x141 = bits.Mul64(x3, 0x9d671cd581c69bc5)
	var x143 uint64
	var x144 uint64
	x144, x143 = bits.Mul64(x3, 0xe697f5e45bcd07c6)
	var x145 uint64
	var x146 uint64
	x146, x145 = bits.Mul64(x3, 0x741496c20e7cf878)
	var x147 uint64
	var x148 uint64
	x148, x147 = bits.Mul64(x3, 0x896cf21467d7d140)
	var x149 uint64
	var x150 uint64
	x149, x150 = bits.Add64(x148, x145, uint64(0x0))
	var x151 uint64
	var x152 uint64
	x151, x152 = bits.Add64(x146, x143, uint64(uint1(x150)))
	var x153 uint64
	var x154 uint64
	x153, x154 = bits.Add64(x144, x141, uint64(uint1(x152)))
	var x155 uint64
	var x156 uint64
	x155, x156 = bits.Add64(x133, x147, uint64(0x0))
	var x157 uint64
	var x158 uint64
	x157, x158 = bits.Add64(x135, x149, uint64(uint1(x156)))
	var x159 uint64
	var x160 uint64
	x159, x160 = bits.Add64(x137, x151, uint64(uint1(x158)))
	var x161 uint64
	var x162 uint64
	x161, x162 = bits.Add64(x139, x153, uint64(uint1(x160)))
	var x163 uint64
	_, x163 = bits.Mul64(x155, 0x4b0dff665588b13f)
	var x165 uint64
	var x166 uint64
	x166, x165 = bits.Mul64(x163, 0xffffffffffffffff)
	var x167 uint64
	var x168 uint64
	x168, x167 = bits.Mul64(x163, 0xfffffffffffffffe)
	var x169 uint64
	var x170 uint64
	x170, x169 = bits.Mul64(x163, 0xbaaedce6af48a03b)
	var x171 uint64
	var x172 uint64
	x172, x171 = bits.Mul64(x163, 0xbfd25e8cd0364141)
	var x173 uint64
	var x174 uint64
	x173, x174 = bits.Add64(x172, x169, uint64(0x0))
	var x175 uint64
	var x176 uint64
	x175, x176 = bits.Add64(x170, x167, uint64(uint1(x174)))
	var x177 uint64
	var x178 uint64
	x177, x178 = bits.Add64(x168, x165, uint64(uint1(x176)))
	var x180 uint64
	_, x180 = bits.Add64(x155, x171, uint64(0x0))
	var x181 uint64
	var x182 uint64
	x181, x182 = bits.Add64(x157, x173, uint64(uint1(x180)))
	var x183 uint64
	var x184 uint64
	x183, x184 = bits.Add64(x159, x175, uint64(uint1(x182)))
	var x185 uint64
	var x186 uint64
	x185, x186 = bits.Add64(x161, x177, uint64(uint1(x184)))
	var x187 uint64
	var x188 uint64
	x187, x188 = bits.Add64(((uint64(uint1(x162)) + uint64(uint1(x140))) + (uint64(uint1(x154)) + x142)), (uint64(uint1(x178)) + x166), uint64(uint1(x186)))
	var x189 uint64
	var x190 uint64
	x189, x190 = bits.Sub64(x181, 0xbfd25e8cd0364141, uint64(0x0))
	var x191 uint64
	var x192 uint64
	x191, x192 = bits.Sub64(x183, 0xbaaedce6af48a03b, uint64(uint1(x190)))
	var x193 uint64
	var x194 uint64
	x193, x194 = bits.Sub64(x185, 0xfffffffffffffffe, uint64(uint1(x192)))
	var x195 uint64
	var x196 uint64
	x195, x196 = bits.Sub64(x187, 0xffffffffffffffff, uint64(uint1(x194)))
	var x198 uint64
	_, x198 = bits.Sub64(uint64(uint1(x188)), uint64(0x0), uint64(uint1(x196)))
	var x199 uint64
	vrefcmovznzU64(&x199, uint1(x198), x189, x181)
	var x200 uint64
	vrefcmovznzU64(&x200, uint1(x198), x191, x183)
	var x201 uint64
	vrefcmovznzU64(&x201, uint1(x198), x193, x185)
	var x202 uint64
	vrefcmovznzU64(&x202, uint1(x198), x195, x187)
	out1[0] = x199
	out1[1] = x200
	out1[2] = x201
	out1[3] = x202
}

// differential harness: current kernel vs the proved reference copy, same inputs
func vh_diff(k int) {
	a := MontgomeryDomainFieldElement(vLimbs("a"))
	b := MontgomeryDomainFieldElement(vLimbs("b"))
	var o, r MontgomeryDomainFieldElement
	switch k {
	case 0:
		Mul(&o, &a, &b)
		vrefMul(&r, &a, &b)
	case 1:
		Square(&o, &a)
		vrefSquare(&r, &a)
	case 2:
		Add(&o, &a, &b)
		vrefAdd(&r, &a, &b)
	case 3:
		Sub(&o, &a, &b)
		vrefSub(&r, &a, &b)
	case 5:
		na := NonMontgomeryDomainFieldElement(a)
		var no NonMontgomeryDomainFieldElement
		FromMontgomery(&no, &a)
		var nr NonMontgomeryDomainFieldElement
		vrefFromMontgomery(&nr, &a)
		_ = na
		o, r = MontgomeryDomainFieldElement(no), MontgomeryDomainFieldElement(nr)
	case 6:
		na := NonMontgomeryDomainFieldElement(a)
		ToMontgomery(&o, &na)
		vrefToMontgomery(&r, &na)
	}
	vObserve("out", o)
	vObserve("ref", r)
}
