package field

// Wrapper harnesses for internal/field.Element (C12).

func vElem(name string) *Element {
	return &Element{E: MontgomeryDomainFieldElement(vLimbs(name))}
}

// vRecv is the receiver of the call under test: an element holding an arbitrary earlier value, or (flag zero_receivers, used when a
// check embeds these contracts and its own code only ever passes fresh or aliased receivers) a freshly constructed one.
func vRecv(name string) *Element {
	if vFlag("zero_receivers") {
		return New()
	}
	return vElem(name)
}

// op: 0 Add 1 Subtract 2 Multiply ; alias: 0 distinct, 1 e==u, 2 e==v, 3 u==v, 4 all same
func vh_fe_op2(op, alias int) {
	e := vRecv("e")
	u := vElem("u")
	v := vElem("v")
	switch alias {
	case 1:
		u = e
	case 2:
		v = e
	case 3:
		v = u
	case 4:
		u = e
		v = e
	}
	u0, v0 := u.E, v.E
	var r *Element
	switch op {
	case 0:
		r = e.Add(u, v)
	case 1:
		r = e.Subtract(u, v)
	case 2:
		r = e.Multiply(u, v)
	}
	vObserve("same", r == e)
	vObserve("E", e.E)
	vObserve("U0", u0)
	vObserve("V0", v0)
	vObserve("U", u.E)
	vObserve("V", v.E)
}

// op: 0 Negate 1 Square 2 Set ; alias: 0 distinct 1 e==u
func vh_fe_op1(op, alias int) {
	e := vRecv("e")
	u := vElem("u")
	if alias == 1 {
		u = e
	}
	u0 := u.E
	var r *Element
	switch op {
	case 0:
		r = e.Negate(u)
	case 1:
		r = e.Square(u)
	case 2:
		r = e.Set(u)
	}
	vObserve("same", r == e)
	vObserve("E", e.E)
	vObserve("U0", u0)
	vObserve("U", u.E)
}

func vh_fe_misc() {
	e := vElem("e")
	u := vElem("u")
	e0 := e.E
	vObserve("sgn0", e.Sgn0())
	vObserve("iszero", e.IsZero())
	vObserve("equals", e.Equals(u))
	vMark()
	b := e.Bytes()
	vObserve("bytes", b)
	vObserve("E0", e0)
	vObserve("E", e.E)
	vObserve("U", u.E)
	o := New().One()
	vObserve("one", o.E)
	vObserve("new", New().E)
	vObserve("isequal", IsEqual(vNondetU64("w1"), vNondetU64("w2")))
}

// alias: 0 distinct, 1 e==u, 2 e==v
func vh_fe_cmove(alias int) {
	e := vRecv("e")
	u := vElem("u")
	v := vElem("v")
	switch alias {
	case 1:
		u = e
	case 2:
		v = e
	}
	u0, v0 := u.E, v.E
	c := vNondetU64("c")
	r := e.CMove(c, u, v)
	vObserve("same", r == e)
	vObserve("E", e.E)
	vObserve("U0", u0)
	vObserve("V0", v0)
	vObserve("U", u.E)
	vObserve("V", v.E)
}

func vh_fe_frombytes() {
	e := vRecv("e")
	var in [32]byte
	copy(in[:], vNondetBytes("in", 32))
	r, red := e.FromBytesWithReduce(in)
	vObserve("same", r == e)
	vObserve("E", e.E)
	vObserve("reduced", red)
}

func vh_fe_frombytes_noreduce(n int) {
	e := vRecv("e")
	in := vNondetBytes("in", n)
	vFreeze(in)
	r := e.FromBytesNoReduce(in)
	vObserve("same", r == e)
	vObserve("E", e.E)
}

func vh_fe_h2f() {
	e := vRecv("e")
	var in [48]byte
	copy(in[:], vNondetBytes("in", 48))
	r := e.HashToFieldElement(in)
	vObserve("same", r == e)
	vObserve("E", e.E)
}

func vh_reduce() {
	x := NonMontgomeryDomainFieldElement(vLimbs("x"))
	x0 := x
	f := Reduce(&x)
	vObserve("flag", f)
	vObserve("X", x)
	vObserve("X0", x0)
}

// alias: 0 receiver distinct from operands, 1 e==u, 2 e==v
func vh_fe_sqrtratio(alias int) {
	e := vRecv("e")
	u := vElem("u")
	v := vElem("v")
	switch alias {
	case 1:
		u = e
	case 2:
		v = e
	}
	u0, v0 := u.E, v.E
	r, ok := e.SqrtRatio(u, v)
	vObserve("same", r == e)
	vObserve("E", e.E)
	vObserve("ok", ok)
	vObserve("U0", u0)
	vObserve("V0", v0)
	if alias == 0 {
		vObserve("U", u.E)
		vObserve("V", v.E)
	}
}

// alias: 0 z distinct from x, 1 z is x
func vh_fe_invert(alias int) {
	x := vElem("x")
	z := vRecv("z")
	if alias == 1 {
		z = x
	}
	x0 := x.E
	r := z.Invert(*x)
	vObserve("same", r == z)
	vObserve("Z", z.E)
	vObserve("X0", x0)
}

func vh_fe_exp(alias int) {
	x := vElem("x")
	z := vRecv("z")
	if alias == 1 {
		z = x
	}
	x0 := x.E
	r := z.expPMin3Div4(x)
	vObserve("same", r == z)
	vObserve("Z", z.E)
	vObserve("X0", x0)
}
