package secp256k1

// ---- C08 / C09 ----
// fn: 0 HashToGroup, 1 EncodeToGroup, 2 HashToScalar ; layout: 0 len==cap, 1 spare capacity, 2 window of a larger buffer
func vh_hash(fn, m, d, layout int) {
	var msg, dst []byte
	switch layout {
	case 0:
		msg = vNondetBytes("msg", m)
		dst = vNondetBytes("dst", d)
	case 1:
		mb := vNondetBytes("msgbuf", m+8)
		db := vNondetBytes("dstbuf", d+8)
		msg, dst = mb[:m], db[:d]
	case 2:
		mb := vNondetBytes("msgbuf", m+8)
		db := vNondetBytes("dstbuf", d+8)
		msg, dst = mb[3:3+m:3+m], db[2:2+d:4+d]
	case 3: // one frame: message first, its spare capacity is the DST
		fr := vNondetBytes("frame", m+d)
		msg, dst = fr[:m], fr[m:]
	case 4: // one frame: DST first, its spare capacity is the message
		fr := vNondetBytes("frame", m+d)
		dst, msg = fr[:d], fr[d:]
	}
	vFreeze(msg)
	vFreeze(dst)
	vMark()
	switch fn {
	case 0:
		e := HashToGroup(msg, dst)
		vObserveEl("E", e)
		vObserve("efresh", e)
	case 1:
		e := EncodeToGroup(msg, dst)
		vObserveEl("E", e)
		vObserve("efresh", e)
	case 2:
		s := HashToScalar(msg, dst)
		vObserve("S", s.S)
		vObserve("sfresh", s)
	}
	vObserve("msg", msg)
	vObserve("dst", dst)
}

// nil: 0 empty non-nil, 1 nil
func vh_hash_nodst(fn, m, isnil int) {
	msg := vNondetBytes("msg", m)
	dst := []byte{}
	if isnil == 1 {
		dst = nil
	}
	switch fn {
	case 0:
		HashToGroup(msg, dst)
	case 1:
		EncodeToGroup(msg, dst)
	case 2:
		HashToScalar(msg, dst)
	}
}

func vh_hash_nilmsg(fn, d int) {
	dst := vNondetBytes("dst", d)
	switch fn {
	case 0:
		e := HashToGroup(nil, dst)
		vObserveEl("E", e)
	case 1:
		e := EncodeToGroup(nil, dst)
		vObserveEl("E", e)
	case 2:
		s := HashToScalar(nil, dst)
		vObserve("S", s.S)
	}
}

// two consecutive calls: the second result must not depend on the first call (no state carried across calls).
// mode 0: fresh buffers for the second call; mode 1: the first call's DST buffer is overwritten in place and reused
func vh_hash_twice(fn, m, d, mode int) {
	msg1 := vNondetBytes("msg1", m)
	d1 := d
	if mode == 2 || mode == 4 { // the very first call of the process uses an oversize DST
		d1 = 300
	}
	if mode == 3 && d > 1 { // the second DST is exactly one byte longer than the first
		d1 = d - 1
	}
	dst1 := vNondetBytes("dst1", d1)
	var msg, dst []byte
	run := func(a, b []byte) {
		switch fn {
		case 0:
			HashToGroup(a, b)
		case 1:
			EncodeToGroup(a, b)
		case 2:
			HashToScalar(a, b)
		}
	}
	run(msg1, dst1)
	msg = vNondetBytes("msg", m)
	if mode == 1 {
		copy(dst1, vNondetBytes("dst", d))
		dst = dst1
	} else {
		dst = vNondetBytes("dst", d)
	}
	vMark()
	switch fn {
	case 0:
		e := HashToGroup(msg, dst)
		vObserveEl("E", e)
		vObserve("efresh", e)
	case 1:
		e := EncodeToGroup(msg, dst)
		vObserveEl("E", e)
		vObserve("efresh", e)
	case 2:
		s := HashToScalar(msg, dst)
		vObserve("S", s.S)
		vObserve("sfresh", s)
	}
}
