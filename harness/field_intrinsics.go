package field

// Harness intrinsics (see root_intrinsics.go).

func vNondetU64(name string) uint64          { return 0 }
func vNondetByte(name string) byte           { return 0 }
func vNondetBool(name string) bool           { return false }
func vNondetBytes(name string, n int) []byte { return make([]byte, n) }
func vAssume(b bool)                         {}
func vObserve(name string, v interface{})    {}
func vFreeze(v interface{})                  {}
func vFlag(name string) bool                 { return false }
func vMark()                                 {}

func vLimbs(name string) [4]uint64 {
	return [4]uint64{vNondetU64(name + "0"), vNondetU64(name + "1"), vNondetU64(name + "2"), vNondetU64(name + "3")}
}
