package secp256k1

// Two-step histories (C10, C14): observe, mutate, observe again.  After the mutation every observer must
// return exactly what it returns on a FRESH value holding the same documented state (limbs / coordinates):
// any dependence on hidden state (caches, flags, stale buffers) shows up as a difference.

func vh_hidden_scalar(m int) {
	s := vScalar("s")
	t := vScalar("t")
	u := vScalar("u")
	// first observations (this is where a cache would be filled)
	b0 := s.Bits()
	e0 := s.Encode()
	_ = b0
	_ = s.IsZero()
	_ = s.IsOne()
	_ = s.Equal(t)
	_ = s.LessOrEqual(t)
	// a caller may do what it likes with the slices it was handed
	for i := range e0 {
		e0[i] ^= 0xa5
	}
	switch m {
	case 0:
		s.Add(t)
	case 1:
		s.Subtract(t)
	case 2:
		s.Multiply(t)
	case 3:
		s.Square()
	case 4:
		s.Invert()
	case 5:
		s.Set(t)
	case 6:
		s.Zero()
	case 7:
		s.One()
	case 8:
		s.MinusOne()
	case 9:
		s.SetUInt64(vNondetU64("c"))
	case 10:
		vAssume(s.Decode(vNondetBytes("in", 32)) == nil)
	case 11:
		vAssume(s.CSelect(vNondetU64("c"), t, u) == nil)
	case 12:
		vAssume(s.UnmarshalBinary(vNondetBytes("in", 32)) == nil)
	case 13:
		s.S = t.S // the limbs are an exported field
	case 14:
		// no mutation at all: observe, scribble, observe
	}
	f := &Scalar{S: s.S}
	vObserve("bits", s.Bits())
	vObserve("bits_fresh", f.Bits())
	vObserve("enc", s.Encode())
	vObserve("enc_fresh", f.Encode())
	vObserve("isz", s.IsZero())
	vObserve("isz_fresh", f.IsZero())
	vObserve("isone", s.IsOne())
	vObserve("isone_fresh", f.IsOne())
	vObserve("eq", s.Equal(u))
	vObserve("eq_fresh", f.Equal(u))
	vObserve("le", s.LessOrEqual(u))
	vObserve("le_fresh", f.LessOrEqual(u))
}

func vh_hidden_element(m int) {
	e := vElement("e")
	q := vElement("q")
	c0 := e.Encode()
	u0 := e.EncodeUncompressed()
	_ = e.IsIdentity()
	_ = e.Equal(q)
	for i := range c0 {
		c0[i] ^= 0xa5
	}
	for i := range u0 {
		u0[i] ^= 0xa5
	}
	switch m {
	case 0:
		e.Add(q)
	case 1:
		e.Subtract(q)
	case 2:
		e.Double()
	case 3:
		e.Negate()
	case 4:
		e.Set(q)
	case 5:
		e.Identity()
	case 6:
		e.Base()
	case 7:
		vAssume(e.Decode(vNondetBytes("in", 33)) == nil)
	case 8:
		vAssume(e.Decode(vNondetBytes("in", 65)) == nil)
	case 9:
		vAssume(e.Decode(vNondetBytes("in", 1)) == nil)
	case 10:
		// no mutation at all
	}
	f := &Element{x: e.x, y: e.y, z: e.z}
	vObserve("enc", e.Encode())
	vObserve("enc_fresh", f.Encode())
	vObserve("unc", e.EncodeUncompressed())
	vObserve("unc_fresh", f.EncodeUncompressed())
	vObserve("isid", e.IsIdentity())
	vObserve("isid_fresh", f.IsIdentity())
	vObserve("eq", e.Equal(q))
	vObserve("eq_fresh", f.Equal(q))
}
