package secp256k1

// ---- C06 ----

// op: 0 Add, 1 Subtract, 2 Multiply, 5 Set, 6 Pow ; alias: 0 distinct, 1 argument is the receiver, 2 nil argument
func vh_sop2(op, alias int) {
	s := vScalar("s")
	t := vScalar("t")
	switch alias {
	case 1:
		t = s
	case 2:
		t = nil
	}
	var t0 [4]uint64
	if t != nil {
		t0 = t.S
	}
	s0 := s.S
	var r *Scalar
	switch op {
	case 0:
		r = s.Add(t)
	case 1:
		r = s.Subtract(t)
	case 2:
		r = s.Multiply(t)
	case 5:
		r = s.Set(t)
	case 6:
		r = s.Pow(t)
	}
	vObserve("same", r == s)
	vObserve("S0", s0)
	vObserve("S", s.S)
	vObserve("T0", t0)
	if t != nil {
		vObserve("T", t.S)
	}
}

// op: 3 Square, 4 Invert, 7 Zero, 8 One, 9 MinusOne, 10 Copy
func vh_sop1(op int) {
	s := vScalar("s")
	s0 := s.S
	var r *Scalar
	switch op {
	case 3:
		r = s.Square()
	case 4:
		r = s.Invert()
	case 7:
		r = s.Zero()
	case 8:
		r = s.One()
	case 9:
		r = s.MinusOne()
	case 10:
		r = s.Copy()
		vObserve("R", r.S)
		vObserve("rfresh", r)
	}
	vObserve("same", r == s)
	vObserve("S0", s0)
	vObserve("S", s.S)
}

func vh_setuint64() {
	s := vScalar("s")
	i := vNondetU64("i")
	r := s.SetUInt64(i)
	vObserve("same", r == s)
	vObserve("S", s.S)
}

func vh_newscalar() {
	s := NewScalar()
	vObserve("S", s.S)
}
