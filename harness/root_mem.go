package secp256k1

// ---- C15 / C16: ownership harnesses ----

// vSlice builds a byte-slice argument of length n in one of three layouts over a larger caller-owned buffer:
// 0: len == cap (exact buffer), 1: spare capacity behind the slice, 2: a window in the middle of a larger buffer.
func vSlice(name string, n, layout int) []byte {
	switch layout {
	case 1:
		b := vNondetBytes(name, n+8)
		return b[:n]
	case 2:
		b := vNondetBytes(name, n+11)
		return b[3 : 3+n : 3+n+2]
	}
	return vNondetBytes(name, n)
}

// api selects the call; every argument object is frozen (any write to it is recorded with its call chain),
// and every returned slice / pointer is observed together with its allocation status.
func vh_mem(api, n, layout int) {
	s := vScalar("s")
	t := vScalar("t")
	u := vScalar("u")
	p := vElement("p")
	q := vElement("q")
	in := vSlice("in", n, layout)
	vFreeze(in)
	vFreeze(t)
	vFreeze(u)
	vFreeze(q)
	vTagRecv(s, "recv-scalar")
	vTagRecv(p, "recv-element")
	vMark()
	switch api {
	case 0:
		vObserve("err", s.Decode(in))
	case 1:
		vObserve("err", s.UnmarshalBinary(in))
	case 2:
		vObserve("ret", s.Encode())
	case 3:
		b, _ := s.MarshalBinary()
		vObserve("ret", b)
	case 4:
		s.Add(t)
	case 5:
		s.Subtract(t)
	case 6:
		s.Multiply(t)
	case 7:
		s.Set(t)
	case 8:
		s.Pow(t)
	case 9:
		vObserve("r", s.Equal(t))
	case 10:
		vObserve("r", s.LessOrEqual(t))
	case 11:
		vObserve("err", s.CSelect(vNondetU64("c"), t, u))
	case 12:
		vObserve("retp", s.Copy())
	case 13:
		vObserve("err", p.Decode(in))
	case 14:
		vObserve("err", p.DecodeCompressed(in))
	case 15:
		vObserve("err", p.DecodeUncompressed(in))
	case 16:
		vObserve("err", p.UnmarshalBinary(in))
	case 17:
		vObserve("ret", p.Encode())
	case 18:
		vObserve("ret", p.EncodeUncompressed())
	case 19:
		vObserve("ret", p.XCoordinate())
	case 20:
		b, _ := p.MarshalBinary()
		vObserve("ret", b)
	case 21:
		p.Add(q)
	case 22:
		p.Subtract(q)
	case 23:
		vObserve("r", p.Equal(q))
	case 24:
		p.Set(q)
	case 25:
		vObserve("retp", p.Copy())
	case 26:
		p.Multiply(t)
	case 27:
		a := Order()
		b := Order()
		vObserve("ret", a)
		vObserve("ret2", b)
	case 28:
		vObserve("retp", Base())
	case 29:
		vObserve("retp", NewElement())
	case 30:
		vObserve("retp", NewScalar())
	case 31:
		vObserve("r", s.Bits())
	case 32:
		vObserve("r", p.IsIdentity())
		p.Negate()
		p.Double()
		p.Identity()
		p.Base()
	case 33:
		s.Random()
	case 34:
		s.Square()
		s.Invert()
		s.Zero()
		s.One()
		s.MinusOne()
		s.SetUInt64(vNondetU64("c"))
		vObserve("r", s.IsZero())
		vObserve("r2", s.IsOne())
	}
}

// hashing: both byte-slice arguments in the same layout
func vh_mem_hash(fn, m, d, layout int) {
	msg := vSlice("msg", m, layout)
	dst := vSlice("dst", d, layout)
	vFreeze(msg)
	vFreeze(dst)
	vMark()
	switch fn {
	case 0:
		vObserve("retp", HashToGroup(msg, dst))
	case 1:
		vObserve("retp", EncodeToGroup(msg, dst))
	case 2:
		vObserve("retp", HashToScalar(msg, dst))
	}
}

func vh_mem_hex(api, n int) {
	s := vScalar("s")
	p := vElement("p")
	h := vNondetHexString("h", n)
	vMark()
	switch api {
	case 0:
		vObserve("err", s.DecodeHex(h))
	case 1:
		vObserve("err", p.DecodeHex(h))
	case 2:
		vObserve("str", s.Hex())
	case 3:
		vObserve("str", p.Hex())
	}
}

func vh_mem_coords() {
	p := vElement("p")
	var x, y [32]byte
	copy(x[:], vNondetBytes("x", 32))
	copy(y[:], vNondetBytes("y", 32))
	vMark()
	vObserve("err", p.DecodeCoordinates(x, y))
}
