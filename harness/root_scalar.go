package secp256k1

func vh_bits() {
	s := vScalar("s")
	out := s.Bits()
	vObserve("S", s.S)
	vObserve("bits", out)
}
