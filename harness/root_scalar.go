package secp256k1

func vh_bits() {
	s := vScalar("s")
	out := s.Bits()
	vObserve("S", s.S)
	vObserve("bits", out)
}

// ---- C13 ----

func vh_cmp() {
	s := vScalar("s")
	t := vScalar("t")
	vFreeze(t)
	eq := s.Equal(t)
	le := s.LessOrEqual(t)
	z := s.IsZero()
	o := s.IsOne()
	vObserve("eq", eq)
	vObserve("le", le)
	vObserve("iszero", z)
	vObserve("isone", o)
	vObserve("S", s.S)
	vObserve("T", t.S)
}

func vh_cmp_self() {
	s := vScalar("s")
	vObserve("eq", s.Equal(s))
	vObserve("le", s.LessOrEqual(s))
}

func vh_equal_nil() {
	s := vScalar("s")
	vObserve("eq", s.Equal(nil))
}

// alias: 0 all distinct, 1 u==v, 2 r==u, 3 r==v, 4 all the same
func vh_cselect(alias int) {
	r := vScalar("r")
	u := vScalar("u")
	v := vScalar("v")
	switch alias {
	case 1:
		v = u
	case 2:
		u = r
	case 3:
		v = r
	case 4:
		u = r
		v = r
	}
	c := vNondetU64("c")
	us, vs := u.S, v.S
	err := r.CSelect(c, u, v)
	vObserve("err", err)
	vObserve("R", r.S)
	vObserve("U0", us)
	vObserve("V0", vs)
	vObserve("U1", u.S)
	vObserve("V1", v.S)
}

// which: 0 u nil, 1 v nil, 2 both nil
func vh_cselect_nil(which int) {
	r := vScalar("r")
	u := vScalar("u")
	v := vScalar("v")
	if which == 0 || which == 2 {
		u = nil
	}
	if which == 1 || which == 2 {
		v = nil
	}
	c := vNondetU64("c")
	r0 := r.S
	err := r.CSelect(c, u, v)
	vObserve("err", err)
	vObserve("R0", r0)
	vObserve("R", r.S)
}

// ---- C07 ----

func vh_scalar_decode(n int, via int) {
	in := vNondetBytes("in", n)
	s := vScalar("s")
	vFreeze(in)
	s0 := s.S
	var err error
	switch via {
	case 0:
		err = s.Decode(in)
	case 1:
		err = s.UnmarshalBinary(in)
	}
	vObserve("err", err)
	vObserve("S0", s0)
	vObserve("S", s.S)
}

func vh_scalar_decode_nil() {
	s := vScalar("s")
	vObserve("err", s.Decode(nil))
}

func vh_scalar_encode(via int) {
	s := vScalar("s")
	s0 := s.S
	var out []byte
	var err error
	vMark()
	switch via {
	case 0:
		out = s.Encode()
	case 1:
		out, err = s.MarshalBinary()
	}
	vObserve("out", out)
	vObserve("err", err)
	vObserve("S0", s0)
	vObserve("S", s.S)
}

func vh_scalar_roundtrip() {
	s := vScalar("s")
	t := vScalar("t")
	err := t.Decode(s.Encode())
	vObserve("err", err)
	vObserve("S", s.S)
	vObserve("T", t.S)
}

func vh_scalar_roundtrip2() {
	in := vNondetBytes("in", 32)
	t := vScalar("t")
	err := t.Decode(in)
	vObserve("err", err)
	vObserve("out", t.Encode())
}

func vh_scalar_hex_roundtrip() {
	s := vScalar("s")
	t := vScalar("t")
	err := t.DecodeHex(s.Hex())
	vObserve("err", err)
	vObserve("S", s.S)
	vObserve("T", t.S)
}

// hex string of 2n digits decoding to arbitrary bytes, or an invalid string
func vh_scalar_decodehex(n int) {
	h := vNondetHexString("h", n)
	s := vScalar("s")
	s0 := s.S
	err := s.DecodeHex(h)
	vObserve("err", err)
	vObserve("S0", s0)
	vObserve("S", s.S)
}

// ---- C18 ----

func vh_random() {
	s := vScalar("s")
	r := s.Random()
	vObserve("same", r == s)
	vObserve("S", s.S)
}
