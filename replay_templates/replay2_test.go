package secp256k1

import (
	"time"
	"bytes"
	"crypto/rand"
	"errors"
	"io"
	"math/big"
	"testing"
)

type vScriptReader struct {
	data  []byte
	chunk int // maximal number of bytes delivered per Read call (0 = as many as requested)
}

func (r *vScriptReader) Read(p []byte) (int, error) {
	if len(r.data) == 0 {
		return 0, errors.New("scripted entropy failure")
	}
	if r.chunk > 0 && len(p) > r.chunk {
		p = p[:r.chunk]
	}
	n := copy(p, r.data)
	r.data = r.data[n:]
	return n, nil
}

var _ io.Reader = (*vScriptReader)(nil)

func vRunCase2(t *testing.T, c vCase) (msg string) {
	switch c.Kind {
	case "random":
		stream := vHex(c.A)
		var want *big.Int
		// the stream is the concatenation of everything the source delivers, however it is chunked
		for i := 0; i+32 <= len(stream); i += 32 {
			v := new(big.Int).SetBytes(stream[i : i+32])
			v.Mod(v, vN)
			if v.Sign() != 0 {
				want = v
				break
			}
		}
		old := rand.Reader
		defer func() { rand.Reader = old }()
		// the receiver's previous value must not matter: fresh, one, minus one, and a previously drawn value
		var got *Scalar
		panicked := false
		for ri, recv := range []func() *Scalar{NewScalar, func() *Scalar { return NewScalar().One() }, func() *Scalar { return NewScalar().MinusOne() },
			func() *Scalar { return vScalarOf(t, big.NewInt(424242)) }} {
			rd := &vScriptReader{data: append([]byte(nil), stream...), chunk: c.N}
			rand.Reader = rd
			p2 := false
			var g2 *Scalar
			done := make(chan struct{})
			go func() {
				defer close(done)
				defer func() {
					if r := recover(); r != nil {
						p2 = true
					}
				}()
				g2 = recv().Random()
			}()
			select {
			case <-done:
			case <-time.After(4 * time.Second):
				return "Random does not return on this stream (it keeps drawing from a source that has failed)"
			}
			if ri == 0 {
				got, panicked = g2, p2
				continue
			}
			if p2 != panicked || (!p2 && !bytes.Equal(g2.Encode(), got.Encode())) {
				return "Random depends on the receiver's previous value (receiver variant " + itoa(ri) + ")"
			}
		}
		if want == nil {
			if !panicked {
				return "entropy source failed before any usable block but Random returned " + got.Hex()
			}
			return ""
		}
		if panicked {
			return "Random panicked although a usable block was delivered"
		}
		if !bytes.Equal(got.Encode(), vPad32(want)) {
			return "Random = " + got.Hex() + ", want first non-zero block mod n = " + want.Text(16)
		}
		if got.IsZero() {
			return "Random returned zero"
		}
	default:
		return vRunCase3(t, c)
	}
	return ""
}
