package secp256k1

// Ownership battery: every API function that takes or returns byte slices / pointers is called with
// caller-owned buffers in three layouts; the whole backing arrays and all non-receiver operands are
// compared before and after, and returned buffers are overwritten to check independence.

import (
	"bytes"
	"math/big"
	"testing"
)

func vLayout(content []byte, layout int) (slice, backing []byte) {
	n := len(content)
	switch layout {
	case 1:
		b := bytes.Repeat([]byte{0x58}, n+8)
		copy(b, content)
		return b[:n], b
	case 2:
		b := bytes.Repeat([]byte{0x58}, n+11)
		copy(b[3:], content)
		return b[3 : 3+n : 3+n+2], b
	}
	b := append([]byte{}, content...)
	return b, b
}

func vRunCase6(t *testing.T, c vCase) (msg string) {
	switch c.Kind {
	case "mem":
		// every buffer ever passed to the library is kept and re-checked at the end: a later call must not write into it either
		var heldBufs, heldSnap [][]byte
		var heldName []string
		defer func() {
			if msg != "" {
				return
			}
			for i := range heldBufs {
				if !bytes.Equal(heldBufs[i], heldSnap[i]) {
					msg = "the buffer passed to an earlier " + heldName[i] + " call (|arg|=" + itoa(len(heldSnap[i])) + ") was modified by a LATER call"
					return
				}
			}
		}()
		g := vMulPt(big.NewInt(7), vG())
		enc := vSec1(g, true)
		unc := vSec1(g, false)
		sc := vPad32(big.NewInt(123456789))
		for layout := 0; layout < 3; layout++ {
			type call struct {
				name string
				in   []byte
				f    func(in []byte)
			}
			calls := []call{
				{"Scalar.Decode", sc, func(in []byte) { _ = NewScalar().Decode(in) }},
				{"Scalar.UnmarshalBinary", sc, func(in []byte) { _ = NewScalar().UnmarshalBinary(in) }},
				{"Scalar.Decode(short)", sc[:5], func(in []byte) { _ = NewScalar().Decode(in) }},
				{"Element.Decode", enc, func(in []byte) { _ = NewElement().Decode(in) }},
				{"Element.Decode(uncompressed)", unc, func(in []byte) { _ = NewElement().Decode(in) }},
				{"Element.DecodeCompressed", enc, func(in []byte) { _ = NewElement().DecodeCompressed(in) }},
				{"Element.DecodeUncompressed", unc, func(in []byte) { _ = NewElement().DecodeUncompressed(in) }},
				{"Element.UnmarshalBinary", enc, func(in []byte) { _ = NewElement().UnmarshalBinary(in) }},
			}
			for _, dl := range []int{1, 16, 255, 256, 300} {
				dst := bytes.Repeat([]byte{0x44}, dl)
				for _, ml := range []int{0, 1, 64} {
					m := bytes.Repeat([]byte{0x4d}, ml)
					ms, mb := vLayout(m, layout)
					mcopy := append([]byte{}, mb...)
					calls = append(calls,
						call{"HashToGroup(dst)", dst, func(in []byte) { HashToGroup(ms, in) }},
						call{"EncodeToGroup(dst)", dst, func(in []byte) { EncodeToGroup(ms, in) }},
						call{"HashToScalar(dst)", dst, func(in []byte) { HashToScalar(ms, in) }})
					_ = mcopy
				}
				d2, _ := vLayout(dst, 0)
				calls = append(calls, call{"HashToGroup(msg)", bytes.Repeat([]byte{0x4d}, 17), func(in []byte) { HashToGroup(in, d2) }},
					call{"HashToScalar(msg)", bytes.Repeat([]byte{0x4d}, 17), func(in []byte) { HashToScalar(in, d2) }})
			}
			for _, cl := range calls {
				s, backing := vLayout(cl.in, layout)
				before := append([]byte{}, backing...)
				heldBufs = append(heldBufs, backing)
				heldSnap = append(heldSnap, before)
				heldName = append(heldName, cl.name)
				func() {
					defer func() { _ = recover() }() // a panicking call is another property's business; the buffers are compared all the same
					cl.f(s)
				}()
				if !bytes.Equal(before, backing) {
					for i := range before {
						if before[i] != backing[i] {
							return cl.name + " wrote to the caller's buffer (layout " + itoa(layout) + ", |arg|=" + itoa(len(cl.in)) + ") at backing index " + itoa(i) + " (slice index " + itoa(i-map[int]int{0: 0, 1: 0, 2: 3}[layout]) + ")"
						}
					}
				}
			}
		}
		// pointer operands
		s, u, v := vScalarOf(t, big.NewInt(5)), vScalarOf(t, big.NewInt(9)), vScalarOf(t, big.NewInt(11))
		ub, vb := u.Encode(), v.Encode()
		s.Add(u).Subtract(v).Multiply(u).Pow(v)
		s.Equal(u)
		s.LessOrEqual(v)
		_ = s.CSelect(1, u, v)
		s.Set(u)
		if !bytes.Equal(ub, u.Encode()) || !bytes.Equal(vb, v.Encode()) {
			return "a scalar operand was modified"
		}
		e, f := vElementOf(g, big.NewInt(3)), vElementOf(vAddPt(g, g), big.NewInt(5))
		fb := f.Encode()
		e.Add(f).Subtract(f)
		e.Equal(f)
		e.Multiply(u)
		e.Set(f)
		// identity receivers take different routes through some implementations
		for _, idr := range []*Element{NewElement(), vElementOf(vInf(), big.NewInt(9)), NewElement().Identity()} {
			idr.Subtract(f)
			if !bytes.Equal(fb, f.Encode()) {
				return "Subtract with an identity receiver modified its operand"
			}
			idr.Identity().Add(f)
			if !bytes.Equal(fb, f.Encode()) {
				return "Add with an identity receiver modified its operand"
			}
		}
		if !bytes.Equal(fb, f.Encode()) || !bytes.Equal(ub, u.Encode()) {
			return "an element/scalar operand was modified"
		}
		// returned buffers are independent
		for _, pt := range []vPt{g, vInf()} {
			e = vElementOf(pt, big.NewInt(3))
			id := NewElement()
			gets := map[string]func() []byte{"Element.Encode": e.Encode, "Element.EncodeUncompressed": e.EncodeUncompressed, "Element.XCoordinate": e.XCoordinate,
				"Scalar.Encode": u.Encode, "Order": Order}
			if pt.inf {
				gets["NewElement().EncodeUncompressed"] = id.EncodeUncompressed
				gets["NewElement().Encode"] = id.Encode
			}
			for name, get := range gets {
				a := get()
				ref := append([]byte{}, a...)
				for i := range a[:cap(a)] {
					a[:cap(a)][i] ^= 0xff
				}
				if b := get(); !bytes.Equal(b, ref) {
					return name + ": writing to a returned buffer changed a later result (identity=" + itoa(b2i(pt.inf)) + ")"
				}
			}
		}
		// buffers handed to EARLIER calls stay untouched by later ones (a library that keeps a caller's slice and reuses it later)
		for _, fn := range []func(m, d []byte){func(m, d []byte) { HashToGroup(m, d) }, func(m, d []byte) { EncodeToGroup(m, d) }, func(m, d []byte) { HashToScalar(m, d) }} {
			for _, lens := range [][2]int{{300, 40}, {64, 20}, {40, 40}, {20, 19}, {256, 255}} {
				d1, b1 := vLayout(bytes.Repeat([]byte{0x51}, lens[0]), 1)
				m1, mb1 := vLayout(bytes.Repeat([]byte{0x52}, 48), 1)
				before, mbefore := append([]byte{}, b1...), append([]byte{}, mb1...)
				safe := func(m, d []byte) {
					defer func() { _ = recover() }()
					fn(m, d)
				}
				safe(m1, d1)
				safe(bytes.Repeat([]byte{0x61}, 17), bytes.Repeat([]byte{0x62}, lens[1]))
				safe(bytes.Repeat([]byte{0x63}, 48), bytes.Repeat([]byte{0x64}, lens[1]+1))
				if !bytes.Equal(before, b1) || !bytes.Equal(mbefore, mb1) {
					return "a later hashing call wrote into the DST/message buffer passed to an earlier call (|dst| " + itoa(lens[0]) + " then " + itoa(lens[1]) + ")"
				}
			}
		}
		for _, dec := range []func(in []byte){func(in []byte) { _ = NewElement().Decode(in) }, func(in []byte) { _ = NewScalar().Decode(in) }} {
			in1, bk1 := vLayout(append([]byte{}, enc...), 1)
			keep := append([]byte{}, bk1...)
			dec(in1)
			dec(vSec1(vMulPt(big.NewInt(9), vG()), true))
			dec(vPad32(big.NewInt(77)))
			if !bytes.Equal(keep, bk1) {
				return "a later Decode wrote into the buffer passed to an earlier Decode"
			}
		}
		e = vElementOf(g, big.NewInt(3))
		cp := e.Copy()
		cp.Double()
		if got, _ := vPointOf(e); !vSame(got, g) {
			return "Element.Copy shares storage with its source"
		}
		sc2 := u.Copy()
		sc2.Add(v)
		if !bytes.Equal(ub, u.Encode()) {
			return "Scalar.Copy shares storage with its source"
		}
	default:
		return vRunCase7(t, c)
	}
	return ""
}
