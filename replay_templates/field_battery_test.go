package field

// Boundary / seeded battery for the Element API, used to turn a failed solver obligation of the
// field layer into a concrete, replayable witness (oracle: math/big).

import (
	"bytes"
	"encoding/json"
	"math/big"
	"math/rand"
	"os"
	"strconv"
	"testing"
)

func vElemOf(v *big.Int) *Element {
	var b [32]byte
	new(big.Int).Mod(v, vM).FillBytes(b[:])
	e, _ := New().FromBytesWithReduce(b)
	return e
}

func vValue(e *Element) *big.Int { return new(big.Int).SetBytes(e.Bytes()) }

func TestVerifBattery(t *testing.T) {
	raw, err := os.ReadFile(os.Getenv("VERIF_REPLAY"))
	if err != nil {
		t.Skip("no VERIF_REPLAY")
	}
	var f struct {
		Cases []vCase `json:"cases"`
	}
	if err := json.Unmarshal(raw, &f); err != nil {
		t.Fatal(err)
	}
	for _, c := range f.Cases {
		if c.Kind != "field-battery" {
			continue
		}
		seed, _ := strconv.Atoi(c.Op)
		rng := rand.New(rand.NewSource(int64(seed) + 1))
		one := big.NewInt(1)
		vals := []*big.Int{big.NewInt(0), one, big.NewInt(2), new(big.Int).Sub(vM, one), new(big.Int).Sub(vM, big.NewInt(2)),
			new(big.Int).Lsh(one, 64), new(big.Int).Lsh(one, 128), new(big.Int).Lsh(one, 192), new(big.Int).Lsh(one, 255),
			new(big.Int).Sub(new(big.Int).Lsh(one, 64), one), big.NewInt(11), big.NewInt(7)}
		for i := 0; i < 12; i++ {
			vals = append(vals, new(big.Int).Rand(rng, vM))
		}
		bad := func(format string, a ...interface{}) { t.Errorf("MISMATCH kind=field-battery: "+format, a...) }
		for _, a := range vals {
			ea := vElemOf(a)
			if vValue(ea).Cmp(new(big.Int).Mod(a, vM)) != 0 {
				bad("Bytes(FromBytes(%x)) = %x", a, vValue(ea))
			}
			if (ea.IsZero() == 1) != (a.Sign() == 0) {
				bad("IsZero(%x)", a)
			}
			if ea.Sgn0() != uint64(a.Bit(0)) {
				bad("Sgn0(%x) = %d", a, ea.Sgn0())
			}
			inv := New().Invert(*ea)
			want := new(big.Int).ModInverse(a, vM)
			if want == nil {
				want = big.NewInt(0)
			}
			if vValue(inv).Cmp(want) != 0 {
				bad("Invert(%x) = %x want %x", a, vValue(inv), want)
			}
			if w := new(big.Int).Mod(new(big.Int).Neg(a), vM); vValue(New().Negate(ea)).Cmp(w) != 0 {
				bad("Negate(%x)", a)
			}
			if w := new(big.Int).Mod(new(big.Int).Mul(a, a), vM); vValue(New().Square(ea)).Cmp(w) != 0 {
				bad("Square(%x)", a)
			}
			for _, b := range vals {
				eb := vElemOf(b)
				chk := func(name string, got *Element, w *big.Int) {
					w.Mod(w, vM)
					if vValue(got).Cmp(w) != 0 {
						bad("%s(%x,%x) = %x want %x", name, a, b, vValue(got), w)
					}
				}
				chk("Add", New().Add(ea, eb), new(big.Int).Add(a, b))
				chk("Subtract", New().Subtract(ea, eb), new(big.Int).Sub(a, b))
				chk("Multiply", New().Multiply(ea, eb), new(big.Int).Mul(a, b))
				if (ea.Equals(eb) == 1) != (a.Cmp(b) == 0) {
					bad("Equals(%x,%x)", a, b)
				}
				if vValue(New().CMove(0, ea, eb)).Cmp(a) != 0 || vValue(New().CMove(1, ea, eb)).Cmp(b) != 0 {
					bad("CMove(%x,%x)", a, b)
				}
				if b.Sign() != 0 {
					// sqrt_ratio(a, b)
					y, ok := New().SqrtRatio(ea, eb)
					ratio := new(big.Int).Mul(a, new(big.Int).ModInverse(b, vM))
					ratio.Mod(ratio, vM)
					isSq := ratio.Sign() == 0 || big.Jacobi(ratio, vM) == 1
					y2 := new(big.Int).Mod(new(big.Int).Mul(vValue(y), vValue(y)), vM)
					if isSq {
						if ok != 1 || y2.Cmp(ratio) != 0 {
							bad("SqrtRatio(%x,%x): square ratio, ok=%d y^2=%x", a, b, ok, y2)
						}
					} else {
						zr := new(big.Int).Mod(new(big.Int).Mul(ratio, new(big.Int).Sub(vM, big.NewInt(11))), vM)
						if ok != 0 || y2.Cmp(zr) != 0 {
							bad("SqrtRatio(%x,%x): non-square ratio, ok=%d y^2=%x want Z*u/v=%x", a, b, ok, y2, zr)
						}
					}
				}
			}
		}
		// parsers / serialiser / wide reduction
		for i := 0; i < 40; i++ {
			var in [32]byte
			rng.Read(in[:])
			if i%4 == 0 {
				for j := 0; j < 27; j++ {
					in[j] = 0xff
				}
			}
			if i == 1 {
				vM.FillBytes(in[:])
			}
			if i == 2 {
				new(big.Int).Sub(vM, one).FillBytes(in[:])
			}
			v := new(big.Int).SetBytes(in[:])
			e, red := New().FromBytesWithReduce(in)
			if (red == 1) != (v.Cmp(vM) < 0) {
				bad("FromBytesWithReduce(%x) flag=%d", in, red)
			}
			if vValue(e).Cmp(new(big.Int).Mod(v, vM)) != 0 {
				bad("FromBytesWithReduce(%x) value", in)
			}
			var out [32]byte
			new(big.Int).Mod(v, vM).FillBytes(out[:])
			if !bytes.Equal(e.Bytes(), out[:]) {
				bad("Bytes of %x", in)
			}
			var w [48]byte
			rng.Read(w[:])
			if i%5 == 0 {
				for j := range w {
					w[j] = 0xff
				}
			}
			wv := new(big.Int).Mod(new(big.Int).SetBytes(w[:]), vM)
			if vValue(New().HashToFieldElement(w)).Cmp(wv) != 0 {
				bad("HashToFieldElement(%x)", w)
			}
		}
	}
}
