package field

// Boundary / seeded battery for the Element API, used to turn a failed solver obligation of the
// field layer into a concrete, replayable witness (oracle: math/big).

import (
	"bytes"
	"encoding/hex"
	"encoding/json"
	"fmt"
	"math/big"
	"math/rand"
	"os"
	"strconv"
	"strings"
	"testing"
)

func vElemOf(v *big.Int) *Element {
	// built directly from the Montgomery limbs of v (v * 2^256 mod p)
	m := new(big.Int).Mod(new(big.Int).Lsh(new(big.Int).Mod(v, vM), 256), vM)
	e := New()
	mask := new(big.Int).SetUint64(^uint64(0))
	for i := 0; i < 4; i++ {
		e.E[i] = new(big.Int).And(new(big.Int).Rsh(m, uint(64*i)), mask).Uint64()
	}
	return e
}

// vFreshOnly: the embedding check's code only passes fresh or aliased receivers, so the battery does the same.
var vFreshOnly bool

// vJunk is a receiver that already holds an unrelated non-zero value: results must not depend on it.
func vJunk() *Element {
	if vFreshOnly {
		return New()
	}
	j, _ := new(big.Int).SetString("6a09e667f3bcc908b2fb1366ea957d3e3adec17512775099da2f590b0667322a", 16)
	return vElemOf(j)
}

func vValue(e *Element) *big.Int { return new(big.Int).SetBytes(e.Bytes()) }

func TestVerifBattery(t *testing.T) {
	raw, err := os.ReadFile(os.Getenv("VERIF_REPLAY"))
	if err != nil {
		t.Skip("no VERIF_REPLAY")
	}
	var f struct {
		Cases []vCase `json:"cases"`
	}
	if err := json.Unmarshal(raw, &f); err != nil {
		t.Fatal(err)
	}
	for _, c := range f.Cases {
		if c.Kind == "field-limbs" {
			vFieldLimbs(t, c)
			continue
		}
		if c.Kind == "field-reduce" {
			vFieldReduce(t, c)
			continue
		}
		if c.Kind != "field-battery" {
			continue
		}
		seed, _ := strconv.Atoi(c.Op)
		vFreshOnly = c.C != ""
		on := func(names ...string) bool {
			if c.B == "" {
				return true
			}
			for _, n := range names {
				for _, w := range strings.Split(c.B, ",") {
					if w == n {
						return true
					}
				}
			}
			return false
		}
		rng := rand.New(rand.NewSource(int64(seed) + 1))
		one := big.NewInt(1)
		bad := func(format string, a ...interface{}) {
			msg := fmt.Sprintf(format, a...)
			name := msg
			for i, r := range msg {
				if !(r >= 'a' && r <= 'z' || r >= 'A' && r <= 'Z' || r >= '0' && r <= '9') {
					name = msg[:i]
					break
				}
			}
			if on(name) { // only the methods the embedding check relies on (all of them for C12 itself)
				t.Errorf("MISMATCH kind=field-battery: %s", msg)
			}
		}
		vals := []*big.Int{big.NewInt(0), one, big.NewInt(2), new(big.Int).Sub(vM, one), new(big.Int).Sub(vM, big.NewInt(2)),
			new(big.Int).Lsh(one, 64), new(big.Int).Lsh(one, 128), new(big.Int).Lsh(one, 192), new(big.Int).Lsh(one, 255),
			new(big.Int).Sub(new(big.Int).Lsh(one, 64), one), big.NewInt(11), big.NewInt(7)}
		for i := 0; i < 12; i++ {
			vals = append(vals, new(big.Int).Rand(rng, vM))
		}
		// values whose MONTGOMERY limbs are sparse (words with zero halves, single non-zero limbs)
		Rinv := new(big.Int).ModInverse(new(big.Int).Lsh(one, 256), vM)
		for _, l := range [][4]uint64{{1, 0, 0, 0}, {2, 0, 0, 0}, {0x3d1, 0, 0, 0}, {0, 0, 0, 1}, {0, 0, 0, 0xdeadbeef}, {1 << 32, 0, 0, 0}, {0, 1 << 32, 0, 5 << 32}, {0x1000003d1, 0, 0, 7}, {0, 0, 1, 0}, {^uint64(0), 0, 0, 0}, {0, 0, 0, 1 << 63}} {
			vals = append(vals, new(big.Int).Mod(new(big.Int).Mul(vValOf(l), Rinv), vM))
		}
		canon := func(what string, e *Element) {
			if vValOf(e.E).Cmp(vM) >= 0 {
				bad("%s leaves a non-canonical stored value %x", what, vValOf(e.E))
			}
		}
		// results that are byte slices belong to the caller: holding several of them, and writing to one, changes none of the others
		{
			held := make([][]byte, 0, len(vals))
			for _, a := range vals {
				held = append(held, vElemOf(a).Bytes())
			}
			for i, a := range vals {
				want := make([]byte, 32)
				new(big.Int).Mod(a, vM).FillBytes(want)
				if !bytes.Equal(held[i], want) {
					bad("Bytes(%x) changed after later Bytes() calls: %x", a, held[i])
					break
				}
				for j := range held[i] {
					held[i][j] ^= 0xff
				}
			}
		}
		for _, a := range vals {
			ea := vElemOf(a)
			if vValue(ea).Cmp(new(big.Int).Mod(a, vM)) != 0 {
				bad("Bytes(FromBytes(%x)) = %x", a, vValue(ea))
			}
			if (ea.IsZero() == 1) != (a.Sign() == 0) {
				bad("IsZero(%x)", a)
			}
			if ea.Sgn0() != uint64(a.Bit(0)) {
				bad("Sgn0(%x) = %d", a, ea.Sgn0())
			}
			inv := vJunk().Invert(*ea)
			want := new(big.Int).ModInverse(a, vM)
			if want == nil {
				want = big.NewInt(0)
			}
			if vValue(inv).Cmp(want) != 0 {
				bad("Invert(%x) = %x want %x", a, vValue(inv), want)
			}
			ng := vJunk().Negate(ea)
			if w := new(big.Int).Mod(new(big.Int).Neg(a), vM); vValue(ng).Cmp(w) != 0 {
				bad("Negate(%x)", a)
			}
			canon("Negate", ng)
			if (ng.IsZero() == 1) != (a.Sign() == 0) || (ng.Equals(vElemOf(big.NewInt(0))) == 1) != (a.Sign() == 0) {
				bad("IsZero/Equals(Negate(%x)) inconsistent with the value", a)
			}
			canon("Invert", inv)
			if w := new(big.Int).Mod(new(big.Int).Mul(a, a), vM); vValue(vJunk().Square(ea)).Cmp(w) != 0 {
				bad("Square(%x)", a)
			}
			for _, b := range vals {
				eb := vElemOf(b)
				chk := func(name string, got *Element, w *big.Int) {
					w.Mod(w, vM)
					if vValue(got).Cmp(w) != 0 {
						bad("%s(%x,%x) = %x want %x", name, a, b, vValue(got), w)
					}
					canon(name, got)
				}
				chk("Add", vJunk().Add(ea, eb), new(big.Int).Add(a, b))
				chk("Subtract", vJunk().Subtract(ea, eb), new(big.Int).Sub(a, b))
				chk("Multiply", vJunk().Multiply(ea, eb), new(big.Int).Mul(a, b))
				if (ea.Equals(eb) == 1) != (a.Cmp(b) == 0) {
					bad("Equals(%x,%x)", a, b)
				}
				if vValue(vJunk().CMove(0, ea, eb)).Cmp(a) != 0 || vValue(vJunk().CMove(1, ea, eb)).Cmp(b) != 0 {
					bad("CMove(%x,%x)", a, b)
				}
				if b.Sign() != 0 {
					// sqrt_ratio(a, b)
					for alias := 1; alias <= 2; alias++ {
						u2, v2 := vElemOf(a), vElemOf(b)
						recv := u2
						if alias == 2 {
							recv = v2
						}
						ya, oka := recv.SqrtRatio(u2, v2)
						yf, okf := vJunk().SqrtRatio(vElemOf(a), vElemOf(b))
						if oka != okf || vValue(ya).Cmp(vValue(yf)) != 0 {
							bad("AliasedSqrtRatio(%x,%x): receiver aliasing operand %d differs from the unaliased call", a, b, alias)
						}
					}
					y, ok := vJunk().SqrtRatio(ea, eb)
					ratio := new(big.Int).Mul(a, new(big.Int).ModInverse(b, vM))
					ratio.Mod(ratio, vM)
					isSq := ratio.Sign() == 0 || big.Jacobi(ratio, vM) == 1
					y2 := new(big.Int).Mod(new(big.Int).Mul(vValue(y), vValue(y)), vM)
					if isSq {
						if ok != 1 || y2.Cmp(ratio) != 0 {
							bad("SqrtRatio(%x,%x): square ratio, ok=%d y^2=%x", a, b, ok, y2)
						}
					} else {
						zr := new(big.Int).Mod(new(big.Int).Mul(ratio, new(big.Int).Sub(vM, big.NewInt(11))), vM)
						if ok != 0 || y2.Cmp(zr) != 0 {
							bad("SqrtRatio(%x,%x): non-square ratio, ok=%d y^2=%x want Z*u/v=%x", a, b, ok, y2, zr)
						}
					}
				}
			}
		}
		// parsers / serialiser / wide reduction
		for i := 0; i < 40; i++ {
			var in [32]byte
			rng.Read(in[:])
			if i%4 == 0 {
				for j := 0; j < 27; j++ {
					in[j] = 0xff
				}
			}
			if i == 1 {
				vM.FillBytes(in[:])
			}
			if i == 2 {
				new(big.Int).Sub(vM, one).FillBytes(in[:])
			}
			v := new(big.Int).SetBytes(in[:])
			e, red := vJunk().FromBytesWithReduce(in)
			if (red == 1) != (v.Cmp(vM) < 0) {
				bad("FromBytesWithReduce(%x) flag=%d", in, red)
			}
			if vValue(e).Cmp(new(big.Int).Mod(v, vM)) != 0 {
				bad("FromBytesWithReduce(%x) value", in)
			}
			var out [32]byte
			new(big.Int).Mod(v, vM).FillBytes(out[:])
			if !bytes.Equal(e.Bytes(), out[:]) {
				bad("Bytes of %x", in)
			}
			var w [48]byte
			rng.Read(w[:])
			if i%5 == 0 {
				for j := range w {
					w[j] = 0xff
				}
			}
			wv := new(big.Int).Mod(new(big.Int).SetBytes(w[:]), vM)
			if vValue(vJunk().HashToFieldElement(w)).Cmp(wv) != 0 {
				bad("HashToFieldElement(%x)", w)
			}
		}
	}
}

// vFieldLimbs replays one Element method on operands given by their Montgomery limbs (solver model).
func vFieldLimbs(t *testing.T, c vCase) {
	R := new(big.Int).Lsh(big.NewInt(1), 256)
	Ri := new(big.Int).ModInverse(R, vM)
	val := func(l [4]uint64) *big.Int { return new(big.Int).Mod(new(big.Int).Mul(vValOf(l), Ri), vM) }
	la, lb := vLimbsOf(c.A), vLimbsOf(c.B)
	ea, eb := &Element{E: la}, &Element{E: lb}
	a, b := val(la), val(lb)
	bad := func(format string, x ...interface{}) {
		t.Errorf("MISMATCH kind=field-limbs op="+c.Op+": "+format, x...)
	}
	res := New()
	var want *big.Int
	switch c.Op {
	case "Add":
		res.Add(ea, eb)
		want = new(big.Int).Add(a, b)
	case "Subtract":
		res.Subtract(ea, eb)
		want = new(big.Int).Sub(a, b)
	case "Multiply":
		res.Multiply(ea, eb)
		want = new(big.Int).Mul(a, b)
	case "Negate":
		res.Negate(ea)
		want = new(big.Int).Neg(a)
	case "Square":
		res.Square(ea)
		want = new(big.Int).Mul(a, a)
	case "IsZero":
		if (ea.IsZero() == 1) != (a.Sign() == 0) {
			bad("IsZero(limbs %s) = %d but the value is %x", c.A, ea.IsZero(), a)
		}
		return
	case "Equals":
		if (ea.Equals(eb) == 1) != (a.Cmp(b) == 0) {
			bad("Equals(limbs %s, %s) = %d", c.A, c.B, ea.Equals(eb))
		}
		return
	case "Sgn0":
		if ea.Sgn0() != uint64(a.Bit(0)) {
			bad("Sgn0(limbs %s) = %d, value %x", c.A, ea.Sgn0(), a)
		}
		return
	case "Bytes":
		var out [32]byte
		a.FillBytes(out[:])
		if !bytes.Equal(ea.Bytes(), out[:]) {
			bad("Bytes(limbs %s) = %x", c.A, ea.Bytes())
		}
		return
	default:
		return
	}
	want.Mod(want, vM)
	if val(res.E).Cmp(want) != 0 || vValOf(res.E).Cmp(vM) >= 0 {
		bad("(%s, %s): stored %x (value %x), want value %x canonical", c.A, c.B, vValOf(res.E), val(res.E), want)
	}
}

// vFieldReduce replays a raw 256-bit word (a solver model of a failed Reduce obligation), as 32 big-endian bytes, through
// FromBytesWithReduce (the exported entry to Reduce), against math/big.
func vFieldReduce(t *testing.T, c vCase) {
	raw, err := hex.DecodeString(c.A)
	if err != nil || len(raw) != 32 {
		return
	}
	v := new(big.Int).SetBytes(raw)
	wantFlag := uint64(0)
	if v.Cmp(vM) < 0 {
		wantFlag = 1
	}
	want := new(big.Int).Mod(v, vM)
	var in [32]byte
	copy(in[:], raw)
	e, red := New().FromBytesWithReduce(in)
	var out [32]byte
	want.FillBytes(out[:])
	if red != wantFlag || !bytes.Equal(e.Bytes(), out[:]) {
		t.Errorf("MISMATCH kind=field-reduce: FromBytesWithReduce(%s) = %x flag %d, want %x flag %d", c.A, e.Bytes(), red, out, wantFlag)
	}
}
