package secp256k1

// Concurrency replay (run with -race): goroutines own their receivers and share every argument.

import (
	"bytes"
	"math/big"
	"sync"
	"testing"
)

func vRunCase7(t *testing.T, c vCase) (msg string) {
	switch c.Kind {
	case "race":
		sanityBefore := vSanity(t, "all") // facts already failing sequentially are some other property's business
		g := vMulPt(big.NewInt(7), vG())
		sharedEl := vElementOf(g, big.NewInt(3))
		sharedSc := vScalarOf(t, big.NewInt(987654321))
		mk := func(n int, b byte) []byte { // shared slices with spare capacity
			buf := bytes.Repeat([]byte{b}, n+8)
			return buf[:n]
		}
		dsts := [][]byte{mk(1, 'd'), mk(16, 'd'), mk(255, 'd'), mk(300, 'd')}
		m := mk(33, 'm')
		enc := append(make([]byte, 0, 40), vSec1(g, true)...)
		scb := append(make([]byte, 0, 40), vPad32(big.NewInt(77))...)
		// operations whose special cases may touch shared scratch state are run once sequentially first (identity: inversion of 0)
		idEnc := NewElement().Encode()
		_ = NewElement().EncodeUncompressed()
		sharedID := vElementOf(vInf(), big.NewInt(5))
		var sharedZero Element
		type res struct{ a, b, c, d, e []byte }
		const workers = 4
		out := make([]res, workers)
		var wg sync.WaitGroup
		for w := 0; w < workers; w++ {
			wg.Add(1)
			go func(w int) {
				defer wg.Done()
				var r res
				for _, dst := range dsts {
					r.a = append(r.a, HashToGroup(m, dst).Encode()...)
					r.a = append(r.a, EncodeToGroup(m, dst).Encode()...)
					r.a = append(r.a, HashToScalar(m, dst).Encode()...)
				}
				// a zero-value Element is not a group element, but it is a legal shared argument: nobody may write to it
				probe := NewElement().Base()
				probe.Add(&sharedZero)
				_ = probe.Equal(&sharedZero)
				NewElement().Set(&sharedZero)
				e := NewElement()
				_ = e.Decode(enc)
				e.Add(sharedEl).Subtract(sharedEl).Multiply(sharedSc).Double().Negate()
				eb, eu := e.Encode(), e.EncodeUncompressed()
				r.b = append(append([]byte{}, eb...), eu...)
				vScribble(eb)
				vScribble(eu)
				r.b = append(r.b, byte(e.Equal(sharedEl)), byte(sharedEl.Equal(e)))
				s := NewScalar()
				_ = s.Decode(scb)
				s.Add(sharedSc).Multiply(sharedSc).Subtract(sharedSc).Pow(sharedSc).Invert().Square()
				sb := s.Encode()
				r.c = append(append([]byte{}, sb...), byte(s.LessOrEqual(sharedSc)), byte(s.Equal(sharedSc)))
				vScribble(sb)
				_ = s.CSelect(1, sharedSc, sharedSc)
				ord := Order()
				r.d = append(append([]byte{}, ord...), NewElement().Base().Encode()...)
				vScribble(ord) // the caller owns what it was handed
				r.d = append(r.d, sharedEl.Copy().Encode()...)
				r.d = append(r.d, sharedID.Encode()...)
				r.d = append(r.d, NewElement().Set(sharedEl).Encode()...)
				r.d = append(r.d, idEnc...)
				r.d = append(r.d, sharedSc.Copy().Encode()...)
				bits := sharedSc.Bits()
				r.e = bits[:]
				NewScalar().Random()
				out[w] = r
			}(w)
		}
		wg.Wait()
		if !bytes.Equal(out[0].b[:33], func() []byte {
			e := NewElement()
			_ = e.Decode(enc)
			e.Add(sharedEl).Subtract(sharedEl).Multiply(sharedSc).Double().Negate()
			return e.Encode()
		}()) {
			return "a concurrent caller obtained a result different from the sequential one"
		}
		for w := 1; w < workers; w++ {
			if !bytes.Equal(out[w].a, out[0].a) || !bytes.Equal(out[w].b, out[0].b) || !bytes.Equal(out[w].c, out[0].c) || !bytes.Equal(out[w].d, out[0].d) || !bytes.Equal(out[w].e, out[0].e) {
				return "concurrent callers sharing read-only arguments obtained different results"
			}
		}
		for _, dst := range dsts {
			if !bytes.Equal(dst[:cap(dst)], bytes.Repeat([]byte{'d'}, cap(dst))) {
				return "a shared DST buffer was modified"
			}
		}
		// phase 2: every goroutine works on its OWN inputs (different points / scalars), many times: each call must
		// return what it returns when run alone (a process-wide memo or scratch shared between callers shows up here
		// even when every access to it is atomic)
		const w2 = 8
		type job struct {
			comp, unc []byte
			pt        vPt
			k         *big.Int
			kb        []byte
			prod      vPt
			msg, dst  []byte
			h2g, e2g  []byte
			h2s       []byte
		}
		jobs := make([]job, w2)
		for i := range jobs {
			k := big.NewInt(int64(1000003*i + 17))
			pt := vMulPt(big.NewInt(int64(i+2)), vG())
			msg, dst := []byte("race-message-"+itoa(i)), []byte("race-dst-"+itoa(i%3))
			jobs[i] = job{vSec1(pt, true), vSec1(pt, false), pt, k, vPad32(k), vMulPt(k, pt), msg, dst,
				vSec1(vHashToCurve(msg, dst, true), true), vSec1(vHashToCurve(msg, dst, false), true), vPad32(new(big.Int).Mod(new(big.Int).SetBytes(vExpandXMD(msg, dst, 48)), vN))}
		}
		errs := make([]string, w2)
		var wg2 sync.WaitGroup
		for i := 0; i < w2; i++ {
			wg2.Add(1)
			go func(i int) {
				defer wg2.Done()
				j := jobs[i]
				for it := 0; it < 150 && errs[i] == ""; it++ {
					e := NewElement()
					in := j.comp
					if it%3 == 2 {
						in = j.unc
					}
					if err := e.Decode(append([]byte{}, in...)); err != nil {
						errs[i] = "concurrent Decode of a valid encoding failed: " + err.Error()
						return
					}
					if got, ok := vPointOf(e); !ok || !vSame(got, j.pt) {
						errs[i] = "concurrent Decode returned another caller's point"
						return
					}
					// encodings of the identity and of the caller's own point, interleaved (an inversion of 0 next to inversions of others' Z)
					if !bytes.Equal(NewElement().Encode(), []byte{0}) || !bytes.Equal(e.Encode(), j.comp) || !bytes.Equal(vElementOf(j.pt, big.NewInt(int64(it+3))).EncodeUncompressed(), j.unc) {
						errs[i] = "a concurrent Encode returned bytes that are not the SEC1 encoding of the caller's own point"
						return
					}
					s := NewScalar()
					if err := s.Decode(j.kb); err != nil || vScalarVal(s).Cmp(j.k) != 0 {
						errs[i] = "concurrent Scalar.Decode returned a wrong value"
						return
					}
					if it%5 == 0 {
						if !bytes.Equal(HashToGroup(j.msg, j.dst).Encode(), j.h2g) || !bytes.Equal(EncodeToGroup(j.msg, j.dst).Encode(), j.e2g) || !bytes.Equal(HashToScalar(j.msg, j.dst).Encode(), j.h2s) {
							errs[i] = "a concurrent hashing call returned a value that is not the RFC 9380 result for its own (message, DST)"
							return
						}
					}
					if it%10 == 0 {
						if got, ok := vPointOf(e.Multiply(s)); !ok || !vSame(got, j.prod) {
							errs[i] = "concurrent Multiply returned a wrong product"
							return
						}
						if !bytes.Equal(Order(), vPad32(vN)) {
							errs[i] = "Order() is not n while other goroutines run"
							return
						}
					}
				}
			}(i)
		}
		wg2.Wait()
		for _, e := range errs {
			if e != "" {
				return e
			}
		}
		if m := vSanity(t, "all"); m != "" && sanityBefore == "" {
			return "after the concurrent phase: " + m
		}
	default:
		return vRunCase8(t, c)
	}
	return ""
}
