package secp256k1

// Concurrency replay (run with -race): goroutines own their receivers and share every argument.

import (
	"bytes"
	"math/big"
	"sync"
	"testing"
)

func vRunCase7(t *testing.T, c vCase) (msg string) {
	switch c.Kind {
	case "race":
		g := vMulPt(big.NewInt(7), vG())
		sharedEl := vElementOf(g, big.NewInt(3))
		sharedSc := vScalarOf(t, big.NewInt(987654321))
		mk := func(n int, b byte) []byte { // shared slices with spare capacity
			buf := bytes.Repeat([]byte{b}, n+8)
			return buf[:n]
		}
		dsts := [][]byte{mk(1, 'd'), mk(16, 'd'), mk(255, 'd'), mk(300, 'd')}
		m := mk(33, 'm')
		enc := append(make([]byte, 0, 40), vSec1(g, true)...)
		scb := append(make([]byte, 0, 40), vPad32(big.NewInt(77))...)
		// operations whose special cases may touch shared scratch state are run once sequentially first (identity: inversion of 0)
		idEnc := NewElement().Encode()
		_ = NewElement().EncodeUncompressed()
		sharedID := vElementOf(vInf(), big.NewInt(5))
		type res struct{ a, b, c, d, e []byte }
		const workers = 4
		out := make([]res, workers)
		var wg sync.WaitGroup
		for w := 0; w < workers; w++ {
			wg.Add(1)
			go func(w int) {
				defer wg.Done()
				var r res
				for _, dst := range dsts {
					r.a = append(r.a, HashToGroup(m, dst).Encode()...)
					r.a = append(r.a, EncodeToGroup(m, dst).Encode()...)
					r.a = append(r.a, HashToScalar(m, dst).Encode()...)
				}
				e := NewElement()
				_ = e.Decode(enc)
				e.Add(sharedEl).Subtract(sharedEl).Multiply(sharedSc).Double().Negate()
				r.b = e.Encode()
				r.b = append(r.b, e.EncodeUncompressed()...)
				r.b = append(r.b, byte(e.Equal(sharedEl)), byte(sharedEl.Equal(e)))
				s := NewScalar()
				_ = s.Decode(scb)
				s.Add(sharedSc).Multiply(sharedSc).Subtract(sharedSc).Pow(sharedSc).Invert().Square()
				r.c = s.Encode()
				r.c = append(r.c, byte(s.LessOrEqual(sharedSc)), byte(s.Equal(sharedSc)))
				_ = s.CSelect(1, sharedSc, sharedSc)
				r.d = append(Order(), NewElement().Base().Encode()...)
				r.d = append(r.d, sharedEl.Copy().Encode()...)
				r.d = append(r.d, sharedID.Encode()...)
				r.d = append(r.d, NewElement().Set(sharedEl).Encode()...)
				r.d = append(r.d, idEnc...)
				r.d = append(r.d, sharedSc.Copy().Encode()...)
				bits := sharedSc.Bits()
				r.e = bits[:]
				NewScalar().Random()
				out[w] = r
			}(w)
		}
		wg.Wait()
		if !bytes.Equal(out[0].b[:33], func() []byte {
			e := NewElement()
			_ = e.Decode(enc)
			e.Add(sharedEl).Subtract(sharedEl).Multiply(sharedSc).Double().Negate()
			return e.Encode()
		}()) {
			return "a concurrent caller obtained a result different from the sequential one"
		}
		for w := 1; w < workers; w++ {
			if !bytes.Equal(out[w].a, out[0].a) || !bytes.Equal(out[w].b, out[0].b) || !bytes.Equal(out[w].c, out[0].c) || !bytes.Equal(out[w].d, out[0].d) || !bytes.Equal(out[w].e, out[0].e) {
				return "concurrent callers sharing read-only arguments obtained different results"
			}
		}
		for _, dst := range dsts {
			if !bytes.Equal(dst[:cap(dst)], bytes.Repeat([]byte{'d'}, cap(dst))) {
				return "a shared DST buffer was modified"
			}
		}
	default:
		return vRunCase8(t, c)
	}
	return ""
}
