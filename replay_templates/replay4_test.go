package secp256k1

// Literal RFC 9380 oracle (math/big + real SHA-256): expand_message_xmd (5.3.1), hash_to_field (5.2),
// simplified SWU in its defining form (6.6.2), the 3-isogeny (E.1), hash_to_curve / encode_to_curve (3).

import (
	"bytes"
	"crypto/sha256"
	"encoding/hex"
	"math/big"
	"testing"

	"github.com/bytemare/secp256k1/internal/field"
)

var (
	vIsoA, _ = new(big.Int).SetString("3f8731abdd661adca08a5558f0f5d272e953d363cb6f0e5d405447c01a444533", 16)
	vIsoB    = big.NewInt(1771)
	vZ       = new(big.Int).Sub(vP, big.NewInt(11))
	vK       = map[string]*big.Int{}
)

func init() {
	for k, v := range map[string]string{
		"k10": "8e38e38e38e38e38e38e38e38e38e38e38e38e38e38e38e38e38e38daaaaa8c7",
		"k11": "07d3d4c80bc321d5b9f315cea7fd44c5d595d2fc0bf63b92dfff1044f17c6581",
		"k12": "534c328d23f234e6e2a413deca25caece4506144037c40314ecbd0b53d9dd262",
		"k13": "8e38e38e38e38e38e38e38e38e38e38e38e38e38e38e38e38e38e38daaaaa88c",
		"k20": "d35771193d94918a9ca34ccbb7b640dd86cd409542f8487d9fe6b745781eb49b",
		"k21": "edadc6f64383dc1df7c4b2d51b54225406d36b641f5e41bbc52a56612a8c6d14",
		"k30": "4bda12f684bda12f684bda12f684bda12f684bda12f684bda12f684b8e38e23c",
		"k31": "c75e0c32d5cb7c0fa9d0a54b12a0a6d5647ab046d686da6fdffc90fc201d71a3",
		"k32": "29a6194691f91a73715209ef6512e576722830a201be2018a765e85a9ecee931",
		"k33": "2f684bda12f684bda12f684bda12f684bda12f684bda12f684bda12f38e38d84",
		"k40": "fffffffffffffffffffffffffffffffffffffffffffffffffffffffefffff93b",
		"k41": "7a06534bb8bdb49fd5e9e6632722c2989467c1bfc8e8d978dfb425d2685c2573",
		"k42": "6484aa716545ca2cf3a70c3fa8fe337e0a3d21162f0d6299a7bf8192bfd2a76f",
	} {
		vK[k], _ = new(big.Int).SetString(v, 16)
	}
}

func vMul(a, b *big.Int) *big.Int { return vModP(new(big.Int).Mul(a, b)) }
func vAdd(a, b *big.Int) *big.Int { return vModP(new(big.Int).Add(a, b)) }
func vInv0(a *big.Int) *big.Int {
	if new(big.Int).Mod(a, vP).Sign() == 0 {
		return big.NewInt(0)
	}
	return new(big.Int).ModInverse(a, vP)
}
func vIsSquare(a *big.Int) bool {
	a = new(big.Int).Mod(a, vP)
	return a.Sign() == 0 || big.Jacobi(a, vP) == 1
}
func vSqrt(a *big.Int) *big.Int {
	e := new(big.Int).Add(vP, big.NewInt(1))
	e.Rsh(e, 2)
	return new(big.Int).Exp(a, e, vP)
}

// vSSWU: RFC 9380 section 6.6.2 (defining form) on E': y^2 = x^3 + A'x + B'.
func vSSWU(u *big.Int) (x, y *big.Int) {
	u2 := vMul(u, u)
	zu2 := vMul(vZ, u2)
	tv1 := vInv0(vAdd(vMul(zu2, zu2), zu2))
	minusBoverA := vMul(vModP(new(big.Int).Neg(vIsoB)), vInv0(vIsoA))
	x1 := vMul(minusBoverA, vAdd(big.NewInt(1), tv1))
	if tv1.Sign() == 0 {
		x1 = vMul(vIsoB, vInv0(vMul(vZ, vIsoA)))
	}
	g := func(x *big.Int) *big.Int { return vAdd(vAdd(vMul(vMul(x, x), x), vMul(vIsoA, x)), vIsoB) }
	gx1 := g(x1)
	x2 := vMul(zu2, x1)
	gx2 := g(x2)
	if vIsSquare(gx1) {
		x, y = x1, vSqrt(gx1)
	} else {
		x, y = x2, vSqrt(gx2)
	}
	if u.Bit(0) != y.Bit(0) {
		y = vModP(new(big.Int).Neg(y))
	}
	return x, y
}

func vOnIso(x, y *big.Int) bool {
	return vMul(y, y).Cmp(vAdd(vAdd(vMul(vMul(x, x), x), vMul(vIsoA, x)), vIsoB)) == 0
}

// vIso: RFC 9380 appendix E.1.
func vIso(x, y *big.Int) vPt {
	x2 := vMul(x, x)
	x3 := vMul(x2, x)
	xn := vAdd(vAdd(vAdd(vMul(vK["k13"], x3), vMul(vK["k12"], x2)), vMul(vK["k11"], x)), vK["k10"])
	xd := vAdd(vAdd(x2, vMul(vK["k21"], x)), vK["k20"])
	yn := vAdd(vAdd(vAdd(vMul(vK["k33"], x3), vMul(vK["k32"], x2)), vMul(vK["k31"], x)), vK["k30"])
	yd := vAdd(vAdd(vAdd(x3, vMul(vK["k42"], x2)), vMul(vK["k41"], x)), vK["k40"])
	if xd.Sign() == 0 || yd.Sign() == 0 {
		return vInf()
	}
	return vPt{x: vMul(xn, vInv0(xd)), y: vMul(y, vMul(yn, vInv0(yd)))}
}

// vAddIso: affine addition on E' (a = A').
func vAddIso(x1, y1, x2, y2 *big.Int, inf1, inf2 bool) (x3, y3 *big.Int, inf bool) {
	if inf1 {
		return x2, y2, inf2
	}
	if inf2 {
		return x1, y1, false
	}
	var lam *big.Int
	if x1.Cmp(x2) == 0 {
		if vAdd(y1, y2).Sign() == 0 {
			return nil, nil, true
		}
		lam = vMul(vAdd(vMul(big.NewInt(3), vMul(x1, x1)), vIsoA), vInv0(vMul(big.NewInt(2), y1)))
	} else {
		lam = vMul(vModP(new(big.Int).Sub(y2, y1)), vInv0(vModP(new(big.Int).Sub(x2, x1))))
	}
	x3 = vModP(new(big.Int).Sub(new(big.Int).Sub(vMul(lam, lam), x1), x2))
	y3 = vModP(new(big.Int).Sub(vMul(lam, vModP(new(big.Int).Sub(x1, x3))), y1))
	return x3, y3, false
}

func vExpandXMD(msg, dst []byte, n int) []byte {
	if len(dst) > 255 {
		h := sha256.New()
		h.Write([]byte("H2C-OVERSIZE-DST-"))
		h.Write(dst)
		dst = h.Sum(nil)
	}
	dstPrime := append(append([]byte{}, dst...), byte(len(dst)))
	ell := (n + 31) / 32
	h := sha256.New()
	h.Write(make([]byte, 64))
	h.Write(msg)
	h.Write([]byte{byte(n >> 8), byte(n)})
	h.Write([]byte{0})
	h.Write(dstPrime)
	b0 := h.Sum(nil)
	h.Reset()
	h.Write(b0)
	h.Write([]byte{1})
	h.Write(dstPrime)
	bi := h.Sum(nil)
	out := append([]byte{}, bi...)
	for i := 2; i <= ell; i++ {
		x := make([]byte, 32)
		for j := range x {
			x[j] = b0[j] ^ bi[j]
		}
		h.Reset()
		h.Write(x)
		h.Write([]byte{byte(i)})
		h.Write(dstPrime)
		bi = h.Sum(nil)
		out = append(out, bi...)
	}
	return out[:n]
}

func vHashToCurve(msg, dst []byte, ro bool) vPt {
	if ro {
		ub := vExpandXMD(msg, dst, 96)
		u0 := new(big.Int).Mod(new(big.Int).SetBytes(ub[:48]), vP)
		u1 := new(big.Int).Mod(new(big.Int).SetBytes(ub[48:]), vP)
		x0, y0 := vSSWU(u0)
		x1, y1 := vSSWU(u1)
		// RFC: Q0 = map_to_curve(u0), Q1 = map_to_curve(u1) on E (after the isogeny), R = Q0 + Q1
		return vAddPt(vIso(x0, y0), vIso(x1, y1))
	}
	ub := vExpandXMD(msg, dst, 48)
	u0 := new(big.Int).Mod(new(big.Int).SetBytes(ub), vP)
	x0, y0 := vSSWU(u0)
	return vIso(x0, y0)
}

func vRunCase4(t *testing.T, c vCase) (msg string) {
	switch c.Kind {
	case "sswu":
		u := vBig(c.A)
		fe := vFeOf(u)
		e := SSWU(&fe)
		wx, wy := vSSWU(new(big.Int).Mod(u, vP))
		gx, gy := vFeVal(&e.x), vFeVal(&e.y)
		if gx.Cmp(wx) != 0 || gy.Cmp(wy) != 0 {
			return "SSWU(" + c.A + ") = (" + gx.Text(16) + "," + gy.Text(16) + "), RFC 6.6.2 gives (" + wx.Text(16) + "," + wy.Text(16) + ")"
		}
		if !vOnIso(gx, gy) {
			return "SSWU output is not on the isogenous curve"
		}
		if gy.Bit(0) != new(big.Int).Mod(u, vP).Bit(0) {
			return "sgn0(y) != sgn0(u)"
		}
		r := IsogenySecp256k13iso(e)
		got, ok := vPointOf(r)
		want := vIso(wx, wy)
		if !ok || !vSame(got, want) {
			return "isogeny(SSWU(" + c.A + ")) = " + got.String() + ", E.1 gives " + want.String()
		}
	case "iso":
		// arbitrary point of E' obtained as SSWU(u) optionally doubled k times with the oracle
		x, y := vSSWU(vBig(c.A))
		inf := false
		for i := 0; i < c.N && !inf; i++ {
			x, y, inf = vAddIso(x, y, x, y, false, false)
		}
		if inf {
			return ""
		}
		e := &Element{x: vFeOf(x), y: vFeOf(y), z: vFeOf(big.NewInt(1))}
		got, ok := vPointOf(IsogenySecp256k13iso(e))
		want := vIso(x, y)
		if !ok || !vSame(got, want) {
			return "isogeny(" + x.Text(16) + ") = " + got.String() + ", E.1 gives " + want.String()
		}
	case "h2c":
		m, dst := vHex(c.A), vHex(c.B)
		var e *Element
		if c.Op == "RO" {
			e = HashToGroup(m, dst)
		} else {
			e = EncodeToGroup(m, dst)
		}
		got, ok := vPointOf(e)
		want := vHashToCurve(m, dst, c.Op == "RO")
		if !ok || !vSame(got, want) {
			return c.Op + "(msg=" + c.A + ", |dst|=" + itoa(len(dst)) + ") = " + got.String() + ", RFC 9380 gives " + want.String()
		}
		var e2 *Element
		if c.Op == "RO" {
			e2 = HashToGroup(m, dst)
		} else {
			e2 = EncodeToGroup(m, dst)
		}
		if e.Equal(e2) != 1 {
			return "not deterministic"
		}
	case "h2s":
		m, dst := vHex(c.A), vHex(c.B)
		s := HashToScalar(m, dst)
		want := new(big.Int).Mod(new(big.Int).SetBytes(vExpandXMD(m, dst, 48)), vN)
		if !bytes.Equal(s.Encode(), vPad32(want)) {
			return "HashToScalar(msg=" + c.A + ", |dst|=" + itoa(len(dst)) + ") = " + s.Hex() + ", RFC 9380 gives " + hex.EncodeToString(vPad32(want))
		}
	case "h2-layout":
		// msg / dst placed in caller buffers with the given layout (see harness vh_hash); the oracle works on private copies
		m0, d0 := vHex(c.A), vHex(c.B)
		var msg, dst, backing []byte
		switch c.N {
		case 1:
			mb := append(append([]byte{}, m0...), bytes.Repeat([]byte{0x58}, 8)...)
			db := append(append([]byte{}, d0...), bytes.Repeat([]byte{0x59}, 8)...)
			msg, dst = mb[:len(m0)], db[:len(d0)]
			backing = append(mb[:len(mb):len(mb)], db...)
		case 2:
			mb := append(append([]byte{1, 2, 3}, m0...), 4, 5, 6, 7, 8)
			db := append(append([]byte{1, 2}, d0...), 3, 4, 5, 6, 7, 8)
			msg, dst = mb[3:3+len(m0):3+len(m0)], db[2:2+len(d0):4+len(d0)]
			backing = append(mb[:len(mb):len(mb)], db...)
		case 3:
			fr := append(append([]byte{}, m0...), d0...)
			msg, dst = fr[:len(m0)], fr[len(m0):]
			backing = fr
		default:
			fr := append(append([]byte{}, d0...), m0...)
			dst, msg = fr[:len(d0)], fr[len(d0):]
			backing = fr
		}
		_ = backing
		snapM, snapD := append([]byte{}, msg[:cap(msg)]...), append([]byte{}, dst[:cap(dst)]...)
		var got, want []byte
		switch c.Op {
		case "RO":
			got = HashToGroup(msg, dst).Encode()
			want = vSec1(vHashToCurve(m0, d0, true), true)
		case "NU":
			got = EncodeToGroup(msg, dst).Encode()
			want = vSec1(vHashToCurve(m0, d0, false), true)
		default:
			got = HashToScalar(msg, dst).Encode()
			want = vPad32(new(big.Int).Mod(new(big.Int).SetBytes(vExpandXMD(m0, d0, 48)), vN))
		}
		if !bytes.Equal(got, want) {
			return c.Op + " with buffer layout " + itoa(c.N) + " (|msg|=" + itoa(len(m0)) + ", |dst|=" + itoa(len(d0)) + ") = " + hex.EncodeToString(got) + ", RFC 9380 on the same bytes gives " + hex.EncodeToString(want)
		}
		if !bytes.Equal(snapM, msg[:cap(msg)]) || !bytes.Equal(snapD, dst[:cap(dst)]) {
			return c.Op + " with buffer layout " + itoa(c.N) + " modified the caller's buffers"
		}
	case "h2c-many":
		// N seeded messages through both suites: field elements u with leading zero bytes (1 in 128 inputs) and every other
		// data-dependent corner of hash_to_field / the map must give the RFC point
		for _, ro := range []bool{true, false} {
			dst := []byte("QUUX-V01-CS02-with-secp256k1_XMD:SHA-256_SSWU_RO_")
			if !ro {
				dst = []byte("QUUX-V01-CS02-with-secp256k1_XMD:SHA-256_SSWU_NU_")
			}
			for i := 0; i < c.N; i++ {
				m := []byte("message-" + itoa(i))
				want := vSec1(vHashToCurve(m, dst, ro), true)
				var got []byte
				func() {
					defer func() {
						if r := recover(); r != nil {
							got = []byte("panic")
						}
					}()
					if ro {
						got = HashToGroup(m, dst).Encode()
					} else {
						got = EncodeToGroup(m, dst).Encode()
					}
				}()
				if !bytes.Equal(got, want) {
					return "hash/encode_to_curve(\"message-" + itoa(i) + "\", ro=" + itoa(b2i(ro)) + ") = " + hex.EncodeToString(got) + ", RFC 9380 gives " + hex.EncodeToString(want)
				}
			}
		}
	case "h2s-many":
		// N seeded messages: results whose leading bytes are zero (1 in 256) must be handled like any other
		dst := []byte("QUUX-V01-CS02-with-secp256k1_XMD:SHA-256_SSWU_RO_")
		small := 0
		for i := 0; i < c.N; i++ {
			m := []byte("message-" + itoa(i))
			want := new(big.Int).Mod(new(big.Int).SetBytes(vExpandXMD(m, dst, 48)), vN)
			if want.BitLen() <= 248 {
				small++
			}
			var got []byte
			func() {
				defer func() {
					if r := recover(); r != nil {
						got = []byte("panic")
					}
				}()
				got = HashToScalar(m, dst).Encode()
			}()
			if !bytes.Equal(got, vPad32(want)) {
				return "HashToScalar(\"message-" + itoa(i) + "\") = " + hex.EncodeToString(got) + ", RFC 9380 gives " + hex.EncodeToString(vPad32(want))
			}
		}
		if c.N >= 1000 && small == 0 {
			return "battery contains no scalar below 2^248"
		}
	case "h2-sequence":
		// consecutive calls must be independent: same DST buffer overwritten in place between calls, then a fresh slice
		m0, d1, d2 := vHex(c.A), vHex(c.B), vHex(c.C)
		call := func(msg, dst []byte) []byte {
			switch c.Op {
			case "RO":
				return HashToGroup(msg, dst).Encode()
			case "NU":
				return EncodeToGroup(msg, dst).Encode()
			}
			return HashToScalar(msg, dst).Encode()
		}
		want := func(msg, dst []byte) []byte {
			switch c.Op {
			case "RO":
				return vSec1(vHashToCurve(msg, dst, true), true)
			case "NU":
				return vSec1(vHashToCurve(msg, dst, false), true)
			}
			return vPad32(new(big.Int).Mod(new(big.Int).SetBytes(vExpandXMD(msg, dst, 48)), vN))
		}
		buf := append([]byte{}, d1...)
		if !bytes.Equal(call(m0, buf), want(m0, d1)) {
			return c.Op + ": first call wrong"
		}
		if len(d2) == len(d1) {
			copy(buf, d2)
			if !bytes.Equal(call(m0, buf), want(m0, d2)) {
				return c.Op + ": after overwriting the DST buffer in place the second call does not return the value for the new DST (|dst|=" + itoa(len(d2)) + ")"
			}
		}
		if !bytes.Equal(call(m0, append([]byte{}, d2...)), want(m0, d2)) {
			return c.Op + ": a later call with a different DST (|dst|=" + itoa(len(d2)) + ") returns a value that depends on the earlier call"
		}
		if !bytes.Equal(call(m0, append([]byte{}, d1...)), want(m0, d1)) {
			return c.Op + ": calling again with the first DST gives a different value"
		}
	case "h2-panic":
		m, dst := vHex(c.A), vHex(c.B)
		if len(dst) == 0 && c.N == 1 {
			dst = nil
		}
		for _, f := range []func(){func() { HashToGroup(m, dst) }, func() { EncodeToGroup(m, dst) }, func() { HashToScalar(m, dst) }} {
			p := false
			func() {
				defer func() { p = recover() != nil }()
				f()
			}()
			if !p {
				return "empty DST did not panic"
			}
		}
	case "xmd":
		m, dst := vHex(c.A), vHex(c.B)
		got := expandXMD(m, dst, uint(c.N))
		if !bytes.Equal(got, vExpandXMD(m, dst, c.N)) {
			return "expandXMD(|msg|=" + itoa(len(m)) + ", |dst|=" + itoa(len(dst)) + ", " + itoa(c.N) + ") differs from RFC 9380 5.3.1"
		}
	case "wide":
		var in [48]byte
		copy(in[:], vHex(c.A))
		want := new(big.Int).Mod(new(big.Int).SetBytes(in[:]), vP)
		if got := vFeVal(field.New().HashToFieldElement(in)); got.Cmp(want) != 0 {
			return "field wide reduction of " + c.A + " = " + got.Text(16)
		}
	default:
		return vRunCase5(t, c)
	}
	return ""
}
