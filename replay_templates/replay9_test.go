package secp256k1

// History replay: seeded random sequences of API calls over a pool of element and scalar variables, with
// arbitrary aliasing, mirrored step by step in an abstract model (affine points / integers mod n).

import (
	"bytes"
	"strings"
	"math/big"
	"math/rand"
	"testing"
)

func vRunCase9(t *testing.T, c vCase) (msg string) {
	switch c.Kind {
	case "history":
		rng := rand.New(rand.NewSource(int64(c.N) + 101))
		const np, ns = 4, 4
		els := make([]*Element, np)
		mel := make([]vPt, np)
		scs := make([]*Scalar, ns)
		msc := make([]*big.Int, ns)
		for i := range els {
			els[i], mel[i] = NewElement(), vInf()
		}
		for i := range scs {
			scs[i], msc[i] = NewScalar(), big.NewInt(0)
		}
		steps := 400
		for step := 0; step < steps; step++ {
			a, b := rng.Intn(np), rng.Intn(np)
			i, j := rng.Intn(ns), rng.Intn(ns)
			op := rng.Intn(26)
			name := ""
			switch op {
			case 0:
				name = "Base"
				els[a].Base()
				mel[a] = vG()
			case 1:
				name = "Identity"
				els[a].Identity()
				mel[a] = vInf()
			case 2:
				name = "Set"
				els[a].Set(els[b])
				mel[a] = mel[b]
			case 3:
				name = "Copy"
				els[a] = els[b].Copy()
				mel[a] = mel[b]
			case 4:
				name = "Add"
				els[a].Add(els[b])
				mel[a] = vAddPt(mel[a], mel[b])
			case 5:
				name = "Subtract"
				els[a].Subtract(els[b])
				mel[a] = vAddPt(mel[a], vNeg(mel[b]))
			case 6:
				name = "Double"
				els[a].Double()
				mel[a] = vAddPt(mel[a], mel[a])
			case 7:
				name = "Negate"
				els[a].Negate()
				mel[a] = vNeg(mel[a])
			case 8:
				name = "Multiply"
				els[a].Multiply(scs[i])
				mel[a] = vMulPt(msc[i], mel[a])
			case 9:
				name = "Decode(Encode)"
				if err := els[a].Decode(els[b].Encode()); err != nil {
					return "step " + itoa(step) + ": Decode(Encode) failed"
				}
				mel[a] = mel[b]
			case 10:
				name = "Decode(EncodeUncompressed)"
				if err := els[a].Decode(els[b].EncodeUncompressed()); err != nil {
					return "step " + itoa(step) + ": Decode(EncodeUncompressed) failed"
				}
				mel[a] = mel[b]
			case 11:
				name = "Decode(garbage)"
				_ = els[a].Decode([]byte{2, 1, 2, 3})
			case 12:
				name = "HashToGroup"
				m := []byte{byte(step), byte(a)}
				els[a] = HashToGroup(m, []byte("history-dst"))
				mel[a] = vHashToCurve(m, []byte("history-dst"), true)
			case 13:
				name = "scalar Add"
				scs[i].Add(scs[j])
				msc[i] = new(big.Int).Mod(new(big.Int).Add(msc[i], msc[j]), vN)
			case 14:
				name = "scalar Subtract"
				scs[i].Subtract(scs[j])
				msc[i] = new(big.Int).Mod(new(big.Int).Sub(msc[i], msc[j]), vN)
			case 15:
				name = "scalar Multiply"
				scs[i].Multiply(scs[j])
				msc[i] = new(big.Int).Mod(new(big.Int).Mul(msc[i], msc[j]), vN)
			case 16:
				name = "scalar Invert"
				scs[i].Invert()
				if msc[i].Sign() != 0 {
					msc[i] = new(big.Int).ModInverse(msc[i], vN)
				}
			case 17:
				name = "scalar Square"
				scs[i].Square()
				msc[i] = new(big.Int).Mod(new(big.Int).Mul(msc[i], msc[i]), vN)
			case 18:
				name = "scalar Set/Copy"
				if rng.Intn(2) == 0 {
					scs[i].Set(scs[j])
				} else {
					scs[i] = scs[j].Copy()
				}
				msc[i] = new(big.Int).Set(msc[j])
			case 19:
				name = "scalar SetUInt64"
				u := rng.Uint64()
				scs[i].SetUInt64(u)
				msc[i] = new(big.Int).SetUint64(u)
			case 20:
				name = "scalar One/MinusOne/Zero"
				switch rng.Intn(3) {
				case 0:
					scs[i].One()
					msc[i] = big.NewInt(1)
				case 1:
					scs[i].MinusOne()
					msc[i] = new(big.Int).Sub(vN, big.NewInt(1))
				default:
					scs[i].Zero()
					msc[i] = big.NewInt(0)
				}
			case 21:
				name = "scalar Decode"
				v := new(big.Int).Rand(rng, vN)
				if rng.Intn(4) == 0 {
					v = new(big.Int).Sub(vN, big.NewInt(int64(rng.Intn(3))+1))
				}
				if err := scs[i].Decode(vPad32(v)); err != nil {
					return "step " + itoa(step) + ": scalar Decode of a canonical value failed"
				}
				msc[i] = v
			case 22:
				name = "scalar HashToScalar"
				m := []byte{byte(step)}
				scs[i] = HashToScalar(m, []byte("history-dst"))
				msc[i] = new(big.Int).Mod(new(big.Int).SetBytes(vExpandXMD(m, []byte("history-dst"), 48)), vN)
			case 23:
				name = "scalar CSelect"
				cnd := uint64(rng.Intn(3)) * rng.Uint64()
				k := rng.Intn(ns)
				_ = scs[i].CSelect(cnd, scs[j], scs[k])
				if cnd == 0 {
					msc[i] = new(big.Int).Set(msc[j])
				} else {
					msc[i] = new(big.Int).Set(msc[k])
				}
			case 24:
				name = "scalar Pow"
				if msc[j].BitLen() > 64 {
					scs[j].SetUInt64(uint64(rng.Intn(1000)))
					msc[j] = new(big.Int).SetBytes(scs[j].Encode())
				}
				scs[i].Pow(scs[j])
				msc[i] = new(big.Int).Exp(msc[i], msc[j], vN)
			case 25:
				name = "comparisons"
				wantEq := 0
				if msc[i].Cmp(msc[j]) == 0 {
					wantEq = 1
				}
				wantLe := uint64(0)
				if msc[i].Cmp(msc[j]) <= 0 {
					wantLe = 1
				}
				if scs[i].Equal(scs[j]) != wantEq || scs[i].LessOrEqual(scs[j]) != wantLe || scs[i].IsZero() != (msc[i].Sign() == 0) {
					return "step " + itoa(step) + ": scalar comparison disagrees with the model"
				}
				wantE := 0
				if vSame(mel[a], mel[b]) {
					wantE = 1
				}
				if els[a].Equal(els[b]) != wantE || els[a].IsIdentity() != mel[a].inf {
					return "step " + itoa(step) + ": element comparison disagrees with the model"
				}
			}
			// every variable must agree with the model after every step (operands unchanged, copies independent)
			for k := range els {
				got, ok := vPointOf(els[k])
				if !ok {
					return "step " + itoa(step) + " (" + name + "): element " + itoa(k) + " is not a valid curve point"
				}
				if !vSame(got, mel[k]) || !bytes.Equal(els[k].Encode(), vSec1(mel[k], true)) {
					return "step " + itoa(step) + " (" + name + " a=" + itoa(a) + " b=" + itoa(b) + "): element " + itoa(k) + " = " + got.String() + ", model " + mel[k].String()
				}
			}
			for k := range scs {
				if !bytes.Equal(scs[k].Encode(), vPad32(msc[k])) {
					return "step " + itoa(step) + " (" + name + " i=" + itoa(i) + " j=" + itoa(j) + "): scalar " + itoa(k) + " = " + scs[k].Hex() + ", model " + msc[k].Text(16)
				}
			}
		}
	case "hidden-scalar":
		// observe, mutate with mutator c.N, observe again: the second observation must describe the new value
		vals := []*big.Int{big.NewInt(5), new(big.Int).Sub(vN, big.NewInt(2)), new(big.Int).Lsh(big.NewInt(1), 200)}
		tt := t
		vPreludeSafe(tt)
		for _, v0 := range vals {
			s, t, u := vScalarOf(t, v0), vScalarOf(t, new(big.Int).Sub(vN, big.NewInt(7))), vScalarOf(t, big.NewInt(12345))
			_ = s.Bits()
			vScribble(s.Encode())
			if mb, err := s.MarshalBinary(); err == nil {
				vScribble(mb)
			}
			_ = s.IsZero()
			_ = s.IsOne()
			_ = s.Equal(t)
			_ = s.LessOrEqual(t)
			switch c.N {
			case 0:
				s.Add(t)
			case 1:
				s.Subtract(t)
			case 2:
				s.Multiply(t)
			case 3:
				s.Square()
			case 4:
				s.Invert()
			case 5:
				s.Set(t)
			case 6:
				s.Zero()
			case 7:
				s.One()
			case 8:
				s.MinusOne()
			case 9:
				s.SetUInt64(0xfedcba9876543210)
			case 10:
				_ = s.Decode(vPad32(big.NewInt(99)))
			case 11:
				_ = s.CSelect(1, u, t)
			case 12:
				_ = s.UnmarshalBinary(vPad32(big.NewInt(98)))
			case 13:
				s.S = t.S
			}
			// c.Op: the property on whose behalf the history is replayed, c.A: the observers it is about (empty: all)
			obs := func(name string) bool { return c.A == "" || strings.Contains(","+c.A+",", ","+name+",") }
			f := &Scalar{S: s.S}
			want := new(big.Int).SetBytes(f.Encode())
			if obs("bits") {
				bits := s.Bits()
				for i := 0; i < 256; i++ {
					if uint(bits[i]) != want.Bit(i) {
						return "after mutator " + itoa(c.N) + " Bits()[" + itoa(i) + "] does not describe the current value " + want.Text(16)
					}
				}
			}
			if obs("enc") && (!bytes.Equal(s.Encode(), f.Encode()) || s.Hex() != f.Hex()) {
				return "after mutator " + itoa(c.N) + " Encode/Hex disagree with a fresh scalar holding the same limbs"
			}
			if (obs("isz") && s.IsZero() != f.IsZero()) || (obs("isone") && s.IsOne() != f.IsOne()) || (obs("eq") && s.Equal(u) != f.Equal(u)) ||
				(obs("le") && (s.LessOrEqual(u) != f.LessOrEqual(u) || u.LessOrEqual(s) != u.LessOrEqual(f))) {
				return "after mutator " + itoa(c.N) + " a predicate disagrees with a fresh scalar holding the same limbs"
			}
			if c.A == "" || c.Op == "C01" {
				g := vElementOf(vG(), big.NewInt(3))
				if got, ok := vPointOf(g.Multiply(s)); !ok || !vSame(got, vMulPt(want, vG())) {
					return "after mutator " + itoa(c.N) + " Multiply uses a stale scalar value"
				}
			}
			if m := vSanity(tt, c.Op); m != "" {
				return "after scalar mutator " + itoa(c.N) + ": " + m
			}
		}
	case "hidden-element":
		vPreludeSafe(t)
		g := vG()
		e, q := vElementOf(vMulPt(big.NewInt(3), g), big.NewInt(5)), vElementOf(vMulPt(big.NewInt(9), g), big.NewInt(7))
		vScribble(e.Encode())
		vScribble(e.EncodeUncompressed())
		vScribble(e.XCoordinate())
		_ = e.IsIdentity()
		_ = e.Equal(q)
		switch c.N {
		case 0:
			e.Add(q)
		case 1:
			e.Subtract(q)
		case 2:
			e.Double()
		case 3:
			e.Negate()
		case 4:
			e.Set(q)
		case 5:
			e.Identity()
		case 6:
			e.Base()
		case 7:
			_ = e.Decode(vSec1(vMulPt(big.NewInt(11), g), true))
		case 8:
			_ = e.Decode(vSec1(vMulPt(big.NewInt(11), g), false))
		case 9:
			_ = e.Decode([]byte{0})
		}
		obsE := func(name string) bool { return c.A == "" || strings.Contains(","+c.A+",", ","+name+",") }
		f := &Element{x: e.x, y: e.y, z: e.z}
		if (obsE("enc") && !bytes.Equal(e.Encode(), f.Encode())) || (obsE("unc") && !bytes.Equal(e.EncodeUncompressed(), f.EncodeUncompressed())) ||
			(obsE("isid") && e.IsIdentity() != f.IsIdentity()) || (obsE("eq") && e.Equal(q) != f.Equal(q)) {
			return "after mutator " + itoa(c.N) + " an observer disagrees with a fresh element holding the same coordinates"
		}
		if m := vSanity(t, c.Op); m != "" {
			return "after element mutator " + itoa(c.N) + ": " + m
		}
	default:
		return vRunCase10(t, c)
	}
	return ""
}
