package secp256k1

// Replay of solver counterexamples against the real build.  The oracles are written
// against math/big only and share no code with the package under test.

import (
	"bytes"
	"encoding/hex"
	"encoding/json"
	"math/big"
	"os"
	"testing"
)

type vCase struct {
	Kind string            `json:"kind"`
	A    string            `json:"a"`
	B    string            `json:"b"`
	C    string            `json:"c"`
	U    uint64            `json:"u"`
	N    int               `json:"n"`
	Op   string            `json:"op"`
	X    map[string]string `json:"x"`
}

type vFile struct {
	Property string  `json:"property"`
	Cases    []vCase `json:"cases"`
}

var (
	vP, _ = new(big.Int).SetString("fffffffffffffffffffffffffffffffffffffffffffffffffffffffefffffc2f", 16)
	vN, _ = new(big.Int).SetString("fffffffffffffffffffffffffffffffebaaedce6af48a03bbfd25e8cd0364141", 16)
)

func vHex(s string) []byte {
	b, err := hex.DecodeString(s)
	if err != nil {
		panic(err)
	}
	return b
}

func vBig(s string) *big.Int {
	v, ok := new(big.Int).SetString(s, 16)
	if !ok {
		panic("bad hex " + s)
	}
	return v
}

func vPad32(v *big.Int) []byte {
	out := make([]byte, 32)
	v.FillBytes(out)
	return out
}

// vScalarOf builds the scalar with canonical value v (< n) through the public decoder.
// vScalarOf builds the scalar with canonical value v directly from its Montgomery limbs (v * 2^256 mod n): no code of
// the library is involved in constructing replay operands.
func vScalarOf(t *testing.T, v *big.Int) *Scalar {
	if v.Sign() < 0 || v.Cmp(vN) >= 0 {
		t.Fatalf("replay operand %x is not a canonical scalar", v)
	}
	m := new(big.Int).Mod(new(big.Int).Lsh(v, 256), vN)
	s := &Scalar{}
	mask := new(big.Int).SetUint64(^uint64(0))
	for i := 0; i < 4; i++ {
		s.S[i] = new(big.Int).And(new(big.Int).Rsh(m, uint(64*i)), mask).Uint64()
	}
	return s
}

// vScalarVariants builds the same canonical value through the different constructors of the API (plus the raw-limb
// construction): whatever a Scalar object remembers about how it was made must not matter.
func vScalarVariants(t *testing.T, v *big.Int) []*Scalar {
	out := []*Scalar{vScalarOf(t, v)}
	if d := NewScalar(); d.Decode(vPad32(v)) == nil {
		out = append(out, d)
	}
	if v.IsUint64() {
		out = append(out, NewScalar().SetUInt64(v.Uint64()))
	}
	one := vScalarOf(t, big.NewInt(1))
	out = append(out, vScalarOf(t, new(big.Int).Mod(new(big.Int).Sub(v, big.NewInt(1)), vN)).Add(one))
	out = append(out, NewScalar().Set(vScalarOf(t, v)), vScalarOf(t, v).Copy())
	if v.IsUint64() {
		out = append(out, NewScalar().SetUInt64(v.Uint64()).Add(one).Subtract(one))
	}
	return out
}

func vScalarVal(s *Scalar) *big.Int { return new(big.Int).SetBytes(s.Encode()) }

func TestVerifReplay(t *testing.T) {
	path := os.Getenv("VERIF_REPLAY")
	if path == "" {
		t.Skip("no VERIF_REPLAY")
	}
	raw, err := os.ReadFile(path)
	if err != nil {
		t.Fatal(err)
	}
	var f vFile
	if err := json.Unmarshal(raw, &f); err != nil {
		t.Fatal(err)
	}
	for i, c := range f.Cases {
		if msg := vRunCase(t, c); msg != "" {
			t.Errorf("MISMATCH case=%d kind=%s: %s", i, c.Kind, msg)
		}
	}
}

func vRunCase(t *testing.T, c vCase) (msg string) {
	defer func() {
		if r := recover(); r != nil {
			if c.Kind == "expect-panic" {
				return
			}
			msg = "panic: " + toString(r)
		}
	}()
	switch c.Kind {
	case "bits":
		v := vBig(c.A)
		for vi, s := range vScalarVariants(t, v) {
			bits := s.Bits()
			enc := new(big.Int).SetBytes(s.Encode())
			if enc.Cmp(v) != 0 {
				return "Encode does not return the value (constructor variant " + itoa(vi) + ")"
			}
			for i := 0; i < 256; i++ {
				if uint(bits[i]) != v.Bit(i) {
					return "Bits()[" + itoa(i) + "] = " + itoa(int(bits[i])) + ", bit of canonical value = " + itoa(int(v.Bit(i))) + " (constructor variant " + itoa(vi) + ")"
				}
			}
		}
	case "lessorequal":
		a, b := vBig(c.A), vBig(c.B)
		got := vScalarOf(t, a).LessOrEqual(vScalarOf(t, b))
		want := uint64(0)
		if a.Cmp(b) <= 0 {
			want = 1
		}
		if got != want {
			return "LessOrEqual(" + c.A + "," + c.B + ") = " + itoa(int(got)) + ", want " + itoa(int(want))
		}
	case "equal":
		a, b := vBig(c.A), vBig(c.B)
		got := vScalarOf(t, a).Equal(vScalarOf(t, b))
		want := 0
		if a.Cmp(b) == 0 {
			want = 1
		}
		if got != want {
			return "Equal mismatch"
		}
		if vScalarOf(t, a).IsZero() != (a.Sign() == 0) {
			return "IsZero mismatch"
		}
		if vScalarOf(t, a).IsOne() != (a.Cmp(big.NewInt(1)) == 0) {
			return "IsOne mismatch"
		}
	case "cselect":
		// N selects the aliasing: 0 distinct, 1 u==v, 2 r==u, 3 r==v, 4 all the same
		uv, vv, rv := vBig(c.A), vBig(c.B), vBig(c.C)
		r, u, v := vScalarOf(t, rv), vScalarOf(t, uv), vScalarOf(t, vv)
		switch c.N {
		case 1:
			v, vv = u, uv
		case 2:
			u, uv = r, rv
		case 3:
			v, vv = r, rv
		case 4:
			u, uv, v, vv = r, rv, r, rv
		}
		if err := r.CSelect(c.U, u, v); err != nil {
			return "unexpected error"
		}
		want := uv
		if c.U != 0 {
			want = vv
		}
		if vScalarVal(r).Cmp(want) != 0 {
			return "CSelect(cond=" + utoa(c.U) + ", aliasing " + itoa(c.N) + ") = " + hex.EncodeToString(r.Encode()) + ", want " + hex.EncodeToString(vPad32(want))
		}
		if c.N == 0 && (vScalarVal(u).Cmp(uv) != 0 || vScalarVal(v).Cmp(vv) != 0) {
			return "CSelect modified an operand"
		}
	case "scalar-op":
		a, b := vBig(c.A), vBig(c.B)
		s, u := vScalarOf(t, a), vScalarOf(t, b)
		want := new(big.Int)
		switch c.Op {
		case "add":
			s.Add(u)
			want.Add(a, b)
		case "sub":
			s.Subtract(u)
			want.Sub(a, b)
		case "mul":
			s.Multiply(u)
			want.Mul(a, b)
		case "square":
			s.Square()
			want.Mul(a, a)
		case "invert":
			s.Invert()
			want.ModInverse(a, vN)
			if a.Sign() == 0 {
				want.SetInt64(0)
			}
		case "add-self":
			s.Add(s)
			want.Add(a, a)
		case "sub-self":
			s.Subtract(s)
		case "mul-self":
			s.Multiply(s)
			want.Mul(a, a)
		case "pow":
			s.Pow(u)
			want.Exp(a, b, vN)
		case "pow-self":
			s.Pow(s)
			want.Exp(a, a, vN)
		case "set-self":
			s.Set(s)
			want.Set(a)
		case "setuint64":
			s.SetUInt64(c.U)
			want.SetUint64(c.U)
		case "one":
			s.One()
			want.SetInt64(1)
		case "minusone":
			s.MinusOne()
			want.Sub(vN, big.NewInt(1))
		case "zero":
			s.Zero()
		}
		want.Mod(want, vN)
		if vScalarVal(s).Cmp(want) != 0 {
			return c.Op + "(" + c.A + "," + c.B + ") = " + hex.EncodeToString(s.Encode()) + ", want " + hex.EncodeToString(vPad32(want))
		}
	case "scalar-decode":
		in := vHex(c.A)
		pre := vBig(c.B)
		s := vScalarOf(t, pre)
		err := s.Decode(in)
		v := new(big.Int).SetBytes(in)
		switch {
		case len(in) == 0:
			if err != errParamNilScalar {
				return "empty input: wrong error"
			}
		case len(in) != 32:
			if err != errParamScalarLength {
				return "wrong length: wrong error"
			}
		case v.Cmp(vN) >= 0:
			if err != errParamScalarTooBig {
				return "value >= n accepted or wrong error"
			}
		default:
			if err != nil {
				return "canonical value rejected"
			}
			if !bytes.Equal(s.Encode(), in) {
				return "Encode(Decode(b)) != b"
			}
		}
	case "scalar-decodehex":
		// A: a string of hex digits (any length); accepted iff it is exactly 64 digits encoding a value < n
		pre := vBig(c.B)
		s := vScalarOf(t, pre)
		err := s.DecodeHex(c.A)
		raw, herr := hex.DecodeString(c.A)
		ok := herr == nil && len(raw) == 32 && new(big.Int).SetBytes(raw).Cmp(vN) < 0
		if ok != (err == nil) {
			return "DecodeHex(" + c.A + "): accepted=" + itoa(b2iS(err == nil)) + ", expected " + itoa(b2iS(ok))
		}
		if ok && !bytes.Equal(s.Encode(), raw) {
			return "DecodeHex(" + c.A + ") set a different value"
		}
		if !ok && herr == nil && len(raw) != 32 {
			d := vScalarOf(t, pre)
			if derr := d.Decode(raw); (derr == nil) != (err == nil) {
				return "DecodeHex and Decode disagree on " + c.A
			}
		}
	default:
		return vRunCase2(t, c)
	}
	return ""
}

func b2iS(b bool) int {
	if b {
		return 1
	}
	return 0
}

func itoa(i int) string    { return big.NewInt(int64(i)).String() }
func utoa(u uint64) string { return new(big.Int).SetUint64(u).String() }
func toString(r interface{}) string {
	switch v := r.(type) {
	case error:
		return v.Error()
	case string:
		return v
	}
	return "?"
}
