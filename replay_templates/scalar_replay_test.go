package scalar

// Replay of kernel counterexamples against the real build (oracle: math/big only).

import (
	"encoding/json"
	"math/big"
	"os"
	"testing"
)

type vCase struct {
	Kind string `json:"kind"`
	Op   string `json:"op"`
	A    string `json:"a"`
	B    string `json:"b"`
	C    string `json:"c"`
}

var vM, _ = new(big.Int).SetString("fffffffffffffffffffffffffffffffebaaedce6af48a03bbfd25e8cd0364141", 16)

func vLimbsOf(s string) [4]uint64 {
	v, _ := new(big.Int).SetString(s, 16)
	var out [4]uint64
	mask := new(big.Int).SetUint64(^uint64(0))
	for i := 0; i < 4; i++ {
		out[i] = new(big.Int).And(new(big.Int).Rsh(v, uint(64*i)), mask).Uint64()
	}
	return out
}

func vValOf(l [4]uint64) *big.Int {
	v := new(big.Int)
	for i := 3; i >= 0; i-- {
		v.Lsh(v, 64)
		v.Or(v, new(big.Int).SetUint64(l[i]))
	}
	return v
}

func TestVerifReplay(t *testing.T) {
	raw, err := os.ReadFile(os.Getenv("VERIF_REPLAY"))
	if err != nil {
		t.Skip("no VERIF_REPLAY")
	}
	var f struct {
		Cases []vCase `json:"cases"`
	}
	if err := json.Unmarshal(raw, &f); err != nil {
		t.Fatal(err)
	}
	R := new(big.Int).Lsh(big.NewInt(1), 256)
	Ri := new(big.Int).ModInverse(R, vM)
	for i, c := range f.Cases {
		if c.Kind == "wide" {
			var in [48]byte
			raw, _ := new(big.Int).SetString(c.A, 16)
			raw.FillBytes(in[:])
			var out MontgomeryDomainFieldElement
			HashToFieldElement(&out, in)
			var nm NonMontgomeryDomainFieldElement
			FromMontgomery(&nm, &out)
			want := new(big.Int).Mod(raw, vM)
			if vValOf(nm).Cmp(want) != 0 || vValOf(out).Cmp(vM) >= 0 {
				t.Errorf("MISMATCH case=%d kind=wide: HashToFieldElement(%s) = %x (stored %x), want OS2IP mod n = %x", i, c.A, vValOf(nm), vValOf(out), want)
			}
			continue
		}
		if c.Kind != "kernel" && c.Kind != "kernel-expect" {
			continue
		}
		a, b := vLimbsOf(c.A), vLimbsOf(c.B)
		av, bv := vValOf(a), vValOf(b)
		var out [4]uint64
		want := new(big.Int)
		ma, mb := MontgomeryDomainFieldElement(a), MontgomeryDomainFieldElement(b)
		var mo MontgomeryDomainFieldElement
		switch c.Op {
		case "mul":
			Mul(&mo, &ma, &mb)
			want.Mul(av, bv).Mul(want, Ri)
		case "mulself":
			Mul(&mo, &ma, &ma)
			want.Mul(av, av).Mul(want, Ri)
		case "square":
			Square(&mo, &ma)
			want.Mul(av, av).Mul(want, Ri)
		case "add":
			Add(&mo, &ma, &mb)
			want.Add(av, bv)
		case "addself":
			Add(&mo, &ma, &ma)
			want.Add(av, av)
		case "sub":
			Sub(&mo, &ma, &mb)
			want.Sub(av, bv)
		case "subself":
			Sub(&mo, &ma, &ma)
		case "from":
			var no NonMontgomeryDomainFieldElement
			FromMontgomery(&no, &ma)
			mo = MontgomeryDomainFieldElement(no)
			want.Mul(av, Ri)
		case "to":
			na := NonMontgomeryDomainFieldElement(a)
			ToMontgomery(&mo, &na)
			want.Mul(av, R)
		}
		out = mo
		want.Mod(want, vM)
		if c.Kind == "kernel-expect" {
			// translator validation: the expectation is what the symbolic executor's term graph evaluates to
			if vValOf(out).Cmp(vValOf(vLimbsOf(c.C))) != 0 {
				t.Errorf("TRANSLATION-MISMATCH case=%d: native %s(%s,%s) = %x, symx term graph gives %s", i, c.Op, c.A, c.B, vValOf(out), c.C)
			}
			continue
		}
		if vValOf(out).Cmp(want) != 0 {
			t.Errorf("MISMATCH case=%d kind=kernel: %s(%s,%s) = %x, want %x", i, c.Op, c.A, c.B, vValOf(out), want)
		}
	}
}
