package secp256k1

// Model-driven ownership replay (C15/C16): one API call on operands and buffers taken from a solver model of a
// path on which the executor saw a store into caller-owned memory; every caller-owned word is compared before
// and after the call.

import (
	"bytes"
	"encoding/hex"
	"math/big"
	"testing"

	"github.com/bytemare/secp256k1/internal/field"
)

func vRaw4(h string) [4]uint64 {
	v := vBig(h)
	var l [4]uint64
	m := new(big.Int).SetUint64(^uint64(0))
	for i := 0; i < 4; i++ {
		l[i] = new(big.Int).And(new(big.Int).Rsh(v, uint(64*i)), m).Uint64()
	}
	return l
}

func vRunCase11(t *testing.T, c vCase) (msg string) {
	switch c.Kind {
	case "mem-call":
		x := func(k string) string {
			if v, ok := c.X[k]; ok && v != "" {
				return v
			}
			return "00"
		}
		s, tt, u := &Scalar{S: vRaw4(x("s"))}, &Scalar{S: vRaw4(x("t"))}, &Scalar{S: vRaw4(x("u"))}
		p := &Element{x: field.Element{E: vRaw4(x("px"))}, y: field.Element{E: vRaw4(x("py"))}, z: field.Element{E: vRaw4(x("pz"))}}
		q := &Element{x: field.Element{E: vRaw4(x("qx"))}, y: field.Element{E: vRaw4(x("qy"))}, z: field.Element{E: vRaw4(x("qz"))}}
		backing := vHex(c.X["backing"])
		layout := int(c.U)
		var in []byte
		switch layout {
		case 1:
			in = backing[:len(backing)-8]
		case 2:
			n := len(backing) - 11
			in = backing[3 : 3+n : 3+n+2]
		default:
			in = backing[:len(backing):len(backing)]
		}
		before := append([]byte{}, backing...)
		tb, ub, qb := tt.S, u.S, [3][4]uint64{q.x.E, q.y.E, q.z.E}
		cond := vBig(x("c")).Uint64()
		switch c.N {
		case 0:
			_ = s.Decode(in)
		case 1:
			_ = s.UnmarshalBinary(in)
		case 4:
			s.Add(tt)
		case 5:
			s.Subtract(tt)
		case 6:
			s.Multiply(tt)
		case 7:
			s.Set(tt)
		case 8:
			s.Pow(tt)
		case 9:
			s.Equal(tt)
		case 10:
			s.LessOrEqual(tt)
		case 11:
			_ = s.CSelect(cond, tt, u)
		case 13:
			_ = p.Decode(in)
		case 14:
			_ = p.DecodeCompressed(in)
		case 15:
			_ = p.DecodeUncompressed(in)
		case 16:
			_ = p.UnmarshalBinary(in)
		case 21:
			p.Add(q)
		case 22:
			p.Subtract(q)
		case 23:
			p.Equal(q)
		case 24:
			p.Set(q)
		case 26:
			p.Multiply(tt)
		default:
			return ""
		}
		if !bytes.Equal(before, backing) {
			for i := range before {
				if before[i] != backing[i] {
					return c.Op + " wrote to the caller's buffer (layout " + itoa(layout) + ") at backing index " + itoa(i) + ": input " + c.X["backing"]
				}
			}
		}
		if tb != tt.S {
			return c.Op + " modified its scalar argument (raw limbs " + x("t") + ")"
		}
		if ub != u.S {
			return c.Op + " modified its second scalar argument"
		}
		if qb != [3][4]uint64{q.x.E, q.y.E, q.z.E} {
			return c.Op + " modified its element argument"
		}
	case "cselect-nil":
		// every arrangement of a nil operand and a condition word: an error is returned and the receiver keeps its value
		a, b := vScalarOf(t, big.NewInt(1234567)), vScalarOf(t, new(big.Int).Sub(vN, big.NewInt(99)))
		for _, cond := range []uint64{0, 1, 2, 1 << 32, 1 << 63, ^uint64(0)} {
			for w, ops := range [][2]*Scalar{{nil, b}, {a, nil}, {nil, nil}} {
				r := vScalarOf(t, big.NewInt(55555))
				err := r.CSelect(cond, ops[0], ops[1])
				if err == nil {
					return "CSelect with a nil operand (arrangement " + itoa(w) + ", cond " + utoa(cond) + ") returned no error"
				}
				if vScalarVal(r).Cmp(big.NewInt(55555)) != 0 {
					return "CSelect with a nil operand (arrangement " + itoa(w) + ", cond " + utoa(cond) + ") returned an error but changed the receiver to " + r.Hex()
				}
			}
		}
		if vScalarVal(a).Cmp(big.NewInt(1234567)) != 0 {
			return "CSelect with a nil operand modified its other operand"
		}
	case "scalar-views":
		// every exported view of one scalar value against math/big: Encode, Hex, MarshalBinary and the three decoders
		v := vBig(c.A)
		want := vPad32(v)
		wantHex := hex.EncodeToString(want)
		mk := []func() *Scalar{func() *Scalar { return vScalarOf(t, v) }}
		if v.IsUint64() {
			mk = append(mk, func() *Scalar { return NewScalar().SetUInt64(v.Uint64()) })
		}
		for i, f := range mk {
			s := f()
			if !bytes.Equal(s.Encode(), want) {
				return "Encode(" + c.A + ") = " + hex.EncodeToString(s.Encode()) + " (constructor " + itoa(i) + ")"
			}
			if h := s.Hex(); h != wantHex {
				return "Hex(" + c.A + ") = " + h + ", want " + wantHex
			}
			if mb, err := s.MarshalBinary(); err != nil || !bytes.Equal(mb, want) {
				return "MarshalBinary(" + c.A + ") differs from Encode"
			}
			for j, dec := range []func(d *Scalar) error{func(d *Scalar) error { return d.Decode(want) }, func(d *Scalar) error { return d.UnmarshalBinary(want) },
				func(d *Scalar) error { return d.DecodeHex(s.Hex()) }, func(d *Scalar) error { return d.DecodeHex(wantHex) }} {
				d := NewScalar().MinusOne()
				if err := dec(d); err != nil {
					return "decoder " + itoa(j) + " rejects the encoding of " + c.A + ": " + err.Error()
				}
				if d.Equal(s) != 1 || vScalarVal(d).Cmp(v) != 0 {
					return "decoder " + itoa(j) + " does not give back " + c.A
				}
			}
		}
	default:
		return "unknown case kind " + c.Kind
	}
	return ""
}
