package secp256k1

// SEC1 decoding oracle (math/big) and decoder replay.

import (
	"encoding/hex"
	"math/big"
	"testing"
)

// vSec1Parse returns the point encoded by b, or ok=false if b is not a canonical SEC1 encoding
// (00 | 02/03||x with x<p and x^3+7 square | 04||x||y with x,y<p on the curve).
func vSec1Parse(b []byte) (vPt, bool) {
	switch {
	case len(b) == 1 && b[0] == 0:
		return vInf(), true
	case len(b) == 33 && (b[0] == 2 || b[0] == 3):
		x := new(big.Int).SetBytes(b[1:])
		if x.Cmp(vP) >= 0 {
			return vPt{}, false
		}
		rhs := vAdd(vMul(vMul(x, x), x), big.NewInt(7))
		if !vIsSquare(rhs) {
			return vPt{}, false
		}
		y := vSqrt(rhs)
		if y.Bit(0) != uint(b[0]&1) {
			y = vModP(new(big.Int).Neg(y))
		}
		return vPt{x: x, y: y}, true
	case len(b) == 65 && b[0] == 4:
		x, y := new(big.Int).SetBytes(b[1:33]), new(big.Int).SetBytes(b[33:])
		if x.Cmp(vP) >= 0 || y.Cmp(vP) >= 0 {
			return vPt{}, false
		}
		if vMul(y, y).Cmp(vAdd(vMul(vMul(x, x), x), big.NewInt(7))) != 0 {
			return vPt{}, false
		}
		return vPt{x: x, y: y}, true
	}
	return vPt{}, false
}

func vRunCase5(t *testing.T, c vCase) (msg string) {
	switch c.Kind {
	case "el-decode":
		in := vHex(c.A)
		want, ok := vSec1Parse(in)
		type dec struct {
			name string
			f    func(e *Element) error
			form func() bool
		}
		decs := []dec{
			{"Decode", func(e *Element) error { return e.Decode(in) }, func() bool { return true }},
			{"UnmarshalBinary", func(e *Element) error { return e.UnmarshalBinary(in) }, func() bool { return true }},
			{"DecodeHex", func(e *Element) error { return e.DecodeHex(hex.EncodeToString(in)) }, func() bool { return true }},
			{"DecodeCompressed", func(e *Element) error { return e.DecodeCompressed(in) }, func() bool { return len(in) == 33 }},
			{"DecodeUncompressed", func(e *Element) error { return e.DecodeUncompressed(in) }, func() bool { return len(in) == 65 }},
		}
		if len(in) == 65 && in[0] == 4 {
			decs = append(decs, dec{"DecodeCoordinates", func(e *Element) error {
				var x, y [32]byte
				copy(x[:], in[1:33])
				copy(y[:], in[33:])
				return e.DecodeCoordinates(x, y)
			}, func() bool { return true }})
		}
		pre := vMulPt(big.NewInt(5), vG())
		for _, d := range decs {
			e := vElementOf(pre, big.NewInt(9))
			var err error
			func() {
				defer func() {
					if r := recover(); r != nil {
						msg = d.name + "(" + c.A + ") panicked: " + toString(r)
					}
				}()
				err = d.f(e)
			}()
			if msg != "" {
				return msg
			}
			accept := ok && d.form()
			if accept != (err == nil) {
				return d.name + "(" + c.A + "): accepted=" + itoa(b2i(err == nil)) + ", canonical SEC1 says " + itoa(b2i(accept))
			}
			got, valid := vPointOf(e)
			if err == nil {
				if !valid || !vSame(got, want) {
					return d.name + "(" + c.A + ") = " + got.String() + ", want " + want.String()
				}
			} else if !valid || !vSame(got, pre) {
				return d.name + "(" + c.A + ") failed but changed the receiver to " + got.String()
			}
		}
	default:
		return vRunCase6(t, c)
	}
	return ""
}

func b2i(b bool) int {
	if b {
		return 1
	}
	return 0
}
