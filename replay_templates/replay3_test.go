package secp256k1

// Independent affine oracle for secp256k1 (math/big only) and the element batteries that turn
// a failed solver obligation into a concrete, replayable witness on real curve points.

import (
	"bytes"
	"encoding/hex"
	"math/big"
	"math/rand"
	"testing"

	"github.com/bytemare/secp256k1/internal/field"
)

type vPt struct {
	x, y *big.Int
	inf  bool
}

var (
	vGx, _ = new(big.Int).SetString("79be667ef9dcbbac55a06295ce870b07029bfcdb2dce28d959f2815b16f81798", 16)
	vGy, _ = new(big.Int).SetString("483ada7726a3c4655da4fbfc0e1108a8fd17b448a68554199c47d08ffb10d4b8", 16)
)

func vInf() vPt { return vPt{inf: true} }
func vG() vPt   { return vPt{x: new(big.Int).Set(vGx), y: new(big.Int).Set(vGy)} }

func vModP(v *big.Int) *big.Int { return v.Mod(v, vP) }

func vNeg(p vPt) vPt {
	if p.inf {
		return p
	}
	return vPt{x: new(big.Int).Set(p.x), y: vModP(new(big.Int).Neg(p.y))}
}

func vAddPt(p, q vPt) vPt {
	if p.inf {
		return q
	}
	if q.inf {
		return p
	}
	var lam *big.Int
	if p.x.Cmp(q.x) == 0 {
		if new(big.Int).Mod(new(big.Int).Add(p.y, q.y), vP).Sign() == 0 {
			return vInf()
		}
		num := new(big.Int).Mul(big.NewInt(3), new(big.Int).Mul(p.x, p.x))
		den := new(big.Int).ModInverse(new(big.Int).Mul(big.NewInt(2), p.y), vP)
		lam = vModP(num.Mul(num, den))
	} else {
		num := new(big.Int).Sub(q.y, p.y)
		den := new(big.Int).ModInverse(vModP(new(big.Int).Sub(q.x, p.x)), vP)
		lam = vModP(num.Mul(num, den))
	}
	x3 := new(big.Int).Mul(lam, lam)
	x3.Sub(x3, p.x)
	x3.Sub(x3, q.x)
	vModP(x3)
	y3 := new(big.Int).Sub(p.x, x3)
	y3.Mul(y3, lam)
	y3.Sub(y3, p.y)
	vModP(y3)
	return vPt{x: x3, y: y3}
}

func vMulPt(k *big.Int, p vPt) vPt {
	r := vInf()
	for i := k.BitLen() - 1; i >= 0; i-- {
		r = vAddPt(r, r)
		if k.Bit(i) == 1 {
			r = vAddPt(r, p)
		}
	}
	return r
}

func vSame(p, q vPt) bool {
	if p.inf || q.inf {
		return p.inf == q.inf
	}
	return p.x.Cmp(q.x) == 0 && p.y.Cmp(q.y) == 0
}

func (p vPt) String() string {
	if p.inf {
		return "inf"
	}
	return "(" + p.x.Text(16) + "," + p.y.Text(16) + ")"
}

// vFeOf builds the field element with value v directly from its Montgomery limbs (v * 2^256 mod p): no code of the
// library is involved in constructing replay operands.
func vFeOf(v *big.Int) field.Element {
	m := new(big.Int).Mod(new(big.Int).Lsh(new(big.Int).Mod(v, vP), 256), vP)
	var e field.Element
	mask := new(big.Int).SetUint64(^uint64(0))
	for i := 0; i < 4; i++ {
		e.E[i] = new(big.Int).And(new(big.Int).Rsh(m, uint(64*i)), mask).Uint64()
	}
	return e
}

func vFeVal(e *field.Element) *big.Int { return new(big.Int).SetBytes(e.Bytes()) }

// vElementOf builds the projective representation (x*l : y*l : l) of p, or (0 : l : 0) for the identity.
func vElementOf(p vPt, l *big.Int) *Element {
	if p.inf {
		return &Element{x: vFeOf(big.NewInt(0)), y: vFeOf(l), z: vFeOf(big.NewInt(0))}
	}
	return &Element{x: vFeOf(new(big.Int).Mul(p.x, l)), y: vFeOf(new(big.Int).Mul(p.y, l)), z: vFeOf(l)}
}

// vPointOf reads the raw coordinates; ok=false if they are not a valid representation of a curve point.
func vPointOf(e *Element) (vPt, bool) {
	X, Y, Z := vFeVal(&e.x), vFeVal(&e.y), vFeVal(&e.z)
	if Z.Sign() == 0 {
		return vInf(), X.Sign() == 0 && Y.Sign() != 0
	}
	zi := new(big.Int).ModInverse(Z, vP)
	x := vModP(new(big.Int).Mul(X, zi))
	y := vModP(new(big.Int).Mul(Y, zi))
	lhs := vModP(new(big.Int).Mul(y, y))
	rhs := vModP(new(big.Int).Add(new(big.Int).Mul(x, new(big.Int).Mul(x, x)), big.NewInt(7)))
	return vPt{x: x, y: y}, lhs.Cmp(rhs) == 0
}

func vSec1(p vPt, compressed bool) []byte {
	if p.inf {
		return []byte{0}
	}
	if compressed {
		return append([]byte{byte(2 + p.y.Bit(0))}, vPad32(p.x)...)
	}
	return append(append([]byte{4}, vPad32(p.x)...), vPad32(p.y)...)
}

type vNamed struct {
	name string
	p    vPt
	l    *big.Int
}

func vPool(seed int64) []vNamed {
	rng := rand.New(rand.NewSource(seed + 11))
	rl := func() *big.Int {
		l := new(big.Int).Rand(rng, vP)
		if l.Sign() == 0 {
			l.SetInt64(1)
		}
		return l
	}
	g := vG()
	nm1 := new(big.Int).Sub(vN, big.NewInt(1))
	ks := []*big.Int{big.NewInt(1), big.NewInt(2), big.NewInt(3), nm1, new(big.Int).Sub(vN, big.NewInt(2)), new(big.Int).Rand(rng, vN), new(big.Int).Rand(rng, vN)}
	out := []vNamed{{"O(0:1:0)", vInf(), big.NewInt(1)}, {"O(0:r:0)", vInf(), rl()}}
	// a primitive cube root of unity: (beta*x, y) is a different point with the same y
	beta := big.NewInt(1)
	for b := int64(2); beta.Cmp(big.NewInt(1)) == 0; b++ {
		beta.Exp(big.NewInt(b), new(big.Int).Div(new(big.Int).Sub(vP, big.NewInt(1)), big.NewInt(3)), vP)
	}
	// scalings whose Montgomery representation is sparse (e.g. agrees with that of 1 in its low limbs)
	Rinv := new(big.Int).ModInverse(new(big.Int).Lsh(big.NewInt(1), 256), vP)
	sparse := func(l [4]uint64) *big.Int {
		v := new(big.Int)
		for i := 3; i >= 0; i-- {
			v.Lsh(v, 64)
			v.Or(v, new(big.Int).SetUint64(l[i]))
		}
		return vModP(v.Mul(v, Rinv))
	}
	for i, k := range ks {
		p := vMulPt(k, g)
		out = append(out, vNamed{"[" + k.Text(16) + "]G*1", p, big.NewInt(1)}, vNamed{"[" + k.Text(16) + "]G*r", p, rl()})
		if i < 2 {
			out = append(out, vNamed{"(beta*x,y) of [" + k.Text(16) + "]G", vPt{x: vMul(beta, p.x), y: new(big.Int).Set(p.y)}, rl()})
			out = append(out, vNamed{"[" + k.Text(16) + "]G*sparseZ", p, sparse([4]uint64{0, 0, 0, 1})})
		}
	}
	return out
}

func vRunCase3(t *testing.T, c vCase) (msg string) {
	switch c.Kind {
	case "el-battery":
		pool := vPool(int64(c.N))
		// optional: projective scalings (Z values, comma separated) taken from solver models
		for _, h := range bytes.Split([]byte(c.A), []byte(",")) {
			if len(h) == 0 {
				continue
			}
			if l := vBig(string(h)); l.Sign() != 0 {
				pool = append(pool, vNamed{"G*Z(model " + string(h) + ")", vG(), l}, vNamed{"[5]G*Z(model)", vMulPt(big.NewInt(5), vG()), l}, vNamed{"O(0:model:0)", vInf(), l})
			}
		}
		fail := func(s string) string { return c.Op + ": " + s }
		for _, a := range pool {
			pa := a.p
			// unary
			if c.Op == "group" || c.Op == "all" {
				e := vElementOf(pa, a.l)
				if got, ok := vPointOf(e.Double()); !ok || !vSame(got, vAddPt(pa, pa)) {
					return fail("Double(" + a.name + ") = " + got.String())
				}
				e = vElementOf(pa, a.l)
				if got, ok := vPointOf(e.Negate()); !ok || !vSame(got, vNeg(pa)) {
					return fail("Negate(" + a.name + ") = " + got.String())
				}
				e = vElementOf(pa, a.l)
				if got, ok := vPointOf(e.Add(e)); !ok || !vSame(got, vAddPt(pa, pa)) {
					return fail("P.Add(P) for " + a.name)
				}
				e = vElementOf(pa, a.l)
				if got, ok := vPointOf(e.Subtract(e)); !ok || !got.inf {
					return fail("P.Subtract(P) for " + a.name)
				}
				e = vElementOf(pa, a.l)
				if got, ok := vPointOf(e.Add(nil)); !ok || !vSame(got, pa) {
					return fail("Add(nil)")
				}
				if got, ok := vPointOf(e.Subtract(nil)); !ok || !vSame(got, pa) {
					return fail("Subtract(nil)")
				}
			}
			if c.Op == "encode" || c.Op == "all" {
				e := vElementOf(pa, a.l)
				if enc := e.Encode(); !bytes.Equal(enc, vSec1(pa, true)) {
					return fail("Encode(" + a.name + ") = " + hex.EncodeToString(enc))
				}
				if x := e.XCoordinate(); !bytes.Equal(x, vSec1(pa, true)[1:]) {
					return fail("XCoordinate(" + a.name + ")")
				}
				if h := e.Hex(); h != hex.EncodeToString(vSec1(pa, true)) {
					return fail("Hex(" + a.name + ")")
				}
				if mb, err := e.MarshalBinary(); err != nil || !bytes.Equal(mb, vSec1(pa, true)) {
					return fail("MarshalBinary(" + a.name + ")")
				}
				unc := e.EncodeUncompressed()
				if !pa.inf && !bytes.Equal(unc, vSec1(pa, false)) {
					return fail("EncodeUncompressed(" + a.name + ") = " + hex.EncodeToString(unc))
				}
				for _, enc := range [][]byte{e.Encode(), unc} {
					d := NewElement().Base()
					if err := d.Decode(enc); err != nil {
						return fail("Decode(" + hex.EncodeToString(enc) + ") of an encoding of " + a.name + " failed: " + err.Error())
					}
					if got, ok := vPointOf(d); !ok || !vSame(got, pa) {
						return fail("Decode(Encode(" + a.name + ")) = " + got.String())
					}
				}
			}
			for _, b := range pool {
				pb := b.p
				if c.Op == "group" || c.Op == "all" {
					e, f := vElementOf(pa, a.l), vElementOf(pb, b.l)
					if got, ok := vPointOf(e.Add(f)); !ok || !vSame(got, vAddPt(pa, pb)) {
						return fail("Add(" + a.name + ", " + b.name + ") = " + got.String() + " want " + vAddPt(pa, pb).String())
					}
					if got, _ := vPointOf(f); !vSame(got, pb) {
						return fail("Add changed its argument")
					}
					e = vElementOf(pa, a.l)
					if got, ok := vPointOf(e.Subtract(f)); !ok || !vSame(got, vAddPt(pa, vNeg(pb))) {
						return fail("Subtract(" + a.name + ", " + b.name + ") = " + got.String())
					}
					if got, _ := vPointOf(f); !vSame(got, pb) {
						return fail("Subtract changed its argument")
					}
				}
				if c.Op == "equal" || c.Op == "all" {
					e, f := vElementOf(pa, a.l), vElementOf(pb, b.l)
					want := 0
					if vSame(pa, pb) {
						want = 1
					}
					if e.Equal(f) != want || f.Equal(e) != want {
						return fail("Equal(" + a.name + ", " + b.name + ") != " + itoa(want))
					}
					if e.IsIdentity() != pa.inf {
						return fail("IsIdentity(" + a.name + ")")
					}
				}
			}
		}
	case "equal-points":
		// A = x1||y1, B = x2||y2 (affine, hex): Equal must agree with point equality in every representation and order
		a, b := vHex(c.A), vHex(c.B)
		p1 := vPt{x: new(big.Int).SetBytes(a[:32]), y: new(big.Int).SetBytes(a[32:])}
		p2 := vPt{x: new(big.Int).SetBytes(b[:32]), y: new(big.Int).SetBytes(b[32:])}
		for _, sc := range [][2]int64{{1, 1}, {3, 5}, {1, 9}} {
			e, f := vElementOf(p1, big.NewInt(sc[0])), vElementOf(p2, big.NewInt(sc[1]))
			if _, ok := vPointOf(e); !ok {
				return "bad witness: first point not on the curve"
			}
			if _, ok := vPointOf(f); !ok {
				return "bad witness: second point not on the curve"
			}
			want := 0
			if vSame(p1, p2) {
				want = 1
			}
			if e.Equal(f) != want || f.Equal(e) != want {
				return "Equal(" + p1.String() + ", " + p2.String() + ") = " + itoa(e.Equal(f)) + "/" + itoa(f.Equal(e)) + ", want " + itoa(want)
			}
		}
	case "identity-producers":
		// every way of producing the identity, on receivers in every prior state incl. the zero value of the type
		g := vG()
		recvs := func() []*Element {
			return []*Element{new(Element), NewElement(), vElementOf(vMulPt(big.NewInt(5), g), big.NewInt(7)), vElementOf(vInf(), big.NewInt(3))}
		}
		prods := map[string]func(e *Element){
			"Identity()":      func(e *Element) { e.Identity() },
			"Decode(00)":      func(e *Element) { _ = e.Decode([]byte{0}) },
			"Multiply(nil)":   func(e *Element) { e.Multiply(nil) },
			"UnmarshalBinary": func(e *Element) { _ = e.UnmarshalBinary([]byte{0}) },
			"Multiply(0)":     func(e *Element) { e.Multiply(NewScalar()) },
			"Subtract(self)":  func(e *Element) { e.Subtract(e) },
		}
		for name, f := range prods {
			for i, e := range recvs() {
				if i == 0 && (name == "Multiply(0)" || name == "Subtract(self)") {
					continue // arithmetic on the zero value of the type is outside the API's contract
				}
				f(e)
				if pt, ok := vPointOf(e); !ok || !pt.inf {
					return name + " on receiver #" + itoa(i) + " does not leave a valid representation of the identity"
				}
				q := vElementOf(g, big.NewInt(9))
				if e.Equal(q) != 0 || q.Equal(e) != 0 || !e.IsIdentity() {
					return name + " on receiver #" + itoa(i) + ": the result compares equal to a finite point"
				}
				if got, ok := vPointOf(e.Add(q)); !ok || !vSame(got, g) {
					return name + " on receiver #" + itoa(i) + ": identity + G != G"
				}
			}
		}
	case "el-scaled":
		// a, b: projective scalings (Z values) of receiver and argument taken from a solver model
		la, lb := vBig(c.A), vBig(c.B)
		if la.Sign() == 0 {
			la.SetInt64(1)
		}
		if lb.Sign() == 0 {
			lb.SetInt64(1)
		}
		g := vG()
		pts := []vPt{g, vAddPt(g, g), vMulPt(big.NewInt(5), g), vNeg(g)}
		for _, pa := range pts {
			for _, pb := range pts {
				e, f := vElementOf(pa, la), vElementOf(pb, lb)
				if got, ok := vPointOf(e.Add(f)); !ok || !vSame(got, vAddPt(pa, pb)) {
					return "Add with argument scaling " + c.B + ": " + pa.String() + " + " + pb.String() + " = " + got.String()
				}
				e = vElementOf(pa, la)
				if got, ok := vPointOf(e.Subtract(f)); !ok || !vSame(got, vAddPt(pa, vNeg(pb))) {
					return "Subtract with argument scaling " + c.B + " wrong"
				}
				e = vElementOf(pa, la)
				if got, ok := vPointOf(e.Double()); !ok || !vSame(got, vAddPt(pa, pa)) {
					return "Double with scaling " + c.A + " wrong"
				}
			}
		}
	case "multiply":
		// a = scalar (hex), b = multiple of G used as the point (hex), c = scaling factor
		k, j, l := vBig(c.A), vBig(c.B), vBig(c.C)
		p := vMulPt(j, vG())
		if j.Sign() == 0 {
			p = vInf()
		}
		if l.Sign() == 0 {
			l.SetInt64(1)
		}
		want := vMulPt(k, p)
		for vi, sc := range vScalarVariants(t, k) {
			e := vElementOf(p, l)
			got, ok := vPointOf(e.Multiply(sc))
			if !ok || !vSame(got, want) {
				return "[" + c.A + "]([" + c.B + "]G) = " + got.String() + ", want " + want.String() + " (scalar constructor variant " + itoa(vi) + ")"
			}
			if !bytes.Equal(e.Encode(), vSec1(want, true)) {
				return "Encode of the product differs from the oracle's SEC1 encoding"
			}
		}
	case "multiply-nil":
		// C01 is stated on encodings: whether the coordinates left behind are a clean (0:1:0) is C05 / C10's business
		e := vElementOf(vG(), big.NewInt(3))
		if r := e.Multiply(nil); r != e || !e.IsIdentity() || !bytes.Equal(e.Encode(), []byte{0}) {
			return "Multiply(nil) is not the identity"
		}
	default:
		return vRunCase4(t, c)
	}
	return ""
}
