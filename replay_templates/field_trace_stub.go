package field

// Trace buffer filled by the instrumented overlay used in the C19 replay (inactive otherwise).

var (
	VTrace   []string
	VTraceOn bool
)

func vTraceHit(name string) {
	if VTraceOn {
		VTrace = append(VTrace, name)
	}
}
