package secp256k1

// Hostile-but-legal caller prelude and a sanity battery.  The prelude calls every exported function once (some
// an odd number of times) and scribbles over every byte slice the library hands out: if any of them is, or
// modifies, package-level or per-object hidden state, the sanity battery (and whatever cases follow in the same
// process) observe it.  Used when the symbolic side reports a write to package-level state or package-level
// storage handed to the caller, and after each two-step history.

import (
	"bytes"
	"math/big"
	"testing"
)

func vScribble(b []byte) {
	// not an involution: scribbling twice over the same storage does not restore it
	for i := range b {
		b[i] = b[i]*3 + 0x5b
	}
	if cap(b) > len(b) {
		b = b[:cap(b)]
		for i := range b {
			b[i] = b[i]*5 + 0x17
		}
	}
}

func vHostilePrelude(t *testing.T) {
	g := vG()
	vScribble(Order())
	s := vScalarOf(t, new(big.Int).Sub(vN, big.NewInt(12)))
	u := vScalarOf(t, big.NewInt(77))
	vScribble(s.Encode())
	if b, err := s.MarshalBinary(); err == nil {
		vScribble(b)
	}
	_ = s.Hex()
	_ = s.Bits()
	_ = s.LessOrEqual(u)
	_ = s.Equal(u)
	_, _ = s.IsZero(), s.IsOne()
	NewScalar().MinusOne()
	NewScalar().One()
	NewScalar().Zero()
	NewScalar().Random()
	NewScalar().SetUInt64(3)
	s.Copy().Invert()
	s.Copy().Square()
	s.Copy().Pow(u)
	s.Copy().Add(u).Subtract(u).Multiply(u)
	_ = NewScalar().CSelect(1, s, u)
	_ = NewScalar().Decode(vPad32(vN)) // rejected
	_ = NewScalar().DecodeHex("zz")
	e := vElementOf(vMulPt(big.NewInt(11), g), big.NewInt(3))
	vScribble(e.Encode())
	vScribble(e.EncodeUncompressed())
	vScribble(e.XCoordinate())
	if b, err := e.MarshalBinary(); err == nil {
		vScribble(b)
	}
	_ = e.Hex()
	for _, id := range []*Element{NewElement(), NewElement().Identity(), Base().Subtract(Base())} {
		vScribble(id.Encode())
		vScribble(id.EncodeUncompressed())
		vScribble(id.XCoordinate())
		_ = id.IsIdentity()
	}
	vScribble(Base().Encode())
	e.Copy().Add(Base()).Double().Negate().Subtract(e)
	e.Copy().Multiply(s)
	_ = e.Equal(Base())
	_ = NewElement().Decode([]byte{2, 1, 2, 3})
	_ = NewElement().Decode(vSec1(vMulPt(big.NewInt(5), g), true))
	_ = NewElement().Decode(vSec1(vMulPt(big.NewInt(5), g), false))
	_ = NewElement().DecodeHex("zz")
	_ = HashToGroup([]byte("m"), []byte("prelude-dst"))
	_ = EncodeToGroup([]byte("m"), []byte("prelude-dst"))
	_ = HashToScalar([]byte("m"), []byte("prelude-dst"))
	_, _, _ = Ciphersuite(), ScalarLength(), ElementLength()
}

// vPreludeSafe runs the prelude; what goes wrong inside it is not the concern of the case that uses it to set the scene.
func vPreludeSafe(t *testing.T) {
	defer func() { _ = recover() }()
	vHostilePrelude(t)
}

// vSanity checks a handful of API facts against math/big oracles; "" when all hold.  scope selects the facts a property
// is about: "scalar", "element" (which needs scalars for Multiply), "hash", or "all".
func vSanity(t *testing.T, scope string) string {
	if scope == "" {
		scope = "all"
	}
	if scope == "hash" {
		dst := []byte("QUUX-V01-CS02-with-secp256k1_XMD:SHA-256_SSWU_RO_")
		if got, ok := vPointOf(HashToGroup([]byte("abc"), dst)); !ok || !vSame(got, vHashToCurve([]byte("abc"), dst, true)) {
			return "sanity: HashToGroup(abc) is not the RFC 9380 point"
		}
		return ""
	}
	g := vG()
	one, zero, two := vScalarOf(t, big.NewInt(1)), vScalarOf(t, big.NewInt(0)), vScalarOf(t, big.NewInt(2))
	nm1v, nm2v := new(big.Int).Sub(vN, big.NewInt(1)), new(big.Int).Sub(vN, big.NewInt(2))
	nm1 := NewScalar()
	if err := nm1.Decode(vPad32(nm1v)); err != nil {
		return "sanity: Decode(n-1) rejected: " + err.Error()
	}
	nm2 := NewScalar()
	if err := nm2.Decode(vPad32(nm2v)); err != nil {
		return "sanity: Decode(n-2) rejected: " + err.Error()
	}
	if NewScalar().Decode(vPad32(vN)) == nil {
		return "sanity: Decode(n) accepted"
	}
	if !bytes.Equal(Order(), vPad32(vN)) {
		return "sanity: Order() is not n"
	}
	if !one.IsOne() || zero.IsOne() || nm1.IsOne() || two.IsOne() || !NewScalar().One().IsOne() || !NewScalar().SetUInt64(1).IsOne() {
		return "sanity: IsOne disagrees with the canonical value"
	}
	if !zero.IsZero() || one.IsZero() || nm1.IsZero() || !NewScalar().IsZero() {
		return "sanity: IsZero disagrees with the canonical value"
	}
	if vScalarVal(NewScalar().MinusOne()).Cmp(nm1v) != 0 || vScalarVal(NewScalar().One()).Cmp(big.NewInt(1)) != 0 || vScalarVal(NewScalar().Zero()).Sign() != 0 {
		return "sanity: Zero/One/MinusOne do not set 0, 1, n-1"
	}
	if one.Equal(one.Copy()) != 1 || one.Equal(nm1) != 0 || nm1.Equal(NewScalar().MinusOne()) != 1 {
		return "sanity: Equal disagrees with the canonical values"
	}
	if one.LessOrEqual(nm1) != 1 || nm1.LessOrEqual(one) != 0 || nm2.LessOrEqual(nm1) != 1 || nm1.LessOrEqual(nm2) != 0 || nm1.LessOrEqual(nm1) != 1 {
		return "sanity: LessOrEqual disagrees with the canonical values"
	}
	if !bytes.Equal(nm2.Encode(), vPad32(nm2v)) || !bytes.Equal(one.Encode(), vPad32(big.NewInt(1))) {
		return "sanity: Encode is not the canonical big-endian value"
	}
	if vScalarVal(two.Copy().Pow(nm1)).Cmp(big.NewInt(1)) != 0 || vScalarVal(vScalarOf(t, big.NewInt(3)).Pow(vScalarOf(t, big.NewInt(5)))).Cmp(big.NewInt(243)) != 0 {
		return "sanity: Pow is not exponentiation mod n"
	}
	if vScalarVal(two.Copy().Invert().Multiply(two)).Cmp(big.NewInt(1)) != 0 || vScalarVal(nm1.Copy().Add(two)).Cmp(big.NewInt(1)) != 0 || vScalarVal(one.Copy().Subtract(two)).Cmp(nm1v) != 0 {
		return "sanity: scalar arithmetic is not arithmetic mod n"
	}
	b := nm2.Bits()
	for i := 0; i < 256; i++ {
		if uint(b[i]) != nm2v.Bit(i) {
			return "sanity: Bits() is not the canonical bit string"
		}
	}
	if scope == "scalar" {
		return ""
	}
	for _, id := range []*Element{NewElement(), NewElement().Identity(), Base().Subtract(Base()), Base().Multiply(nm1).Add(Base()), Base().Multiply(zero)} {
		if !bytes.Equal(id.Encode(), []byte{0}) || !bytes.Equal(id.EncodeUncompressed(), []byte{0}) || !id.IsIdentity() {
			return "sanity: an identity does not encode as the single byte 00"
		}
	}
	if !bytes.Equal(Base().Encode(), vSec1(g, true)) || !bytes.Equal(Base().EncodeUncompressed(), vSec1(g, false)) {
		return "sanity: Base() does not encode as G"
	}
	p5 := vMulPt(big.NewInt(5), g)
	e := vElementOf(p5, big.NewInt(7))
	if !bytes.Equal(e.Encode(), vSec1(p5, true)) || !bytes.Equal(e.EncodeUncompressed(), vSec1(p5, false)) || !bytes.Equal(e.XCoordinate(), vSec1(p5, true)[1:]) {
		return "sanity: encodings of 5G are not SEC1"
	}
	for _, comp := range []bool{true, false} {
		d := NewElement()
		if err := d.Decode(vSec1(p5, comp)); err != nil {
			return "sanity: Decode rejects 5G"
		}
		if got, ok := vPointOf(d); !ok || !vSame(got, p5) || d.Equal(e) != 1 {
			return "sanity: Decode(5G) is not 5G"
		}
		d2 := NewElement()
		if err := d2.Decode(vSec1(vNeg(p5), comp)); err != nil {
			return "sanity: Decode rejects -5G"
		}
		if got, ok := vPointOf(d2); !ok || !vSame(got, vNeg(p5)) || d2.Equal(e) != 0 {
			return "sanity: Decode(-5G) is not -5G"
		}
	}
	if got, ok := vPointOf(Base().Multiply(nm2)); !ok || !vSame(got, vMulPt(nm2v, g)) {
		return "sanity: [n-2]G wrong"
	}
	if got, ok := vPointOf(e.Copy().Add(Base()).Double()); !ok || !vSame(got, vMulPt(big.NewInt(12), g)) {
		return "sanity: 2(5G+G) wrong"
	}
	if scope == "element" {
		return ""
	}
	dst := []byte("QUUX-V01-CS02-with-secp256k1_XMD:SHA-256_SSWU_RO_")
	if got, ok := vPointOf(HashToGroup([]byte("abc"), dst)); !ok || !vSame(got, vHashToCurve([]byte("abc"), dst, true)) {
		return "sanity: HashToGroup(abc) is not the RFC 9380 point"
	}
	return ""
}

func vRunCase10(t *testing.T, c vCase) (msg string) {
	switch c.Kind {
	case "hostile-prelude":
		// the prelude only sets the scene: what goes wrong inside it is some other property's business
		func() {
			defer func() { _ = recover() }()
			vHostilePrelude(t)
		}()
	case "sanity":
		return vSanity(t, c.Op)
	case "prelude-then-sanity":
		// what the hostile caller does must not change later results: facts that already fail before the prelude are not counted
		if vSanity(t, c.Op) != "" {
			return ""
		}
		func() {
			defer func() { _ = recover() }()
			vHostilePrelude(t)
		}()
		if m := vSanity(t, c.Op); m != "" {
			return "after a caller used the API and wrote into the slices it was handed: " + m
		}
	default:
		return vRunCase11(t, c)
	}
	return ""
}
