package secp256k1

// Hostile-but-legal caller prelude and a sanity battery.  The prelude calls every exported function once (some
// an odd number of times) and scribbles over every byte slice the library hands out: if any of them is, or
// modifies, package-level or per-object hidden state, the sanity battery (and whatever cases follow in the same
// process) observe it.  Used when the symbolic side reports a write to package-level state or package-level
// storage handed to the caller, and after each two-step history.

import (
	"bytes"
	"math/big"
	"testing"
)

func vScribble(b []byte) {
	// not an involution: scribbling twice over the same storage does not restore it
	for i := range b {
		b[i] = b[i]*3 + 0x5b
	}
	if cap(b) > len(b) {
		b = b[:cap(b)]
		for i := range b {
			b[i] = b[i]*5 + 0x17
		}
	}
}

func vHostilePrelude(t *testing.T) {
	g := vG()
	vScribble(Order())
	s := vScalarOf(t, new(big.Int).Sub(vN, big.NewInt(12)))
	u := vScalarOf(t, big.NewInt(77))
	vScribble(s.Encode())
	if b, err := s.MarshalBinary(); err == nil {
		vScribble(b)
	}
	_ = s.Hex()
	_ = s.Bits()
	_ = s.LessOrEqual(u)
	_ = s.Equal(u)
	_, _ = s.IsZero(), s.IsOne()
	NewScalar().MinusOne()
	NewScalar().One()
	NewScalar().Zero()
	NewScalar().Random()
	NewScalar().SetUInt64(3)
	s.Copy().Invert()
	s.Copy().Square()
	s.Copy().Pow(u)
	s.Copy().Add(u).Subtract(u).Multiply(u)
	_ = NewScalar().CSelect(1, s, u)
	_ = NewScalar().Decode(vPad32(vN)) // rejected
	_ = NewScalar().DecodeHex("zz")
	e := vElementOf(vMulPt(big.NewInt(11), g), big.NewInt(3))
	vScribble(e.Encode())
	vScribble(e.EncodeUncompressed())
	vScribble(e.XCoordinate())
	if b, err := e.MarshalBinary(); err == nil {
		vScribble(b)
	}
	_ = e.Hex()
	for _, id := range []*Element{NewElement(), NewElement().Identity(), Base().Subtract(Base())} {
		vScribble(id.Encode())
		vScribble(id.EncodeUncompressed())
		vScribble(id.XCoordinate())
		_ = id.IsIdentity()
	}
	vScribble(Base().Encode())
	e.Copy().Add(Base()).Double().Negate().Subtract(e)
	e.Copy().Multiply(s)
	_ = e.Equal(Base())
	_ = NewElement().Decode([]byte{2, 1, 2, 3})
	_ = NewElement().Decode(vSec1(vMulPt(big.NewInt(5), g), true))
	_ = NewElement().Decode(vSec1(vMulPt(big.NewInt(5), g), false))
	_ = NewElement().DecodeHex("zz")
	_ = HashToGroup([]byte("m"), []byte("prelude-dst"))
	_ = EncodeToGroup([]byte("m"), []byte("prelude-dst"))
	_ = HashToScalar([]byte("m"), []byte("prelude-dst"))
	_, _, _ = Ciphersuite(), ScalarLength(), ElementLength()
}

// vPreludeSafe runs the prelude; what goes wrong inside it is not the concern of the case that uses it to set the scene.
func vPreludeSafe(t *testing.T) {
	defer func() { _ = recover() }()
	vHostilePrelude(t)
}

// vSanity checks API facts against math/big oracles; "" when all hold.  scope is a property id: only the facts that property
// is about are checked ("all", "", C10, C15, C16: every fact), so that a replay never blames a property for a defect elsewhere.
func vSanity(t *testing.T, scope string) string {
	rel := func(pids ...string) bool {
		switch scope {
		case "", "all", "C10", "C15", "C16":
			return true
		}
		for _, p := range pids {
			if p == scope {
				return true
			}
		}
		return false
	}
	g := vG()
	nm1v, nm2v := new(big.Int).Sub(vN, big.NewInt(1)), new(big.Int).Sub(vN, big.NewInt(2))
	one, zero, two, nm1, nm2 := vScalarOf(t, big.NewInt(1)), vScalarOf(t, big.NewInt(0)), vScalarOf(t, big.NewInt(2)), vScalarOf(t, nm1v), vScalarOf(t, nm2v)
	if rel("C07", "C18") {
		for _, v := range []*big.Int{nm1v, nm2v, big.NewInt(1)} {
			d := NewScalar()
			if err := d.Decode(vPad32(v)); err != nil {
				return "sanity: Decode(" + v.Text(16) + ") rejected: " + err.Error()
			}
			if !bytes.Equal(d.Encode(), vPad32(v)) {
				return "sanity: Encode(Decode(" + v.Text(16) + ")) is not the input"
			}
		}
		if NewScalar().Decode(vPad32(vN)) == nil {
			return "sanity: Decode(n) accepted"
		}
		if !bytes.Equal(nm2.Encode(), vPad32(nm2v)) || !bytes.Equal(one.Encode(), vPad32(big.NewInt(1))) {
			return "sanity: Encode is not the canonical big-endian value"
		}
	}
	if rel("C06") && !bytes.Equal(Order(), vPad32(vN)) {
		return "sanity: Order() is not n"
	}
	if rel("C13") {
		if !one.IsOne() || zero.IsOne() || nm1.IsOne() || two.IsOne() {
			return "sanity: IsOne disagrees with the canonical value"
		}
		if !zero.IsZero() || one.IsZero() || nm1.IsZero() || !NewScalar().IsZero() {
			return "sanity: IsZero disagrees with the canonical value"
		}
		if one.Equal(one.Copy()) != 1 || one.Equal(nm1) != 0 || nm1.Equal(vScalarOf(t, nm1v)) != 1 {
			return "sanity: Equal disagrees with the canonical values"
		}
		if one.LessOrEqual(nm1) != 1 || nm1.LessOrEqual(one) != 0 || nm2.LessOrEqual(nm1) != 1 || nm1.LessOrEqual(nm2) != 0 || nm1.LessOrEqual(nm1) != 1 {
			return "sanity: LessOrEqual disagrees with the canonical values"
		}
	}
	if rel("C06") {
		raw := func(s *Scalar) *big.Int { // value of the limbs, without going through Encode
			v := new(big.Int)
			for i := 3; i >= 0; i-- {
				v.Lsh(v, 64)
				v.Or(v, new(big.Int).SetUint64(s.S[i]))
			}
			return v
		}
		same := func(s *Scalar, v *big.Int) bool { return raw(s).Cmp(raw(vScalarOf(t, v))) == 0 }
		if !same(NewScalar().MinusOne(), nm1v) || !same(NewScalar().One(), big.NewInt(1)) || !same(NewScalar().Zero(), big.NewInt(0)) || !same(NewScalar().SetUInt64(1), big.NewInt(1)) {
			return "sanity: Zero/One/MinusOne/SetUInt64 do not set 0, 1, n-1, 1"
		}
		if !same(two.Copy().Pow(nm1), big.NewInt(1)) || !same(vScalarOf(t, big.NewInt(3)).Pow(vScalarOf(t, big.NewInt(5))), big.NewInt(243)) {
			return "sanity: Pow is not exponentiation mod n"
		}
		if !same(two.Copy().Invert().Multiply(two), big.NewInt(1)) || !same(nm1.Copy().Add(two), big.NewInt(1)) || !same(one.Copy().Subtract(two), nm1v) {
			return "sanity: scalar arithmetic is not arithmetic mod n"
		}
	}
	if rel("C14") {
		b := nm2.Bits()
		for i := 0; i < 256; i++ {
			if uint(b[i]) != nm2v.Bit(i) {
				return "sanity: Bits() is not the canonical bit string"
			}
		}
	}
	p5 := vMulPt(big.NewInt(5), g)
	e := vElementOf(p5, big.NewInt(7))
	if rel("C04") {
		for _, id := range []*Element{NewElement(), vElementOf(vInf(), big.NewInt(9))} {
			if !bytes.Equal(id.Encode(), []byte{0}) || !bytes.Equal(id.EncodeUncompressed(), []byte{0}) {
				return "sanity: an identity does not encode as the single byte 00"
			}
		}
		if !bytes.Equal(vElementOf(g, big.NewInt(1)).Encode(), vSec1(g, true)) || !bytes.Equal(vElementOf(g, big.NewInt(1)).EncodeUncompressed(), vSec1(g, false)) {
			return "sanity: (Gx : Gy : 1) does not encode as G"
		}
		if !bytes.Equal(e.Encode(), vSec1(p5, true)) || !bytes.Equal(e.EncodeUncompressed(), vSec1(p5, false)) || !bytes.Equal(e.XCoordinate(), vSec1(p5, true)[1:]) {
			return "sanity: encodings of 5G are not SEC1"
		}
	}
	if rel("C05") {
		if !NewElement().IsIdentity() || !vElementOf(vInf(), big.NewInt(9)).IsIdentity() || e.IsIdentity() {
			return "sanity: IsIdentity wrong"
		}
		if e.Equal(vElementOf(p5, big.NewInt(3))) != 1 || e.Equal(vElementOf(vNeg(p5), big.NewInt(3))) != 0 || e.Equal(NewElement()) != 0 {
			return "sanity: Equal wrong on 5G"
		}
	}
	if rel("C03", "C04") {
		for _, comp := range []bool{true, false} {
			for _, pt := range []vPt{p5, vNeg(p5)} {
				d := NewElement()
				if err := d.Decode(vSec1(pt, comp)); err != nil {
					return "sanity: Decode rejects a valid encoding of +-5G"
				}
				if got, ok := vPointOf(d); !ok || !vSame(got, pt) {
					return "sanity: Decode(+-5G) is not that point"
				}
			}
		}
	}
	if rel("C01") {
		if got, ok := vPointOf(vElementOf(g, big.NewInt(1)).Multiply(nm2)); !ok || !vSame(got, vMulPt(nm2v, g)) {
			return "sanity: [n-2]G wrong"
		}
	}
	if rel("C02") {
		if got, ok := vPointOf(e.Copy().Add(vElementOf(g, big.NewInt(1))).Double()); !ok || !vSame(got, vMulPt(big.NewInt(12), g)) {
			return "sanity: 2(5G+G) wrong"
		}
		if got, ok := vPointOf(vElementOf(g, big.NewInt(1)).Subtract(vElementOf(g, big.NewInt(3)))); !ok || !got.inf {
			return "sanity: G - G is not the identity"
		}
	}
	if rel("C08", "C17") {
		dst := []byte("QUUX-V01-CS02-with-secp256k1_XMD:SHA-256_SSWU_RO_")
		if got, ok := vPointOf(HashToGroup([]byte("abc"), dst)); !ok || !vSame(got, vHashToCurve([]byte("abc"), dst, true)) {
			return "sanity: HashToGroup(abc) is not the RFC 9380 point"
		}
	}
	if rel("C09", "C17") {
		dst := []byte("QUUX-V01-CS02-with-secp256k1_XMD:SHA-256_SSWU_RO_")
		if !bytes.Equal(HashToScalar([]byte("abc"), dst).Encode(), vPad32(new(big.Int).Mod(new(big.Int).SetBytes(vExpandXMD([]byte("abc"), dst, 48)), vN))) {
			return "sanity: HashToScalar(abc) is not the RFC 9380 scalar"
		}
	}
	return ""
}

func vRunCase10(t *testing.T, c vCase) (msg string) {
	switch c.Kind {
	case "hostile-prelude":
		// the prelude only sets the scene: what goes wrong inside it is some other property's business
		func() {
			defer func() { _ = recover() }()
			vHostilePrelude(t)
		}()
	case "sanity":
		return vSanity(t, c.Op)
	case "prelude-then-sanity":
		// what the hostile caller does must not change later results: facts that already fail before the prelude are not counted
		if vSanity(t, c.Op) != "" {
			return ""
		}
		func() {
			defer func() { _ = recover() }()
			vHostilePrelude(t)
		}()
		if m := vSanity(t, c.Op); m != "" {
			return "after a caller used the API and wrote into the slices it was handed: " + m
		}
	default:
		return vRunCase11(t, c)
	}
	return ""
}
