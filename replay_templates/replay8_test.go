package secp256k1

// Schedule replay: the internal/field package is compiled from an instrumented overlay in which every
// function appends its name to field.VTrace; the recorded sequence must be identical for all scalars != 1.

import (
	"math/big"
	"strings"
	"testing"

	"github.com/bytemare/secp256k1/internal/field"
)

func vRunCase8(t *testing.T, c vCase) (msg string) {
	switch c.Kind {
	case "schedule":
		ks := strings.Split(c.A, ",")
		g7 := vMulPt(big.NewInt(7), vG())
		// a projective and an affine (Z = 1) representation of a point, and the generator exactly as Base() returns it
		mk := []func() *Element{func() *Element { return vElementOf(g7, big.NewInt(3)) }, func() *Element { return vElementOf(g7, big.NewInt(1)) },
			func() *Element { return Base() }, func() *Element { return vElementOf(vG(), big.NewInt(5)) }}
		for pi, newEl := range mk {
			var ref []string
			refK := ""
			for _, kh := range ks {
				k := vBig(kh)
				if k.Cmp(big.NewInt(1)) == 0 {
					continue
				}
				// every scalar twice in a row (the schedule must not depend on what an earlier call did either) and then once per
				// way of constructing it (nor on how the scalar object was made)
				variants := vScalarVariants(t, k)
				for rep := 0; rep < 1+len(variants); rep++ {
					e := newEl()
					s := vScalarOf(t, k)
					if rep >= 2 {
						s = variants[rep-1]
					}
					field.VTrace = field.VTrace[:0]
					field.VTraceOn = true
					e.Multiply(s)
					field.VTraceOn = false
					got := append([]string(nil), field.VTrace...)
					if ref == nil {
						ref, refK = got, kh
						if len(ref) == 0 {
							return "instrumentation recorded nothing"
						}
						continue
					}
					what := "k=" + kh + " (point " + itoa(pi) + ", call " + itoa(rep+1) + " with this scalar)"
					if len(got) != len(ref) {
						return "Multiply executes " + itoa(len(got)) + " field-level operations for " + what + " but " + itoa(len(ref)) + " for k=" + refK
					}
					for i := range got {
						if got[i] != ref[i] {
							return "field-operation sequences for " + what + " and k=" + refK + " differ at step " + itoa(i) + ": " + got[i] + " vs " + ref[i]
						}
					}
				}
			}
		}
	default:
		return vRunCase9(t, c)
	}
	return ""
}
