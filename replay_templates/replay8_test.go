package secp256k1

import "testing"

func vRunCase8(t *testing.T, c vCase) string {
	return "unknown case kind " + c.Kind
}
