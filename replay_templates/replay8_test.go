package secp256k1

// Schedule replay: the internal/field package is compiled from an instrumented overlay in which every
// function appends its name to field.VTrace; the recorded sequence must be identical for all scalars != 1.

import (
	"math/big"
	"strings"
	"testing"

	"github.com/bytemare/secp256k1/internal/field"
)

func vRunCase8(t *testing.T, c vCase) (msg string) {
	switch c.Kind {
	case "schedule":
		ks := strings.Split(c.A, ",")
		g := vMulPt(big.NewInt(7), vG())
		for _, scale := range []int64{3, 1} { // a projective and an affine (Z = 1) representation of the point
			var ref []string
			refK := ""
			for _, kh := range ks {
				k := vBig(kh)
				if k.Cmp(big.NewInt(1)) == 0 {
					continue
				}
				e := vElementOf(g, big.NewInt(scale))
				s := vScalarOf(t, k)
				field.VTrace = field.VTrace[:0]
				field.VTraceOn = true
				e.Multiply(s)
				field.VTraceOn = false
				got := append([]string(nil), field.VTrace...)
				if ref == nil {
					ref, refK = got, kh
					if len(ref) == 0 {
						return "instrumentation recorded nothing"
					}
					continue
				}
				if len(got) != len(ref) {
					return "Multiply executes " + itoa(len(got)) + " field-level operations for k=" + kh + " but " + itoa(len(ref)) + " for k=" + refK
				}
				for i := range got {
					if got[i] != ref[i] {
						return "field-operation sequences for k=" + kh + " and k=" + refK + " differ at step " + itoa(i) + ": " + got[i] + " vs " + ref[i]
					}
				}
			}
		}
	default:
		return vRunCase9(t, c)
	}
	return ""
}
